"""Validity models (DESIGN §4.3)."""
PREDICATES_ALL = {}
