"""Valid-input workloads for the 13 task modules (DESIGN §4.2/§4.3).

For every task: ``gen(r)`` draws a *valid* (reference, estimate) input by my
reading of the module's documented conventions (never by calling the library's
validators), ``calls(inp, r)`` lists direct metric-function calls with in-range
parameters, and ``evaluate_call(inp, r)`` the evaluate() call. Each input dict
carries ``cls``: a coarse input-class tag used for histograms.
"""

import copy

import numpy as np

from . import gen, chordgen

Q = gen.Q


def pick(r, xs):
    return xs[r.randrange(len(xs))]


# ------------------------------------------------------------------ beat

def gen_beat(r, for_evaluate=False):
    base = 5.0 if (for_evaluate or r.random() < 0.5) else 0.0
    if r.random() < 0.12:
        ref, est = gen.goto_pair(r, base=base)
        return {"ref": ref, "est": est, "cls": "goto-runs"}
    ref = gen.events(r, base=base, max_n=20)
    est = gen.related_events(r, ref, base=base)
    cls = "%s/%s" % (_size_cls(ref.size), _size_cls(est.size))
    return {"ref": ref, "est": est, "cls": cls}


def _size_cls(n):
    return "0" if n == 0 else "1" if n == 1 else "2" if n == 2 else \
        "few" if n < 5 else "many"


BEAT_PARAMS = {
    "f_measure": {"f_measure_threshold": [0.07, 1 / 16, 1 / 8, 1 / 32, 0.25]},
    "cemgil": {"cemgil_sigma": [0.04, 1 / 32, 1 / 8]},
    "goto": {"goto_threshold": [0.35, 0.25, 0.5], "goto_mu": [0.2, 0.125, 0.25],
             "goto_sigma": [0.2, 0.125, 0.25]},
    "p_score": {"p_score_threshold": [0.2, 0.25, 0.125, 0.625, 0.875]},
    "continuity": {"continuity_phase_threshold": [0.175, 0.125, 0.25],
                   "continuity_period_threshold": [0.175, 0.125, 0.25]},
    # even values are admitted (the function only warns)
    "information_gain": {"bins": [41, 21, 5, 11, 40, 10, 4, 2]},
}


def draw_params(r, table, p_default=0.5):
    kw = {}
    for k, vals in table.items():
        if r.random() > p_default:
            kw[k] = pick(r, vals)
    return kw


def calls_beat(inp, r):
    out = []
    for fn, table in BEAT_PARAMS.items():
        out.append(("beat." + fn, (inp["ref"], inp["est"]), draw_params(r, table)))
    return out


def eval_beat(inp, r):
    kw = {}
    for table in BEAT_PARAMS.values():
        kw.update(draw_params(r, table, 0.8))
    if r.random() < 0.3:
        kw["min_beat_time"] = pick(r, [0.0, 5.0, 2.5])
    return (inp["ref"], inp["est"]), kw


# ----------------------------------------------------------------- onset

def gen_onset(r):
    ref = gen.events(r)
    est = gen.related_events(r, ref)
    return {"ref": ref, "est": est,
            "cls": "%s/%s" % (_size_cls(ref.size), _size_cls(est.size))}


ONSET_PARAMS = {"window": [0.05, 1 / 32, 1 / 16, 1 / 8, 0.25, 0.0]}


def calls_onset(inp, r):
    return [("onset.f_measure", (inp["ref"], inp["est"]),
             draw_params(r, ONSET_PARAMS))]


def eval_onset(inp, r):
    return (inp["ref"], inp["est"]), draw_params(r, ONSET_PARAMS)


# --------------------------------------------------------------- segment

FRAME_SIZES = [0.5, 0.25, 1.0, 0.125, 0.1]


def gen_segment(r, same_span=True, allow_empty=True):
    """Segmentations starting at 0 and ending together (structure metrics'
    documented convention)."""
    if allow_empty and r.random() < 0.04:
        which = r.choice(["ref", "est", "both"])
        iv, lab = gen.segmentation(r, min_len=8)
        e = np.zeros((0, 2))
        if which == "ref":
            return {"ref_iv": e, "ref_lab": [], "est_iv": iv, "est_lab": lab,
                    "cls": "empty-ref"}
        if which == "est":
            return {"ref_iv": iv, "ref_lab": lab, "est_iv": e, "est_lab": [],
                    "cls": "empty-est"}
        return {"ref_iv": e, "ref_lab": [], "est_iv": e.copy(), "est_lab": [],
                "cls": "empty-both"}
    total = 2 * r.randrange(32, 32 * 24)
    riv, rlab = gen.segmentation(r, total=total, min_len=4)
    kind = r.choice(["independent", "independent", "copy", "refine", "coarse",
                     "shifted", "sparse-mid"])
    if kind == "sparse-mid":
        # long segments whose lengths are multiples of 2g; estimated boundaries
        # sit on reference boundaries or exactly midway between two of them, so
        # one estimate can be within g of two references (and vice versa)
        g = r.choice([16, 32, 8])          # 0.25 / 0.5 / 0.125 s
        bs = [0]
        for _ in range(r.randrange(2, 9)):
            bs.append(bs[-1] + 2 * g * r.choice([1, 1, 2, 3]))
        total = bs[-1]
        riv = np.array([[a / Q, b / Q] for a, b in zip(bs[:-1], bs[1:])])
        rlab = gen.labels(r, len(riv))
        es = [0]
        for a, b in zip(bs[:-1], bs[1:]):
            u = r.random()
            if b - a == 2 * g and u < 0.5:
                es.append((a + b) // 2)
            elif u < 0.8 and b != total:
                es.append(b)
        es = sorted(set(es + [total]))
        eiv = np.array([[a / Q, b / Q] for a, b in zip(es[:-1], es[1:])])
        elab = gen.labels(r, len(eiv))
        if r.random() < 0.5:
            riv, rlab, eiv, elab = eiv, elab, riv, rlab
    elif kind == "copy":
        eiv, elab = riv.copy(), list(rlab)
    elif kind == "refine":
        bs = sorted(set([int(x * Q) for x in riv.ravel()] +
                        [2 * r.randrange(1, max(2, total // 2)) for _ in range(r.randrange(1, 5))]))
        eiv = np.array([[a / Q, b / Q] for a, b in zip(bs[:-1], bs[1:])])
        elab = gen.labels(r, len(eiv))
    elif kind == "coarse":
        bs = sorted(set([0, total] + [int(x * Q) for x in riv[:, 0] if r.random() < 0.5]))
        eiv = np.array([[a / Q, b / Q] for a, b in zip(bs[:-1], bs[1:])])
        elab = gen.labels(r, len(eiv))
    elif kind == "shifted":
        inner = sorted({min(total - 2, max(2, int(x * Q) + 2 * r.randrange(-20, 21)))
                        for x in riv[1:, 0]})
        bs = [0] + inner + [total]
        eiv = np.array([[a / Q, b / Q] for a, b in zip(bs[:-1], bs[1:])])
        elab = gen.labels(r, len(eiv))
    else:
        eiv, elab = gen.segmentation(r, total=total, min_len=4)
    return {"ref_iv": riv, "ref_lab": rlab, "est_iv": eiv, "est_lab": elab,
            "cls": "%s:%dx%d" % (kind, min(len(riv), 4), min(len(eiv), 4))}


def gen_segment_eval(r):
    """Inputs for segment.evaluate: estimate may start later/earlier and end
    earlier/later than the reference (documented padding/cropping)."""
    inp = gen_segment(r, allow_empty=False)
    u = r.random()
    riv, eiv = inp["ref_iv"], inp["est_iv"]
    if u < 0.25:
        pass
    elif u < 0.45:  # estimate shorter
        k = r.randrange(1, len(eiv) + 1)
        inp["est_iv"], inp["est_lab"] = eiv[:k].copy(), inp["est_lab"][:k]
        inp["cls"] = "est-shorter"
    elif u < 0.65:  # estimate longer
        extra = 2 * r.randrange(1, 100) / Q
        end = eiv[-1, 1]
        inp["est_iv"] = np.vstack([eiv, [end, end + extra]])
        inp["est_lab"] = inp["est_lab"] + ["tail"]
        inp["cls"] = "est-longer"
    elif u < 0.72 and len(eiv) >= 3:  # estimate starts later and ends earlier
        k1 = r.randrange(1, len(eiv) - 1)
        k2 = r.randrange(k1 + 1, len(eiv))
        inp["est_iv"], inp["est_lab"] = eiv[k1:k2].copy(), inp["est_lab"][k1:k2]
        inp["cls"] = "est-inside"
    elif u < 0.8:  # estimate starts later
        k = r.randrange(0, len(eiv))
        inp["est_iv"], inp["est_lab"] = eiv[k:].copy(), inp["est_lab"][k:]
        inp["cls"] = "est-starts-later"
    else:  # reference does not start at 0
        k = r.randrange(0, len(riv))
        inp["ref_iv"], inp["ref_lab"] = riv[k:].copy(), inp["ref_lab"][k:]
        inp["cls"] = "ref-starts-later"
    return inp


def _seg4(inp):
    return (inp["ref_iv"], inp["ref_lab"], inp["est_iv"], inp["est_lab"])


def calls_segment(inp, r):
    fs = pick(r, FRAME_SIZES)
    beta = pick(r, [1.0, 0.25, 2.0])
    four = _seg4(inp)
    bref, best = inp["ref_iv"], inp["est_iv"]
    if r.random() < 0.25:
        # boundary metrics accept any valid interval array, also with gaps
        bref, best = gen.gapped_intervals(r), gen.gapped_intervals(r)
    out = [
        ("segment.detection", (bref, best),
         draw_params(r, {"window": [0.5, 3.0, 0.25, 1 / 16], "beta": [1.0, 0.5, 2.0],
                         "trim": [False, True]})),
        ("segment.deviation", (bref, best),
         draw_params(r, {"trim": [False, True]})),
        ("segment.pairwise", four, {"frame_size": fs, "beta": beta}),
        ("segment.rand_index", four, {"frame_size": fs}),
        ("segment.ari", four, {"frame_size": fs}),
        ("segment.mutual_information", four, {"frame_size": fs}),
        ("segment.nce", four, {"frame_size": fs, "beta": beta,
                               "marginal": r.random() < 0.5}),
        ("segment.vmeasure", four, {"frame_size": fs, "beta": beta}),
    ]
    return out


def eval_segment(inp, r):
    kw = draw_params(r, {"frame_size": FRAME_SIZES, "beta": [1.0, 0.25, 2.0],
                         "trim": [False, True], "marginal": [False, True]}, 0.6)
    if r.random() < 0.12:
        kw["window"] = 1.0  # evaluate() documents fixed 0.5 s / 3 s windows
    return _seg4(inp), kw


# ----------------------------------------------------------------- chord

def gen_chord(r, universe=None):
    n = r.randrange(1, 9)
    start = r.choice([0, 0, 0, 32, 640])
    total = r.randrange(max(n, 16), 64 * 12)
    riv, _ = gen.segmentation(r, n=n, start=start, total=total)
    rlab = [_chord_label(r, universe) for _ in range(len(riv))]
    kind = r.choice(["independent", "copy", "shorter", "longer", "earlier",
                     "relabel", "coincide-end", "coincide-start", "jitter"])
    if kind == "copy":
        eiv, elab = riv.copy(), list(rlab)
    elif kind == "jitter":
        # same segmentation with every boundary off by a few microseconds
        # (e.g. one file rounded to fewer decimals than the other)
        bs = [riv[0, 0]] + [b for _, b in riv]
        bs = [max(0.0, b + r.choice([1, -1, 2, -2, 0]) * 2.0 ** r.choice([-16, -18, -20]))
              for b in bs]
        eiv = np.array([[a, b] for a, b in zip(bs[:-1], bs[1:])])
        elab = [l if r.random() < 0.8 else _chord_label(r, universe) for l in rlab]
    elif kind == "relabel":
        eiv = riv.copy()
        elab = [l if r.random() < 0.6 else _chord_label(r, universe) for l in rlab]
    else:
        m = r.randrange(1, 9)
        estart, etotal = start, total
        if kind == "shorter":
            etotal = max(m, total - r.randrange(1, max(2, total // 2)))
        elif kind == "longer":
            etotal = total + r.randrange(1, 200)
        elif kind == "earlier":
            estart = max(0, start - r.randrange(0, 40))
            etotal = total + (start - estart)
        eiv, _ = gen.segmentation(r, n=m, start=estart, total=max(m, etotal))
        if kind == "coincide-end" and len(eiv) >= 1:
            # an estimate boundary exactly at the reference end, then a tail
            end = riv[-1, 1]
            eiv = np.array([[a, b] for a, b in eiv if b <= end] or [[estart / Q, end]])
            eiv[-1, 1] = end
            if eiv[-1, 1] <= eiv[-1, 0]:
                eiv = np.array([[riv[0, 0], end]])
            eiv = np.vstack([eiv, [end, end + r.randrange(1, 64) / Q]])
        if kind == "coincide-start" and start > 0:
            s0 = riv[0, 0]
            eiv = np.vstack([[max(0.0, s0 - r.randrange(1, 32) / Q), s0],
                             [s0, riv[-1, 1]]])
        elab = [_chord_label(r, universe) for _ in range(len(eiv))]
    return {"ref_iv": riv, "ref_lab": rlab, "est_iv": eiv, "est_lab": elab,
            "cls": kind}


def _chord_label(r, universe):
    if universe is not None:
        return pick(r, universe)
    return chordgen.random_label(r, encodable_only=True)


CHORD_CMPS = ["thirds", "thirds_inv", "triads", "triads_inv", "tetrads",
              "tetrads_inv", "root", "mirex", "majmin", "majmin_inv", "sevenths",
              "sevenths_inv"]


def calls_chord(inp, r):
    n = r.randrange(0, 8)
    a = [chordgen.random_label(r) for _ in range(n)]
    b = [x if r.random() < 0.4 else chordgen.random_label(r) for x in a]
    out = [("chord." + f, (a, b), {}) for f in CHORD_CMPS]
    # segmentation scores: sorted, non-overlapping intervals over one span
    sp = gen_segment(r, allow_empty=False)
    off = r.choice([0, 0, 64, 640]) / Q
    siv = (sp["ref_iv"] + off, sp["est_iv"] + off)
    out.append(("chord.overseg", siv, {}))
    out.append(("chord.underseg", siv, {}))
    out.append(("chord.seg", siv, {}))
    # annotations with un-annotated gaps and different spans are valid as well
    giv = (gen.gapped_intervals(r), gen.gapped_intervals(r))
    out.append(("chord.overseg", giv, {}))
    out.append(("chord.underseg", giv, {}))
    out.append(("chord.seg", giv, {}))
    w = np.array([r.randrange(0, 9) / 8.0 for _ in range(n)])
    c = np.array([float(r.choice([1, 0, -1, 1, 0])) for _ in range(n)])
    if n:
        out.append(("chord.weighted_accuracy", (c, w), {}))
    return out


def eval_chord(inp, r):
    return _seg4(inp), {}


# ---------------------------------------------------------------- melody

def gen_melody(r):
    n = r.randrange(1, 30)
    hop = r.choice([1, 2, 4, 8]) / Q
    t0 = r.choice([0.0, 0.0, hop, 3 * hop])
    ref_time = t0 + hop * np.arange(n)
    midi = 50.0
    ref_freq = []
    for _ in range(n):
        midi += r.choice([0, 0, 0.5, -0.5, 1, -1, 2, -2])
        u = r.random()
        f = float(gen.midi_to_hz(midi))
        ref_freq.append(0.0 if u < 0.2 else (-f if u < 0.3 else f))
    ref_freq = np.array(ref_freq)
    kind = r.choice(["same", "same", "other_hop", "shorter", "longer", "copy"])
    if kind == "copy":
        est_time, est_freq = ref_time.copy(), ref_freq.copy()
    else:
        if kind == "same":
            est_time = ref_time.copy()
        elif kind == "other_hop":
            h2 = r.choice([1, 2, 3, 4]) / Q
            m = r.randrange(1, 40)
            est_time = r.choice([0.0, h2]) + h2 * np.arange(m)
        elif kind == "shorter":
            est_time = ref_time[: r.randrange(1, n + 1)].copy()
        else:
            est_time = t0 + hop * np.arange(n + r.randrange(1, 6))
        est_freq = []
        for t in est_time:
            i = int(np.argmin(np.abs(ref_time - t)))
            f = abs(ref_freq[i]) if ref_freq[i] != 0 else float(gen.midi_to_hz(55))
            dm = r.choice([0, 0, 0, 0.25, -0.25, 0.75, -0.75, 12, -12, 1, 7])
            f = f * 2.0 ** (dm / 12.0)
            u = r.random()
            est_freq.append(0.0 if u < 0.15 else (-f if u < 0.25 else f))
        est_freq = np.array(est_freq)
    est_voicing = None
    ref_reward = None
    if r.random() < 0.3:
        est_voicing = np.array([r.choice([0.0, 0.25, 0.5, 1.0, 1.0])
                                for _ in est_time])
    if r.random() < 0.3:
        ref_reward = np.array([r.choice([0.0, 0.5, 1.0, 1.0, 0.75])
                               for _ in ref_time])
    if ref_reward is not None and kind in ("same", "copy") and r.random() < 0.5:
        # mostly low reward; the estimate is voiced exactly where it is full
        ref_reward = np.array([r.choice([1.0, 0.25, 0.125, 0.125, 0.5])
                               for _ in ref_time])
        est_voicing = (ref_reward == 1.0).astype(float)
        kind += "/reward-aligned"
    if r.random() < 0.12:
        # integer-typed frequency arrays (e.g. Hz rounded by an annotation tool)
        ref_freq = np.round(ref_freq).astype(np.int64)
        est_freq = np.round(est_freq).astype(np.int64)
        kind += "/int-hz"
    return {"ref_time": ref_time, "ref_freq": ref_freq, "est_time": est_time,
            "est_freq": est_freq, "est_voicing": est_voicing,
            "ref_reward": ref_reward, "cls": kind + ("/t0" if t0 == 0 else "/t>0")}


def gen_melody_frames(r):
    """Direct inputs of the frame measures: (ref_voicing, ref_cent, est_voicing,
    est_cent), equal length, voicing in [0, 1]."""
    n = r.choice([0, 1, 2, 5, 12, 30])
    continuous = r.random() < 0.3
    def voicing():
        if continuous:
            return np.array([r.choice([0.0, 0.25, 0.5, 1.0]) for _ in range(n)])
        return np.array([float(r.random() < 0.7) for _ in range(n)])
    rv, evv = voicing(), voicing()
    rc = np.array([r.choice([0.0, 4800.0 + 25 * r.randrange(0, 97)]) for _ in range(n)])
    ec = np.array([c + r.choice([0, 0, 25, -25, 50, 75, 1200, -1200, 1225]) if c and
                   r.random() < 0.8 else r.choice([0.0, 5000.0]) for c in rc])
    if continuous and n and r.random() < 0.4:
        # hostile alignment: mostly low reward, the estimate is voiced (and right)
        # exactly on the fully rewarded frames and silent elsewhere
        rv = np.array([r.choice([1.0, 0.25, 0.25, 0.125, 0.125, 0.5]) for _ in range(n)])
        rc = np.array([4800.0 + 25 * r.randrange(0, 97) for _ in range(n)])
        evv = (rv == 1.0).astype(float)
        ec = rc.copy()
    return rv, rc, evv, ec


def calls_melody(inp, r):
    rv, rc, evv, ec = gen_melody_frames(r)
    tol = {"cent_tolerance": [50, 25, 100]}
    return [
        ("melody.voicing_measures", (rv, evv), {}),
        ("melody.voicing_recall", (rv, evv), {}),
        ("melody.voicing_false_alarm", (rv, evv), {}),
        ("melody.raw_pitch_accuracy", (rv, rc, evv, ec), draw_params(r, tol)),
        ("melody.raw_chroma_accuracy", (rv, rc, evv, ec), draw_params(r, tol)),
        ("melody.overall_accuracy", (rv, rc, evv, ec), draw_params(r, tol)),
    ]


def eval_melody(inp, r):
    kw = draw_params(r, {"cent_tolerance": [50, 25, 100],
                         "hop": [None, 1 / 64, 1 / 32, 1 / 16],
                         # incl. bases above the pitch range (negative cents);
                         # never a value on the pitch lattice (f == base is 0 cents,
                         # which the library reads as "no pitch")
                         "base_frequency": [10.0, 20.0, 100.0, 300.0, 1000.0]}, 0.6)
    if r.random() < 0.2:
        # spline kinds need a handful of samples on both sides (scipy rejects fewer)
        long_enough = len(inp["ref_time"]) >= 6 and len(inp["est_time"]) >= 6
        kw["kind"] = pick(r, ["nearest", "zero", "slinear", "quadratic", "cubic"]
                          if long_enough else ["nearest", "zero", "slinear"])
    args = (inp["ref_time"], inp["ref_freq"], inp["est_time"], inp["est_freq"],
            inp["est_voicing"], inp["ref_reward"])
    return args, kw


# ------------------------------------------------------------ multipitch

def gen_multipitch(r):
    rt, rf = gen.multipitch(r)
    et, ef = gen.related_multipitch(r, rt, rf)
    return {"ref_time": rt, "ref_freqs": rf, "est_time": et, "est_freqs": ef,
            "cls": "%s/%s" % (_size_cls(rt.size), _size_cls(et.size))}


def calls_multipitch(inp, r):
    kw = draw_params(r, {"window": [0.5, 0.25, 1.0]})
    return [("multipitch.metrics", (inp["ref_time"], inp["ref_freqs"],
                                    inp["est_time"], inp["est_freqs"]), kw)]


def eval_multipitch(inp, r):
    kw = draw_params(r, {"window": [0.5, 0.25, 1.0]})
    return (inp["ref_time"], inp["ref_freqs"], inp["est_time"],
            inp["est_freqs"]), kw


# --------------------------------------------------------- transcription

def gen_transcription(r):
    riv, rhz, rvel = gen.notes(r)
    kind = r.choice(["related", "related", "independent", "copy"])
    if kind == "copy" or len(riv) == 0 and kind == "related":
        eiv, ehz, evel = riv.copy(), rhz.copy(), rvel.copy()
    elif kind == "related":
        eiv, ehz, evel = gen.related_notes(r, riv, rhz, rvel)
    else:
        eiv, ehz, evel = gen.notes(r)
    # velocities on a 0..1 (or 0..0.5) float scale instead of MIDI 0..127
    vs = r.choice([1.0, 1.0, 1.0, 1.0, 1 / 127.0, 1 / 256.0])
    if vs != 1.0:
        rvel, evel = rvel * vs, evel * vs
        kind += "/float-velocity"
    return {"ref_iv": riv, "ref_p": rhz, "ref_v": rvel, "est_iv": eiv,
            "est_p": ehz, "est_v": evel,
            "cls": "%s:%s/%s" % (kind, _size_cls(len(riv)), _size_cls(len(eiv)))}


TRANS_PARAMS = {
    "onset_tolerance": [0.05, 1 / 32, 1 / 16, 1 / 8],
    "pitch_tolerance": [50.0, 25.0, 100.0],
    "offset_ratio": [0.2, 0.25, 0.5, None],
    "offset_min_tolerance": [0.05, 1 / 32, 1 / 16],
    "strict": [False, True],
    "beta": [1.0, 0.5, 2.0],
}


def calls_transcription(inp, r):
    kw = draw_params(r, TRANS_PARAMS)
    a4 = (inp["ref_iv"], inp["ref_p"], inp["est_iv"], inp["est_p"])
    on = {k: v for k, v in kw.items() if k in ("onset_tolerance", "strict", "beta")}
    off = {k: v for k, v in kw.items() if k in ("offset_ratio",
                                                 "offset_min_tolerance", "strict",
                                                 "beta") and v is not None}
    return [
        ("transcription.precision_recall_f1_overlap", a4, kw),
        ("transcription.onset_precision_recall_f1", (inp["ref_iv"], inp["est_iv"]), on),
        ("transcription.offset_precision_recall_f1", (inp["ref_iv"], inp["est_iv"]), off),
    ]


def eval_transcription(inp, r):
    kw = draw_params(r, TRANS_PARAMS)
    if kw.get("offset_ratio", 0.2) is None:
        del kw["offset_ratio"]  # undocumented smaller key set: not generated
    return (inp["ref_iv"], inp["ref_p"], inp["est_iv"], inp["est_p"]), kw


def calls_transcription_velocity(inp, r):
    kw = draw_params(r, dict(TRANS_PARAMS, velocity_tolerance=[0.1, 0.25, 0.5]))
    a6 = (inp["ref_iv"], inp["ref_p"], inp["ref_v"], inp["est_iv"], inp["est_p"],
          inp["est_v"])
    return [("transcription_velocity.precision_recall_f1_overlap", a6, kw)]


def eval_transcription_velocity(inp, r):
    kw = draw_params(r, dict(TRANS_PARAMS, velocity_tolerance=[0.1, 0.25, 0.5]))
    if kw.get("offset_ratio", 0.2) is None:
        del kw["offset_ratio"]
    return (inp["ref_iv"], inp["ref_p"], inp["ref_v"], inp["est_iv"], inp["est_p"],
            inp["est_v"]), kw


# ----------------------------------------------------------------- tempo

def gen_tempo(r):
    t1 = float(r.choice([60, 64, 80, 96, 100, 120, 128]))
    t2 = t1 * r.choice([2, 3, 1.5, 0.5])
    ref = np.array(sorted([t1, t2]))
    if r.random() < 0.15:
        ref[r.randrange(2)] = 0.0  # one zero reference tempo is admitted
    w = r.choice([0.0, 0.25, 0.5, 0.75, 1.0, 0.3])
    est = []
    for t in ref:
        base = t if t > 0 else 100.0
        est.append(base * r.choice([1.0, 1.0, 1.0625, 0.9375, 1.08, 0.92, 1.5, 2.0,
                                    1.25, 0.0, 1.003, 0.997, 1.0015]))
    est = np.array(est)
    if r.random() < 0.3:
        est = est[::-1].copy()
    return {"ref": ref, "w": w, "est": est, "cls": "zero-ref" if (ref == 0).any()
            else "plain"}


def calls_tempo(inp, r):
    kw = draw_params(r, {"tol": [0.08, 0.0625, 0.125, 0.25, 1.0, 0.04]})
    return [("tempo.detection", (inp["ref"], inp["w"], inp["est"]), kw)]


def eval_tempo(inp, r):
    kw = draw_params(r, {"tol": [0.08, 0.0625, 0.125, 0.25]})
    return (inp["ref"], inp["w"], inp["est"]), kw


# ------------------------------------------------------------------- key

KEY_TONICS = ["c", "c#", "db", "d", "d#", "eb", "e", "f", "f#", "gb", "g", "g#",
              "ab", "a", "a#", "bb", "b"]
KEY_MODES = ["major", "minor", "other"]


def all_keys(modes=("major", "minor")):
    ks = ["%s %s" % (t, m) for t in KEY_TONICS for m in modes]
    return ks + ["X"]


def gen_key(r):
    ks = all_keys(KEY_MODES)
    a, b = pick(r, ks), pick(r, ks)
    def case(k):
        if r.random() < 0.3 and k != "X":
            t, m = k.split()
            return t.capitalize() + " " + m
        if r.random() < 0.1 and k == "X":
            return "x"
        return k
    return {"ref": case(a), "est": case(b), "cls": "key"}


def calls_key(inp, r):
    return [("key.weighted_score", (inp["ref"], inp["est"]), {})]


def eval_key(inp, r):
    return (inp["ref"], inp["est"]), {}


# --------------------------------------------------------------- pattern

def _occurrence(r, n=None):
    n = n or r.randrange(1, 7)
    t = r.randrange(0, 64)
    occ = []
    for _ in range(n):
        t += r.randrange(1, 9)
        occ.append((t / 4.0, float(r.randrange(48, 84))))
    return occ


def _translate(occ, dt, dp):
    return [(o + dt, m + dp) for o, m in occ]


def gen_pattern(r, max_pat=5):
    def patterns(k):
        pats = []
        for _ in range(k):
            proto = _occurrence(r)
            occs = [proto]
            for _ in range(r.randrange(0, 3)):
                o = _translate(proto, r.randrange(1, 40) / 4.0, float(r.randrange(-5, 6)))
                if r.random() < 0.3 and len(o) > 1:
                    o = o[:-1]
                occs.append(o)
            pats.append(occs)
        return pats
    if r.random() < 0.05:
        ref = []
    else:
        ref = patterns(r.randrange(1, max_pat + 1))
    kind = r.choice(["independent", "copy", "translated", "subset", "empty", "mixed",
                     "mixed", "partial", "partial", "nudged", "drift", "drift", "shared"])
    if kind == "partial":
        # every occurrence keeps only part of its notes, so cardinality scores
        # land between the 0.5 and 0.75 occurrence thresholds
        est = []
        for p in ref:
            occs = []
            for o in p:
                o2 = list(o)
                k = max(1, int(round(len(o2) * r.choice([0.5, 0.6, 0.67, 0.7, 0.8]))))
                o2 = o2[:k] + [(t + 0.125, m + 1.0) for t, m in o2[k:]]
                occs.append(o2)
            est.append(occs)
        if r.random() < 0.3:
            est += patterns(1)
    elif kind == "copy":
        est = copy.deepcopy(ref)
    elif kind == "nudged":
        # copies whose prototype has one onset off by 1/128 s: far above the
        # default tolerance 1e-5, far below the 0.5 s alternative
        est = copy.deepcopy(ref)
        for p in est:
            if len(p[0]) > 1 and r.random() < 0.7:
                k = r.randrange(1, len(p[0]))
                t, m = p[0][k]
                p[0][k] = (t + r.choice([1, -1, 2]) / 128.0, m)
    elif kind == "shared" and len(ref) >= 2:
        # two reference patterns that are variants of each other (a theme and the
        # theme without its last notes) share one estimated pattern; a second
        # estimated pattern matches its reference only partially
        dup = [o[:-1] if len(o) > 2 else list(o) for o in copy.deepcopy(ref[0])]
        ref = ref + [dup]
        part = []
        for o in ref[1]:
            k = max(1, int(round(len(o) * 0.7)))
            part.append(list(o[:k]) + [(t + 0.125, m + 1.0) for t, m in o[k:]])
        est = [copy.deepcopy(ref[0]), part]
        if r.random() < 0.5:
            est.reverse()
    elif kind == "drift":
        # copies whose prototype lags a little more with every note (each step is
        # small, the accumulated offset is not)
        est = copy.deepcopy(ref)
        for p in est:
            step = r.choice([0.25, 0.125])
            p[0] = [(t + step * k, m) for k, (t, m) in enumerate(p[0])]
    elif kind == "translated":
        est = [[_translate(o, 8.0, 2.0) for o in p] for p in ref]
    elif kind == "subset":
        est = [copy.deepcopy(p) for p in ref if r.random() < 0.6]
    elif kind == "empty":
        est = []
    elif kind == "mixed":
        est = [copy.deepcopy(p) if r.random() < 0.5 else
               [_translate(o, 4.0, 0.0) for o in p] for p in ref]
        est += patterns(r.randrange(0, 3))
        r.shuffle(est)
    else:
        est = patterns(r.randrange(1, max_pat + 2))
    return {"ref": ref, "est": est, "cls": kind}


def gen_pattern_doubled(r):
    """Like gen_pattern, but some occurrences list a note twice (two voices in
    unison): admitted by the validator, absent from the point-set generator."""
    inp = gen_pattern(r)
    for side in ("ref", "est"):
        if r.random() < 0.7:
            for pat in inp[side]:
                for occ in pat:
                    if occ and r.random() < 0.6:
                        for _k in range(r.randrange(1, len(occ) + 1)):
                            occ.append(occ[r.randrange(len(occ))])
    inp["cls"] += "+doubled-notes"
    return inp


def pattern_as_lists(inp):
    """The same patterns with every (onset, midi) pair as a list instead of a
    tuple (e.g. decoded from JSON): admitted by the validator."""
    out = dict(inp)
    for side in ("ref", "est"):
        out[side] = [[[list(p) for p in occ] for occ in pat] for pat in inp[side]]
    out["cls"] = inp["cls"] + "+list-pairs"
    return out


def calls_pattern(inp, r):
    if r.random() < 0.15:
        inp = pattern_as_lists(inp)
    a = (inp["ref"], inp["est"])
    return [
        ("pattern.standard_FPR", a, draw_params(r, {"tol": [1e-5, 0.5, 0.3, 0.3, 0.15]}, 0.35)),
        ("pattern.establishment_FPR", a, {}),
        ("pattern.occurrence_FPR", a, draw_params(r, {"thres": [0.75, 0.5, 1.0, 0.25]})),
        ("pattern.three_layer_FPR", a, {}),
        ("pattern.first_n_three_layer_P", a, draw_params(r, {"n": [5, 1, 2, 10]})),
        ("pattern.first_n_target_proportion_R", a, draw_params(r, {"n": [5, 1, 2, 10]})),
    ]


def eval_pattern(inp, r):
    if r.random() < 0.15:
        inp = pattern_as_lists(inp)
    return (inp["ref"], inp["est"]), draw_params(r, {"n": [5, 1, 2, 10],
                                                     "tol": [1e-5, 0.5, 0.3]}, 0.7)


# ------------------------------------------------------------- hierarchy

def gen_hier_one(r, total, levels=None, nested=None):
    levels = levels or r.randrange(1, 4)
    nested = r.random() < 0.6 if nested is None else nested
    ivs, labs = [], []
    prev = [0, total]
    for lv in range(levels):
        n = r.randrange(1, 5) if lv == 0 else r.randrange(1, 7)
        bs = gen.boundaries(r, n=n, start=0, total=total, min_len=4)
        if nested and lv > 0:
            bs = sorted(set(bs) | set(prev))
        prev = bs
        iv = np.array([[a / Q, b / Q] for a, b in zip(bs[:-1], bs[1:])])
        ivs.append(iv)
        labs.append(gen.labels(r, len(iv)))
    return ivs, labs


def _ulp_top(ivs):
    """The top layer ends one ulp early; admitted (spans are compared with
    np.allclose), and the frame count must still come from all layers."""
    if len(ivs) >= 2:
        ivs[0] = ivs[0].copy()
        ivs[0][-1, 1] = np.nextafter(ivs[0][-1, 1], 0.0)


def gen_hierarchy(r, for_evaluate=False):
    total = r.randrange(32, 64 * 8)
    ulp = r.random() < 0.1
    if ulp:
        total = max(64, total // 64 * 64)
    rivs, rlabs = gen_hier_one(r, total, levels=r.randrange(2, 4) if ulp else None)
    kind = r.choice(["independent", "copy", "flat"])
    etotal = total
    cls = kind
    if for_evaluate:
        u = r.random()
        if u < 0.25:
            etotal = max(16, total - r.randrange(1, total // 2 + 1))
            cls += "/est-shorter"
        elif u < 0.5:
            etotal = total + r.randrange(1, 128)
            cls += "/est-longer"
    if kind == "copy" and etotal == total:
        eivs, elabs = [iv.copy() for iv in rivs], [list(l) for l in rlabs]
    elif kind == "flat":
        eivs, elabs = gen_hier_one(r, etotal, levels=1)
    else:
        eivs, elabs = gen_hier_one(r, etotal)
    if ulp:
        which = r.choice(["ref", "est", "both"])
        if which in ("ref", "both"):
            _ulp_top(rivs)
        if which in ("est", "both"):
            _ulp_top(eivs)
        cls += "/ulp-short-top-layer"
    return {"ref_ivs": rivs, "ref_labs": rlabs, "est_ivs": eivs, "est_labs": elabs,
            "total": total / Q, "cls": cls}


HIER_FRAME = [0.5, 0.25, 1.0]


def calls_hierarchy(inp, r):
    fs = pick(r, HIER_FRAME)
    window = pick(r, [None, 15.0, 2.0, 1.0, 4.0])
    if window is not None and window < fs:
        window = fs * 2
    return [
        ("hierarchy.tmeasure", (inp["ref_ivs"], inp["est_ivs"]),
         {"transitive": r.random() < 0.5, "window": window, "frame_size": fs,
          "beta": pick(r, [1.0, 0.5, 2.0])}),
        ("hierarchy.lmeasure", (inp["ref_ivs"], inp["ref_labs"], inp["est_ivs"],
                                inp["est_labs"]),
         {"frame_size": fs, "beta": pick(r, [1.0, 0.5, 2.0])}),
    ]


def eval_hierarchy(inp, r):
    fs = pick(r, HIER_FRAME)
    kw = {"frame_size": fs}
    if r.random() < 0.5:
        kw["window"] = pick(r, [None, 15.0, 2.0, 4.0])
    if r.random() < 0.3:
        kw["beta"] = pick(r, [0.5, 2.0])
    if r.random() < 0.2:
        kw["transitive"] = r.random() < 0.5  # evaluate() reports both regardless
    return (inp["ref_ivs"], inp["ref_labs"], inp["est_ivs"], inp["est_labs"]), kw


# ------------------------------------------------------------- alignment

def gen_alignment(r):
    n = r.randrange(1, 15)
    ref = gen.events(r, kind=r.choice(["regular", "jitter", "random", "dups", "single",
                                       "two"]), max_n=15)
    est = np.array([max(0.0, x + r.choice([0, 0, 1, -1, 4, -4, 16, -16, 19, 20]) / Q)
                    for x in ref])
    est = np.sort(est)
    if r.random() < 0.15:
        est = ref.copy()
    if r.random() < 0.12:
        # whole seconds in integer-typed arrays on one or both sides
        ref = np.unique(np.round(ref)).astype(np.int64)
        est = np.sort(np.array([max(0, int(x) + r.choice([0, 0, 1, -1, 2])) for x in ref]))
        if r.random() < 0.5:
            est = est.astype(float) + r.choice([0.0, 0.25, 0.5])
    return {"ref": ref, "est": est, "cls": _size_cls(ref.size)}


def calls_alignment(inp, r):
    a = (inp["ref"], inp["est"])
    out = [
        ("alignment.absolute_error", a, {}),
        ("alignment.percentage_correct", a, draw_params(r, {"window": [0.3, 0.25, 1 / 16, 0.0]})),
        ("alignment.karaoke_perceptual_metric", a, {}),
    ]
    dur = None
    if r.random() < 0.5:
        dur = float(max(inp["ref"].max(), inp["est"].max()) + r.choice([0, 1, 8, 32, 96]) / Q)
        if dur <= 0:
            dur = 1.0
    if dur is not None or (inp["ref"][-1] - inp["ref"][0]) > 0:
        out.append(("alignment.percentage_correct_segments", a,
                    {} if dur is None else {"duration": dur}))
    return out


def eval_alignment(inp, r):
    kw = draw_params(r, {"window": [0.3, 0.25, 1 / 16]})
    if (inp["ref"][-1] - inp["ref"][0]) <= 0 or r.random() < 0.4:
        kw["duration"] = float(max(inp["ref"].max(), inp["est"].max()) + 1.0)
    return (inp["ref"], inp["est"]), kw


# -------------------------------------------------------------- registry

class Task:
    def __init__(self, name, gen, calls, evaluate, gen_eval=None):
        self.name = name
        self.gen = gen
        self.calls = calls
        self.evaluate = evaluate
        self.gen_eval = gen_eval or gen


TASKS = {
    "beat": Task("beat", gen_beat, calls_beat, eval_beat,
                 lambda r: gen_beat(r, for_evaluate=r.random() < 0.8)),
    "onset": Task("onset", gen_onset, calls_onset, eval_onset),
    "segment": Task("segment", gen_segment, calls_segment, eval_segment,
                    gen_segment_eval),
    "chord": Task("chord", gen_chord, calls_chord, eval_chord),
    "melody": Task("melody", gen_melody, calls_melody, eval_melody),
    "multipitch": Task("multipitch", gen_multipitch, calls_multipitch,
                       eval_multipitch),
    "transcription": Task("transcription", gen_transcription, calls_transcription,
                          eval_transcription),
    "transcription_velocity": Task("transcription_velocity", gen_transcription,
                                   calls_transcription_velocity,
                                   eval_transcription_velocity),
    "tempo": Task("tempo", gen_tempo, calls_tempo, eval_tempo),
    "key": Task("key", gen_key, calls_key, eval_key),
    "pattern": Task("pattern", gen_pattern, calls_pattern, eval_pattern),
    "hierarchy": Task("hierarchy", gen_hierarchy, calls_hierarchy, eval_hierarchy,
                      lambda r: gen_hierarchy(r, for_evaluate=True)),
    "alignment": Task("alignment", gen_alignment, calls_alignment, eval_alignment),
}
TASK_NAMES = list(TASKS)
