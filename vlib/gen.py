"""Seeded workload generators (DESIGN §4). All take a ``random.Random``.

L-dyadic: times are k/64 s, windows are dyadic, so every sum, difference and
comparison the library performs on them is exact in binary64 -- including
equality with a threshold, which is generated on purpose.
"""

import numpy as np

Q = 64.0  # lattice denominator

DYADIC_WINDOWS = [1 / 64, 1 / 32, 1 / 16, 1 / 8, 1 / 4, 1 / 2, 1.0, 3.0]


def _sorted_arr(xs):
    return np.array(sorted(xs), dtype=float)


def events(r, kind=None, base=0.0, max_n=24, span=None):
    """A 1-d non-decreasing event-time array on the 1/64 lattice."""
    kinds = ["empty", "single", "two", "regular", "jitter", "dups", "cluster",
             "random", "random", "regular", "jitter", "alldup", "int"]
    kind = kind or r.choice(kinds)
    b = int(base * Q)
    if kind == "int":
        # whole seconds in an integer-typed array (admitted by every validator)
        lo = int(np.ceil(base))
        xs = sorted(r.sample(range(lo, lo + 60), r.randrange(2, min(max_n, 20) + 1)))
        return np.array(xs, dtype=np.int64)
    if kind == "empty":
        return np.array([], dtype=float)
    if kind == "single":
        return np.array([(b + r.randrange(0, 640)) / Q])
    if kind == "two":
        a = b + r.randrange(0, 640)
        return np.array([a / Q, (a + r.randrange(0, 200)) / Q])
    if kind == "alldup":
        a = (b + r.randrange(0, 640)) / Q
        return np.array([a] * r.randrange(2, 5))
    n = r.randrange(3, max_n + 1)
    if kind == "regular":
        step = r.choice([16, 24, 32, 40, 48, 64])
        start = b + r.randrange(0, 128)
        return np.array([(start + i * step) / Q for i in range(n)])
    if kind == "jitter":
        step = r.choice([24, 32, 40, 48, 64])
        start = b + r.randrange(0, 128)
        j = r.choice([1, 2, 4, 8])
        return _sorted_arr([max(b, start + i * step + r.randrange(-j, j + 1)) / Q
                            for i in range(n)])
    if kind == "dups":
        step = r.choice([16, 32, 64])
        start = b + r.randrange(0, 64)
        xs = [(start + i * step) / Q for i in range(max(2, n // 2))]
        xs += [r.choice(xs) for _ in range(n - len(xs))]
        return _sorted_arr(xs)
    if kind == "cluster":
        c = b + r.randrange(0, 640)
        xs = [(c + r.randrange(0, 6)) / Q for _ in range(r.randrange(2, 6))]
        xs += [(b + r.randrange(0, 1280)) / Q for _ in range(r.randrange(0, 6))]
        return _sorted_arr(xs)
    hi = int((span or 20.0) * Q)
    return _sorted_arr([(b + r.randrange(0, hi)) / Q for _ in range(n)])


def related_events(r, ref, base=0.0):
    """An estimate related to ``ref`` in one of the ways fixtures lack."""
    kind = r.choice(["copy", "subset", "superset", "shift", "disjoint", "jitter",
                     "independent", "double", "half", "offbeat", "threshold", "runs",
                     "other-tempo"])
    if ref.size == 0 or kind == "independent":
        return events(r, base=base)
    if kind == "other-tempo" and ref.size >= 3:
        # an unrelated regular pulse over the same span (flat error histogram)
        span = int((ref[-1] - ref[0]) * Q)
        step = max(8, int(np.median(np.diff(ref)) * Q * r.choice([0.7, 0.6, 1.3, 0.45])))
        start = int(ref[0] * Q) + r.randrange(0, step)
        return np.array([(start + i * step) / Q for i in range(max(2, span // step + 1))])
    if kind == "runs" and ref.size >= 6 and float(np.min(np.diff(ref))) >= 16 / Q:
        # runs of well-placed beats separated by badly placed ones; run lengths
        # are drawn around 25 % of the interior beats (Goto's track criterion)
        n = ref.size
        quarter = max(1, (n - 2) // 4)
        xs = []
        i = 0
        while i < n:
            run = r.choice([quarter - 1, quarter, quarter, quarter + 1, quarter + 2, 1, 2])
            for _ in range(max(0, run)):
                if i < n:
                    xs.append(ref[i] + r.choice([0, 0, 1, -1, 2, -2]) / Q)
                    i += 1
            for _ in range(r.choice([1, 1, 2])):
                if i < n:
                    gap = (ref[i] - ref[i - 1]) if i else (ref[1] - ref[0])
                    off = int(gap * Q * r.choice([0.2, 0.22, -0.2, 0.3, -0.3]))
                    xs.append(ref[i] + off / Q)
                    i += 1
        return _sorted_arr([x for x in xs if x >= base])
    if kind == "copy":
        return ref.copy()
    if kind == "subset":
        keep = [x for x in ref if r.random() < 0.6]
        return np.array(keep, dtype=float)
    if kind == "superset":
        extra = [(int(x * Q) + r.randrange(-40, 40)) / Q for x in ref
                 if r.random() < 0.5]
        xs = [x for x in list(ref) + extra if x >= base]
        return _sorted_arr(xs)
    if kind == "shift":
        d = r.choice([1, 2, 3, 4, 5, 8, 16, 32]) / Q
        return ref + d
    if kind == "threshold":
        # each estimate at exactly a dyadic window distance from a reference
        w = r.choice(DYADIC_WINDOWS[:6])
        xs = [x + r.choice([-w, w, 0.0, w + 1 / Q, -(w + 1 / Q)]) for x in ref]
        return _sorted_arr([x for x in xs if x >= base])
    if kind == "disjoint":
        return ref + 100.0
    if kind == "jitter":
        return _sorted_arr([max(base, (int(x * Q) + r.randrange(-6, 7)) / Q)
                            for x in ref])
    if kind == "double" and ref.size >= 2:
        mid = (ref[:-1] + ref[1:]) / 2
        return _sorted_arr(list(ref) + list(mid))
    if kind == "half":
        return ref[:: 2].copy()
    if kind == "offbeat" and ref.size >= 2:
        return (ref[:-1] + ref[1:]) / 2
    return ref.copy()


def goto_pair(r, base=5.0):
    """(ref, est) built around Goto's track criterion: regular reference beats,
    runs of exactly placed estimates whose length is drawn around 25 % of the
    interior beats, delimited by estimates that are paired but just beyond the
    correctness threshold (|error| 0.375 .. 0.4375 of the half interval)."""
    n = r.randrange(14, 64)
    step = 32
    start = int(base * Q) + 16 + r.randrange(0, 32)  # every estimate stays >= base
    ref = [start + i * step for i in range(n)]
    quarter = (n - 2) / 4.0
    est = []
    i = 0
    first = True
    while i < n:
        if first:
            run = r.choice([0, 1, 2, 3])
            first = False
        else:
            run = max(0, int(quarter) + r.choice([-2, -1, 0, 0, 1, 1, 2]))
        for _ in range(run):
            if i < n:
                est.append(ref[i] + (0 if r.random() < 0.85 else r.choice([1, -1])))
                i += 1
        for _ in range(r.choice([1, 1, 1, 2])):
            if i < n:
                est.append(ref[i] + r.choice([6, -6, 7, -7, 6, -6, 12]))
                i += 1
    return (np.array([x / Q for x in ref]), _sorted_arr([x / Q for x in est]))


def boundaries(r, n=None, start=0, total=None, min_len=1, step=2):
    """Sorted lattice boundaries (ints in 1/64 s) of a contiguous segmentation.

    All boundaries are multiples of ``step``/64 s: with step=2 (1/32 s) every
    boundary has at most 5 decimals, so the documented 5-decimal rounding of
    util.intervals_to_boundaries leaves the lattice exact."""
    n = n or r.randrange(1, 9)
    total = total or r.randrange(max(n * min_len, 32), 64 * 30)
    st = max(1, step)
    start = (start // st) * st
    total = max(st, (total // st) * st)
    ml = max(1, -(-min_len // st))  # in steps
    units = total // st
    if n == 1 or units < 2 * ml:
        return [start, start + total]
    cuts = set()
    tries = 0
    while len(cuts) < n - 1 and tries < 1000:
        tries += 1
        cuts.add(r.randrange(ml, units - ml + 1))
    bs = [0] + sorted(c * st for c in cuts) + [total]
    bs = sorted(set(bs))
    return [start + b for b in bs]


def gapped_intervals(r, step=2):
    """Time-ordered, possibly non-contiguous intervals on the 1/32 s lattice."""
    n = r.randrange(1, 8)
    t = r.choice([0, 0, 8, 64, 100])
    iv = []
    for _ in range(n):
        if r.random() < 0.35:
            t += step * r.randrange(1, 20)  # gap
        d = step * r.randrange(1, 60)
        iv.append([t / Q, (t + d) / Q])
        t += d
    return np.array(iv, dtype=float)


LABEL_POOLS = [
    ["A", "B", "C", "D", "E", "F"],
    ["verse", "chorus", "bridge", "intro", "outro"],
    ["a", "A", "b", "B", "c"],
    ["Silence", "Verse", "verse", "Solo", "Z"],
    ["A", "A ", " A", "B", "B  ", "a b"],   # distinct names that differ in whitespace
]


def labels(r, n, kind=None):
    kind = kind or r.choice(["one", "distinct", "repeat", "repeat", "case"])
    if kind == "one":
        return ["A"] * n
    if kind == "distinct":
        return ["s%d" % i for i in range(n)]
    if kind == "case":
        pool = LABEL_POOLS[2]
    else:
        pool = r.choice(LABEL_POOLS)
    k = r.randrange(1, len(pool) + 1)
    return [r.choice(pool[:k]) for _ in range(n)]


def segmentation(r, n=None, start=0, total=None, label_kind=None, min_len=1):
    """(intervals float array (n,2), labels list) contiguous from start."""
    bs = boundaries(r, n=n, start=start, total=total, min_len=min_len)
    iv = np.array([[a / Q, b / Q] for a, b in zip(bs[:-1], bs[1:])], dtype=float)
    return iv, labels(r, len(iv), label_kind)


def notes(r, n=None, span=640, pitch_lattice=True):
    """(intervals (n,2), pitches Hz (n,), velocities (n,)) on the lattice."""
    n = r.randrange(0, 13) if n is None else n
    iv = []
    for _ in range(n):
        a = r.randrange(0, span)
        d = r.randrange(1, 129)
        iv.append([a / Q, (a + d) / Q])
    iv = np.array(iv, dtype=float).reshape(-1, 2)
    if pitch_lattice:
        midi = np.array([r.randrange(36 * 8, 96 * 8) / 8.0 for _ in range(n)])
    else:
        midi = np.array([r.uniform(36, 96) for _ in range(n)])
    hz = 440.0 * 2.0 ** ((midi - 69.0) / 12.0)
    vel = np.array([float(r.randrange(0, 128)) for _ in range(n)])
    return iv, hz, vel


def related_notes(r, iv, hz, vel):
    """Estimated notes derived from reference notes with threshold-distance
    onset/offset errors and semitone/octave pitch errors."""
    out_iv, out_hz, out_vel = [], [], []
    for (a, b), p, v in zip(iv, hz, vel):
        u = r.random()
        if u < 0.15:
            continue
        da = r.choice([0, 0, 1, 2, 3, 4, -1, -2, -3, -4, 8, -8]) / Q
        db = r.choice([0, 0, 1, 2, 3, 4, 5, 6, 8, 16, -1, -2, -3, -4, -5, -8, -16, 32]) / Q
        na = max(0.0, a + da)
        nb = max(na + 1 / Q, b + db)
        dp = r.choice([0, 0, 0, 0.25, -0.25, 0.5, -0.5, 1, -1, 12, -12, 0.375,
                       0.4995, -0.4995, 0.5005, 0.2495, 0.9995,
                       # 3e-5 cent either side of 50 cents: 1e7 times the rounding
                       # error of the cent distance, inside any 4-decimal rounding
                       0.5000003, 0.4999997, -0.5000003])
        out_iv.append([na, nb])
        out_hz.append(p * 2.0 ** (dp / 12.0))
        out_vel.append(float(min(127, max(0, v + r.choice([0, 0, 5, -5, 20, -40])))))
        if r.random() < 0.15:  # duplicate
            out_iv.append([na, nb])
            out_hz.append(out_hz[-1])
            out_vel.append(out_vel[-1])
    for _ in range(r.randrange(0, 3)):
        e_iv, e_hz, e_vel = notes(r, 1)
        out_iv.append(list(e_iv[0]))
        out_hz.append(e_hz[0])
        out_vel.append(e_vel[0])
    order = list(range(len(out_iv)))
    r.shuffle(order)
    iv2 = np.array([out_iv[i] for i in order], dtype=float).reshape(-1, 2)
    return (iv2, np.array([out_hz[i] for i in order], dtype=float),
            np.array([out_vel[i] for i in order], dtype=float))


def midi_to_hz(m):
    return 440.0 * 2.0 ** ((np.asarray(m, dtype=float) - 69.0) / 12.0)


def multipitch(r, n_frames=None, base_step=None):
    """(times, list of per-frame Hz arrays) with ragged frames."""
    n = r.randrange(0, 15) if n_frames is None else n_frames
    step = base_step or r.choice([1, 2, 4, 8])
    t0 = r.randrange(0, 64)
    times = np.array([(t0 + i * step) / Q for i in range(n)], dtype=float)
    frames = []
    for _ in range(n):
        k = r.choice([0, 0, 1, 1, 2, 3, 4])
        ms = [r.randrange(30 * 8, 100 * 8) / 8.0 for _ in range(k)]
        if k and r.random() < 0.15:
            ms.append(ms[0])  # duplicate within a frame
        if k and r.random() < 0.2:
            ms.append(ms[0] + 12)  # octave-related
        ms = [m for m in ms if 16.0 < m < 110.0]
        frames.append(midi_to_hz(ms) if ms else np.array([], dtype=float))
    return times, frames


def related_multipitch(r, times, frames):
    kind = r.choice(["same_times", "same_times", "other_times", "shifted_times",
                     "shorter", "longer", "sparse_times"])
    est_frames = []
    for f in frames:
        fs = []
        for hz in f:
            u = r.random()
            if u < 0.2:
                continue
            dm = r.choice([0, 0, 0, 0.25, -0.25, 0.5, -0.5, 1, -1, 12, -12, 24, 0.375,
                           0.625, -0.75, 0.875])
            h = hz * 2.0 ** (dm / 12.0)
            if 25.0 < h < 4500.0:
                fs.append(h)
        if r.random() < 0.25:
            fs.append(float(midi_to_hz(r.randrange(40 * 8, 90 * 8) / 8.0)))
        r.shuffle(fs)
        est_frames.append(np.array(fs, dtype=float))
    if kind == "same_times" or times.size == 0:
        return times.copy(), est_frames
    if kind == "other_times":
        et, ef = multipitch(r)
        return et, ef
    if kind == "sparse_times":
        # a coarse estimate (one frame every 1-4 s) over the reference span; the
        # 1/256 offset keeps nearest-frame ties away
        step = r.choice([1.0, 2.0, 4.0])
        n = int((times[-1] - times[0]) // step) + 2
        et = times[0] + 1 / 256.0 + step * np.arange(n)
        ef = [est_frames[int(np.argmin(np.abs(times - t)))].copy() for t in et]
        return et, ef
    if kind == "shifted_times":
        # offset by 1/256 so that nearest-frame ties cannot occur
        t2 = times + r.choice([1, -1, 3]) / 256.0 + 0.0
        if t2.size >= 2 and r.random() < 0.25:
            # a repeated time stamp (time stamps need only be non-decreasing); the
            # two frames hold the same pitches so the nearest frame is unambiguous
            k = r.randrange(1, t2.size)
            t2 = t2.copy()
            t2[k] = t2[k - 1]
            est_frames = list(est_frames)
            est_frames[k] = est_frames[k - 1].copy()
        return t2, est_frames
    if kind == "shorter":
        k = r.randrange(0, len(est_frames) + 1)
        a = r.randrange(0, len(est_frames) - k + 1)
        return times[a:a + k].copy(), est_frames[a:a + k]
    # longer: extend at both ends
    step = (times[1] - times[0]) if times.size > 1 else 1 / Q
    pre = r.randrange(0, 3)
    post = r.randrange(0, 3)
    t = np.concatenate([times[0] - step * np.arange(pre, 0, -1), times,
                        times[-1] + step * np.arange(1, post + 1)])
    keep = t >= 0
    fr = ([np.array([440.0])] * pre + est_frames + [np.array([220.0])] * post)
    fr = [f for f, k in zip(fr, keep) if k]
    return t[keep], fr
