"""Independent reference specification for the frame-clustering ("labelling")
scores of mir_eval.segment: pairwise, rand_index, ari, mutual_information,
nce, vmeasure.

Input: two equal-length sequences of hashable frame labels (the sampling of
labelled intervals into frames, and case folding, are the caller's business).
Output of every function: ``(value, margin)`` with value structured like the
library's return value.  None of these definitions performs a threshold
comparison on a continuous quantity (all branches depend on integer counts),
so margin is always ``float('inf')``.

Nothing here imports mir_eval.  Everything is computed from textbook
definitions on the contingency table with exact integers / Fractions:
pair counts by explicit enumeration of frame pairs, entropies as sums of
``-p log p`` with ``math.log`` applied to exact ratios, and the expected
mutual information as an exact hypergeometric expectation built from
``math.comb``.
"""

from collections import Counter
from fractions import Fraction
import math

INF = float("inf")
NAN = float("nan")


# --------------------------------------------------------------------------
# helpers
# --------------------------------------------------------------------------
def _check(ref, est):
    ref, est = list(ref), list(est)
    if len(ref) != len(est):
        raise ValueError("reference and estimate must have the same number of frames")
    return ref, est


def _f_measure(p, r, beta=1.0):
    """util.f_measure: 0 if both are 0, else (1+b^2) p r / (b^2 p + r).
    NaN propagates (NaN == 0 is false)."""
    if p == 0 and r == 0:
        return 0.0
    b2 = float(beta) ** 2
    return (1 + b2) * p * r / (b2 * p + r)


def _tables(ref, est):
    """contingency counts n[(a, b)], marginals of the reference / estimate."""
    return Counter(zip(ref, est)), Counter(ref), Counter(est)


def _log_ratio(num, den, base=None):
    """log of the exact ratio num/den (positive integers / Fractions)."""
    q = Fraction(num) / Fraction(den)
    try:
        # int / int is correctly rounded in Python: one rounding, then log
        v = math.log(q.numerator / q.denominator)
    except OverflowError:
        # astronomically large counts: log(numerator) - log(denominator)
        v = math.log(q.numerator) - math.log(q.denominator)
    return v if base is None else v / math.log(base)


def _entropy(counts, n, base=None):
    """H = - sum_c (n_c/n) log(n_c/n)"""
    return sum((-(c / n) * _log_ratio(c, n, base) for c in counts.values() if c), 0.0)


def _mi(cont, a, b, n, base=None):
    """I = sum_ij (n_ij/n) log( n n_ij / (a_i b_j) )"""
    tot = 0.0
    for (i, j), nij in cont.items():
        if nij:
            tot += (nij / n) * _log_ratio(n * nij, a[i] * b[j], base)
    return tot


def _expected_mi(a, b, n):
    """E[I] over all tables with the given marginals under the permutation
    (hypergeometric) model:
        sum_i sum_j sum_k  (k/n) log(n k / (a_i b_j)) * P[n_ij = k],
        P[n_ij = k] = C(a_i, k) C(n - a_i, b_j - k) / C(n, b_j)
    for max(1, a_i + b_j - n) <= k <= min(a_i, b_j).  Probabilities are exact
    rationals."""
    # group equal marginal sizes: the summand depends on (a_i, b_j) only
    ca, cb = Counter(a.values()), Counter(b.values())
    total = 0.0
    for ai, mult_a in ca.items():
        for bj, mult_b in cb.items():
            denom = math.comb(n, bj)
            s = 0.0
            for k in range(max(1, ai + bj - n), min(ai, bj) + 1):
                prob = Fraction(math.comb(ai, k) * math.comb(n - ai, bj - k), denom)
                s += (k / n) * _log_ratio(n * k, ai * bj) * float(prob)
            total += mult_a * mult_b * s
    return total


# --------------------------------------------------------------------------
# pairwise agreement
# --------------------------------------------------------------------------
_ENUMERATION_LIMIT = 300  # frames; above this only the closed form is used


def _pair_counts(ref, est):
    """Unordered pairs of distinct frames: (#same in ref, #same in est, #same
    in both, #different in both, #pairs).

    Closed form on the contingency table: pairs inside a reference cluster
    sum_i C(a_i,2), inside an estimated cluster sum_j C(b_j,2), inside both
    sum_ij C(n_ij,2); apart in both by inclusion-exclusion.  For sequences of
    up to _ENUMERATION_LIMIT frames the pairs are also enumerated one by one
    and the two counts are required to coincide."""
    n = len(ref)
    cont, a, b = _tables(ref, est)
    pairs = n * (n - 1) // 2
    same_r = sum(math.comb(c, 2) for c in a.values())
    same_e = sum(math.comb(c, 2) for c in b.values())
    both = sum(math.comb(c, 2) for c in cont.values())
    neither = pairs - same_r - same_e + both
    if n <= _ENUMERATION_LIMIT:
        e_r = e_e = e_b = e_n = 0
        for i in range(n):
            for j in range(i + 1, n):
                sr = ref[i] == ref[j]
                se = est[i] == est[j]
                e_r += sr
                e_e += se
                e_b += sr and se
                e_n += (not sr) and (not se)
        assert (e_r, e_e, e_b, e_n) == (same_r, same_e, both, neither)
    return same_r, same_e, both, neither, pairs


def pairwise(ref, est, beta=1.0):
    """((precision, recall, F), inf).
    "Precision/recall of detecting whether frames belong in the same cluster":
    over unordered pairs of distinct frames,
    precision = |same in both| / |same in estimate|,
    recall    = |same in both| / |same in reference|; 0/0 is undefined (NaN).
    """
    ref, est = _check(ref, est)
    same_r, same_e, both, _, _ = _pair_counts(ref, est)
    p = both / same_e if same_e else NAN
    r = both / same_r if same_r else NAN
    return (p, r, _f_measure(p, r, beta)), INF


def rand_index(ref, est):
    """(Rand index, inf): pairs on which the two labellings agree (together in
    both or apart in both) over all pairs; undefined (NaN) below 2 frames."""
    ref, est = _check(ref, est)
    _, _, both, neither, pairs = _pair_counts(ref, est)
    if pairs == 0:
        return NAN, INF
    return float(Fraction(both + neither, pairs)), INF


def ari(ref, est):
    """(adjusted Rand index, inf).
    ARI = (sum_ij C(n_ij,2) - E) / ((A + B)/2 - E),  A = sum_i C(a_i,2),
    B = sum_j C(b_j,2),  E = A B / C(n,2)   (Hubert & Arabie).
    Documented special cases returning 1.0: both labellings consist of a
    single cluster; both are empty; both put every frame in its own cluster.
    """
    ref, est = _check(ref, est)
    n = len(ref)
    cont, a, b = _tables(ref, est)
    if len(a) == len(b) == 1 or len(a) == len(b) == 0 or len(a) == len(b) == n:
        return 1.0, INF
    A = sum(math.comb(c, 2) for c in a.values())
    B = sum(math.comb(c, 2) for c in b.values())
    S = sum(math.comb(c, 2) for c in cont.values())
    E = Fraction(A * B, math.comb(n, 2))
    den = Fraction(A + B, 2) - E
    # den == 0 only in the special cases above (A = B = C(n,2) or A = B = 0)
    return float((S - E) / den), INF


# --------------------------------------------------------------------------
# information-theoretic scores
# --------------------------------------------------------------------------
def ami_is_undefined(ref, est):
    """True when AMI is an exact 0/0: at least two frames and every frame is
    its own cluster in both labellings.  (E[MI] <= MI-of-any-table <=
    min(H_ref, H_est), so max(H) - E[MI] vanishes only when every table with
    these marginals is a bijection of clusters, i.e. all clusters are single
    frames; the one-cluster case is the documented special case 1.0.)"""
    ref, est = _check(ref, est)
    n = len(ref)
    return n >= 2 and len(set(ref)) == n and len(set(est)) == n


def ami_denominator(ref, est):
    """max(H_ref, H_est) - E[MI], the denominator of AMI (nats).  AMI is a
    quotient of two differences of O(log n) numbers: an absolute error eps in
    MI / E[MI] / H shows up as about eps / denominator in AMI.  When nearly
    every frame is its own cluster the denominator is tiny and a floating
    point implementation with log-gamma based hypergeometric weights loses
    digits.  Measured against 60-digit arithmetic (n = 250..400, 97% of the
    frames singletons, denominator 0.07..0.09): this oracle is within 4e-13,
    the library within 1.5e-10; at denominator 0.016, n = 349 the library is
    off by 1.05e-9.  A caller comparing AMI should use a tolerance of about
    1e-9 + 1e-12 * n / ami_denominator (n = number of frames)."""
    ref, est = _check(ref, est)
    n = len(ref)
    _, a, b = _tables(ref, est)
    if n == 0:
        return 0.0
    return max(_entropy(a, n), _entropy(b, n)) - _expected_mi(a, b, n)


def mutual_information(ref, est):
    """((MI, AMI, NMI), inf), natural logarithms.
    MI  = I(ref; est)
    AMI = (MI - E[MI]) / (max(H_ref, H_est) - E[MI]); 1.0 when both labellings
          have a single cluster (or both are empty); NaN on 0/0, which happens
          exactly when every frame is its own cluster on both sides
          (MI = E[MI] = H = log n).
    NMI = MI / max(sqrt(H_ref H_est), 1e-10); same special case 1.0.
    """
    ref, est = _check(ref, est)
    n = len(ref)
    cont, a, b = _tables(ref, est)
    if n == 0:
        return (0.0, 1.0, 1.0), INF
    mi = _mi(cont, a, b, n)
    # MI is exactly 0 when one side has a single cluster (every log is log 1)
    if len(a) == 1 or len(b) == 1:
        mi = 0.0
    if len(a) == len(b) == 1:
        return (mi, 1.0, 1.0), INF
    h_ref, h_est = _entropy(a, n), _entropy(b, n)
    # AMI
    if len(a) == n and len(b) == n:
        ami = NAN  # exact 0/0
    else:
        emi = _expected_mi(a, b, n)
        ami = (mi - emi) / (max(h_ref, h_est) - emi)
    # NMI
    nmi = mi / max(math.sqrt(h_ref * h_est), 1e-10)
    return (mi, ami, nmi), INF


def nce(ref, est, beta=1.0, marginal=False):
    """((S_over, S_under, F), inf), logarithms in base 2.
    S_over  = 1 - H(est | ref) / z_est,  0 if z_est == 0
    S_under = 1 - H(ref | est) / z_ref,  0 if z_ref == 0
    z = log2(number of classes)   (marginal=False, "uniform entropy")
    z = marginal entropy H(.)     (marginal=True)
    F = f_measure(S_over, S_under, beta): S_over plays the role of precision
    (vmeasure's docstring names it V_precision), S_under of recall.
    """
    ref, est = _check(ref, est)
    n = len(ref)
    cont, a, b = _tables(ref, est)
    if n == 0:
        return (0.0, 0.0, 0.0), INF
    # H(est | ref) = - sum_ij (n_ij/n) log2(n_ij / a_i), likewise H(ref | est)
    h_est_given_ref = 0.0
    h_ref_given_est = 0.0
    for (i, j), nij in cont.items():
        if nij:
            h_est_given_ref -= (nij / n) * _log_ratio(nij, a[i], 2)
            h_ref_given_est -= (nij / n) * _log_ratio(nij, b[j], 2)
    if marginal:
        z_ref, z_est = _entropy(a, n, 2), _entropy(b, n, 2)
    else:
        z_ref, z_est = math.log2(len(a)), math.log2(len(b))
    # z > 0 exactly when the labelling has at least two classes
    over = 1.0 - h_est_given_ref / z_est if len(b) > 1 else 0.0
    under = 1.0 - h_ref_given_est / z_ref if len(a) > 1 else 0.0
    return (over, under, _f_measure(over, under, beta)), INF


def vmeasure(ref, est, beta=1.0):
    """((V_precision, V_recall, V_F), inf): "equivalent to nce(...,
    marginal=True)"."""
    return nce(ref, est, beta=beta, marginal=True)
