"""Reference model of labelled-interval pre-processing (C13, and the documented
pre-processing used by C03/C01 predicates).

An annotation is a piecewise-constant *partial* function time -> label. The
model works directly on that reading of the docstrings; it shares no code with
mir_eval.util.
"""

import numpy as np

GAP = object()  # "no label" inside an internal gap


def adjust(intervals, labels=None, t_min=0.0, t_max=None,
           start_label="__T_MIN", end_label="__T_MAX"):
    """Documented behaviour of util.adjust_intervals on time-ordered input:
    drop what lies outside [t_min, t_max], crop what straddles, pad with
    start/end fill intervals; every returned interval has positive duration."""
    iv = np.asarray(intervals, dtype=float).reshape(-1, 2)
    labs = list(labels) if labels is not None else None
    if iv.size == 0:
        if t_min is None or t_max is None:
            raise ValueError("empty input without both limits")
        return np.array([[t_min, t_max]]), [start_label]
    lo = t_min if t_min is not None else -np.inf
    hi = t_max if t_max is not None else np.inf
    out, olab = [], []
    for k, (a, b) in enumerate(iv):
        a2, b2 = max(a, lo), min(b, hi)
        if b2 > a2:
            out.append([a2, b2])
            if labs is not None:
                olab.append(labs[k])
    if not out:
        a0 = t_min if t_min is not None else float(iv.min())
        b0 = t_max if t_max is not None else float(iv.max())
        return np.array([[a0, b0]]), ([start_label] if labs is not None else None)
    if t_min is not None and out[0][0] > t_min:
        out.insert(0, [t_min, out[0][0]])
        if labs is not None:
            olab.insert(0, start_label)
    if t_max is not None and out[-1][1] < t_max:
        out.append([out[-1][1], t_max])
        if labs is not None:
            olab.append(end_label)
    return np.array(out, dtype=float), (olab if labs is not None else None)


def label_fn(intervals, labels):
    """Return f(t) -> label of the interval whose interior contains t, or GAP."""
    iv = [(float(a), float(b)) for a, b in np.asarray(intervals, dtype=float).reshape(-1, 2)]

    def f(t):
        for (a, b), lab in zip(iv, labels):
            if a < t < b:
                return lab
        return GAP
    return f


def probe_points(*bounds_sets):
    """Mid-points of all elementary intervals induced by the given boundaries."""
    bs = sorted({float(x) for s in bounds_sets for x in s if x is not None
                 and np.isfinite(x)})
    return [(a + b) / 2.0 for a, b in zip(bs[:-1], bs[1:]) if b > a]


def is_time_ordered(intervals):
    iv = np.asarray(intervals, dtype=float).reshape(-1, 2)
    if len(iv) == 0:
        return True
    if np.any(iv[:, 1] <= iv[:, 0]):
        return False
    return bool(np.all(iv[1:, 0] >= iv[:-1, 1]))
