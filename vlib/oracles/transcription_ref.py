"""Independent executable reference ("oracle") for mir_eval.transcription and
mir_eval.transcription_velocity.

Written from the module docstrings and function docstrings (Bay et al. / MIREX
note-tracking criteria, with mir_eval's documented rounding of onset / offset
distances to N_DECIMALS = 4 decimals and the ``strict`` flag selecting ``<``
instead of ``<=``; Hawthorne et al. 2018 for the velocity variant).  Nothing
here imports or calls mir_eval.  Algorithms differ from the library's on
purpose: all-pairs feasibility in exact rational arithmetic on the float
inputs, an own Kuhn augmenting-path maximum matching, a subset dynamic programme
that enumerates *all* maximum matchings of small instances, a closed-form
least-squares line in rationals.

Interface: every function has the name / parameters / defaults of the library
function it models and returns ``(value, margin)`` (see melody_ref for
``margin``).  Two functions of the two library modules share a name, so the
module offers two namespaces:

    transcription.precision_recall_f1_overlap(...)          (== module level)
    transcription.onset_precision_recall_f1(...)
    transcription.offset_precision_recall_f1(...)
    transcription.average_overlap_ratio(...)
    transcription_velocity.precision_recall_f1_overlap(...)  (== velocity_precision_recall_f1_overlap)

Values
------
* ``precision_recall_f1_overlap`` -> ``(P, R, F, (aor_lo, aor_hi))``.  The
  Average Overlap Ratio depends on WHICH maximum matching is used, and that is
  not unique; (aor_lo, aor_hi) are the minimum and maximum AOR over all maximum
  matchings when both sides have <= 8 notes (exhaustive) or when the maximum
  matching is provably unique; otherwise ``(None, None)``.
* ``transcription_velocity.precision_recall_f1_overlap`` -> ``(P, R, F, AOR)``
  (plain floats, the library's structure).  All four depend on which maximum
  matching the library picked, therefore margin is 0 whenever the maximum
  matching is not unique, and whenever the regression line is not determined
  (fewer than two distinct estimated velocities among the matched notes).

Threshold comparisons
---------------------
onset: round(|ref_on - est_on|, 4) vs onset_tolerance; pitch:
1200*|log2 ref - log2 est| vs pitch_tolerance; offset: round(|ref_off - est_off|,
4) vs max(offset_ratio * ref_duration, offset_min_tolerance); velocity:
|slope*est + intercept - ref_norm| < velocity_tolerance (always strict).  For a
note pair the three criteria are AND-ed: the pair's margin is the smallest
margin of its criteria if all hold, else the largest margin among the failing
ones (all of them would have to flip).
"""

from fractions import Fraction
import bisect
import math
import types

import numpy as np

INF = float("inf")
N_DECIMALS = 4            # "The number of decimals to keep for onset/offset threshold checks"
_SCALE = 10 ** N_DECIMALS
_HALF = Fraction(1, 2)
EXHAUSTIVE_LIMIT = 8      # notes per side for enumerating all maximum matchings
AMBIGUITY = 1e-6          # a note pair whose own margin is below this is "undecidable"


def _fr(x):
    return Fraction(float(x))


def _is_float(q):
    return Fraction(float(q)) == q


# --------------------------------------------------------------------------
# input contract
# --------------------------------------------------------------------------

def _intervals(a, name):
    """util.validate_intervals: n-by-2, no negative time, positive duration."""
    a = np.asarray(a, dtype=float)
    if a.ndim != 2 or a.shape[1] != 2:
        raise ValueError("%s intervals should be n-by-2, but shape=%r" % (name, a.shape))
    rows = [(float(x), float(y)) for x, y in a.tolist()]
    for on, off in rows:
        if on < 0 or off < 0:
            raise ValueError("Negative interval times found")
        if off <= on:
            raise ValueError("All interval durations must be strictly positive")
    return rows


def _pitches(p, n, name):
    p = [float(x) for x in np.asarray(p).ravel().tolist()]
    if len(p) != n:
        raise ValueError("%s intervals and pitches have different lengths." % name)
    if any(x <= 0 for x in p):
        raise ValueError("%s contains at least one non-positive pitch value" % name)
    return p


# --------------------------------------------------------------------------
# single threshold tests
# --------------------------------------------------------------------------

def _cmp(d, t, strict):
    return d < t if strict else d <= t


def _time_test(d, tol, tol_clean, strict):
    """Is round(d, 4) within tol?  d: exact rational distance; tol: the
    tolerance as a double; tol_clean: a float implementation holds exactly this
    double (user supplied, or computed without rounding error).

    Returns (hit, margin).  The rounded distance is a multiple of 1e-4, held as
    the nearest double; "round half to even" as numpy.around documents."""
    s = d * _SCALE
    n = round(s)                              # ties to even
    dq = n / float(_SCALE)
    hit = _cmp(dq, tol, strict)
    margin = INF
    # (a) the rounded distance against the tolerance
    if dq != tol or not tol_clean:
        margin = min(margin, abs(dq - tol))
    # (b) the un-rounded distance against the rounding boundary that separates
    #     hits from misses: n* = the largest multiple of 1e-4 that is a hit
    n_star = math.floor(Fraction(tol) * _SCALE) + 1
    while n_star >= 0 and not _cmp(n_star / float(_SCALE), tol, strict):
        n_star -= 1
    boundary = (n_star + _HALF) / _SCALE
    if d != boundary:
        margin = min(margin, float(abs(d - boundary)))
    elif not (_is_float(d) and _is_float(s)):
        margin = 0.0                          # a float product cannot reproduce this tie
    return hit, margin


def _pitch_test(rp, ep, tol, strict):
    """1200 * |log2(ref) - log2(est)| against pitch_tolerance (cents)."""
    if rp == ep:
        d = 0.0                               # exactly 0 whatever the logarithm does
        hit = _cmp(d, tol, strict)
        return hit, (INF if tol == 0 else abs(tol))
    d = 1200.0 * abs(math.log2(rp) - math.log2(ep))
    # the distance comes out of a logarithm: equality is never trusted
    return _cmp(d, tol, strict), abs(d - tol)


def _offset_tolerance(on, off, offset_ratio, offset_min_tolerance):
    """max(offset_ratio * ref_duration, offset_min_tolerance) as a double, and
    whether a float implementation obtains exactly this double."""
    dur = _fr(off) - _fr(on)
    prod = _fr(offset_ratio) * dur
    mn = _fr(offset_min_tolerance)
    tol = max(prod, mn)
    exact_prod = _is_float(dur) and _is_float(prod)
    clean = exact_prod or prod < mn - Fraction(1, 10 ** 12)
    return float(tol), clean


def _feasible(ref_iv, est_iv, ref_p, est_p, onset_tolerance, pitch_tolerance,
              offset_ratio, offset_min_tolerance, strict,
              use_onset=True, use_pitch=True, use_offset=True):
    """All-pairs feasibility.

    Returns (adj, adj_sure, adj_possible, margin_clear, margin_all):
    adj[i] = estimated notes reference note i may be matched with, every test
    decided as computed; adj_sure / adj_possible: the same, but counting a pair
    whose own margin is below AMBIGUITY as infeasible / as feasible;
    margin_clear = smallest pair margin among the unambiguous pairs;
    margin_all = smallest pair margin overall."""
    margin_clear = margin_all = INF
    decided, sure, possible = [], [], []
    use_offset = use_offset and offset_ratio is not None
    n_est = len(est_iv)
    # Candidate window (speed only): estimated notes whose onset (offset, for
    # the offset-only metric) lies more than half a second beyond the tolerance
    # fail that criterion with a margin > 0.49 and need no exact test.
    col = 0 if use_onset else (1 if use_offset else None)
    if col is not None:
        order = sorted(range(n_est), key=lambda j: est_iv[j][col])
        keys = [est_iv[j][col] for j in order]
    for i, (r_on, r_off) in enumerate(ref_iv):
        row, row_sure, row_possible = [], [], []
        if use_offset:
            off_tol, off_clean = _offset_tolerance(r_on, r_off, offset_ratio,
                                                   offset_min_tolerance)
        candidates = range(n_est)
        if col is not None:
            reach = (float(onset_tolerance) if use_onset else off_tol) + 0.5
            centre = r_on if use_onset else r_off
            if reach == reach and reach < INF:
                lo = bisect.bisect_left(keys, centre - reach)
                hi = bisect.bisect_right(keys, centre + reach)
                if hi - lo < n_est:
                    candidates = sorted(order[lo:hi])
                    margin_clear = min(margin_clear, 0.49)
                    margin_all = min(margin_all, 0.49)
        for j in candidates:
            e_on, e_off = est_iv[j]
            tests = []
            if use_onset:
                # "The onset of reference note i is within onset_tolerance of
                # the onset of estimated note j"
                tests.append(_time_test(abs(_fr(r_on) - _fr(e_on)),
                                        float(onset_tolerance), True, strict))
            if use_pitch:
                # "The pitch of reference note i is within pitch_tolerance of
                # the pitch of estimated note j"
                tests.append(_pitch_test(ref_p[i], est_p[j], float(pitch_tolerance), strict))
            if use_offset:
                # "the offset of reference note i has to be within
                # offset_tolerance of the offset of estimated note j"
                tests.append(_time_test(abs(_fr(r_off) - _fr(e_off)),
                                        off_tol, off_clean, strict))
            failing = [m for h, m in tests if not h]
            # AND of the criteria: a hit is lost when its weakest criterion
            # flips; a miss becomes a hit only when every failing one flips
            pair_margin = max(failing) if failing else min([INF] + [m for _, m in tests])
            margin_all = min(margin_all, pair_margin)
            if not failing:
                row.append(j)
            if pair_margin < AMBIGUITY:
                row_possible.append(j)          # undecidable pair
                continue
            margin_clear = min(margin_clear, pair_margin)
            if not failing:
                row_sure.append(j)
                row_possible.append(j)
        decided.append(row)
        sure.append(row_sure)
        possible.append(row_possible)
    return decided, sure, possible, margin_clear, margin_all


def _robust(decided, sure, possible, margin_clear, margin_all, n_est):
    """Decide which graph / margin to report.  If the undecidable pairs cannot
    change the size of the maximum matching (size with all of them excluded ==
    size with all of them included; the size is monotone in the edge set), the
    counts are certain and only the decidable comparisons limit the margin.
    Every maximum matching of the true graph is then a maximum matching of the
    'possible' graph, which is therefore used for the AOR range / uniqueness."""
    if sure == possible:
        return decided, margin_all
    size_lo = sum(1 for v in _max_matching(sure, n_est) if v >= 0)
    size_hi = sum(1 for v in _max_matching(possible, n_est) if v >= 0)
    if size_lo == size_hi:
        return possible, margin_clear
    return decided, margin_all


# --------------------------------------------------------------------------
# matchings
# --------------------------------------------------------------------------

def _augment(adj, match_l, match_r, root):
    """One Kuhn step: look for an augmenting path from the free left vertex
    ``root`` (iterative DFS) and flip it.  Returns True on success."""
    seen = set()
    came_from = {}
    ptr = {root: 0}
    stack = [root]
    free = -1
    while stack and free < 0:
        u = stack[-1]
        pushed = False
        while ptr[u] < len(adj[u]):
            v = adj[u][ptr[u]]
            ptr[u] += 1
            if v in seen:
                continue
            seen.add(v)
            came_from[v] = u
            if match_r[v] < 0:
                free = v
            else:
                w = match_r[v]
                ptr[w] = 0
                stack.append(w)
                pushed = True
            break
        if free < 0 and not pushed:
            stack.pop()
    if free < 0:
        return False
    v = free
    while True:
        u = came_from[v]
        prev = match_l[u]
        match_l[u], match_r[v] = v, u
        if u == root:
            return True
        v = prev


def _max_matching(adj, n_right):
    """Kuhn's algorithm.  Returns match_l (partner of each left vertex or -1)."""
    match_l = [-1] * len(adj)
    match_r = [-1] * n_right
    for root in range(len(adj)):
        _augment(adj, match_l, match_r, root)
    return match_l


def _is_unique(adj, n_right, match_l):
    """Is the maximum matching ``match_l`` the only maximum matching?

    Another maximum matching must avoid some edge e = (u, v) of this one; then
    G - e still has a matching of the same size, i.e. (Berge) this matching
    minus e has an augmenting path in G - e.  Such a path must start at u or
    end at v: a path avoiding both would also augment the (maximum) matching
    itself.  So per edge two searches suffice: from u in G - e, and from v in
    the transposed graph."""
    radj = [[] for _ in range(n_right)]
    for u, row in enumerate(adj):
        for v in row:
            radj[v].append(u)
    adj = list(adj)
    ml = list(match_l)
    mr = [-1] * n_right
    for u, v in enumerate(ml):
        if v >= 0:
            mr[v] = u
    for u, v in [(u, v) for u, v in enumerate(ml) if v >= 0]:
        row_u, row_v = adj[u], radj[v]
        adj[u] = [x for x in row_u if x != v]       # G - e
        radj[v] = [x for x in row_v if x != u]
        ml[u], mr[v] = -1, -1                       # matching - e
        # _augment modifies the matching only when it succeeds
        if _augment(adj, ml, mr, u) or _augment(radj, mr, ml, v):
            return False
        ml[u], mr[v] = v, u
        adj[u], radj[v] = row_u, row_v
    return True


def _all_maximum_matchings(adj, n_right, weight):
    """Subset dynamic programme over every matching: state = set of used
    estimated notes after deciding reference notes 0..i.  Returns
    (size, number of maximum matchings, min weight sum, max weight sum)."""
    states = {0: (Fraction(0), Fraction(0), 1)}
    for i, row in enumerate(adj):
        nxt = dict(states)                      # reference note i stays unmatched
        for mask, (lo, hi, cnt) in states.items():
            for j in row:
                if mask >> j & 1:
                    continue
                m2 = mask | (1 << j)
                w = weight(i, j)
                if m2 in nxt:
                    a, b, c = nxt[m2]
                    nxt[m2] = (min(a, lo + w), max(b, hi + w), c + cnt)
                else:
                    nxt[m2] = (lo + w, hi + w, cnt)
        states = nxt
    size = max(bin(m).count("1") for m in states)
    lo = hi = None
    count = 0
    for m, (a, b, c) in states.items():
        if bin(m).count("1") == size:
            lo = a if lo is None else min(lo, a)
            hi = b if hi is None else max(hi, b)
            count += c
    return size, count, lo, hi


def _overlap_ratio(ref, est):
    """Documented: "the ratio between the duration of the time segment in which the two
    notes overlap and the time segment spanned by the two notes combined":
    (min(offsets) - max(onsets)) / (max(offsets) - min(onsets))."""
    r_on, r_off = _fr(ref[0]), _fr(ref[1])
    e_on, e_off = _fr(est[0]), _fr(est[1])
    den = max(r_off, e_off) - min(r_on, e_on)
    if den == 0:
        return None
    return (min(r_off, e_off) - max(r_on, e_on)) / den


def _f_measure(precision, recall, beta):
    """F = (1 + beta^2) P R / (beta^2 P + R); 0 when P = R = 0."""
    if precision == 0 and recall == 0:
        return 0.0
    b2 = float(beta) ** 2
    den = b2 * precision + recall
    if den == 0:
        return float("nan")
    return (1 + b2) * precision * recall / den


def _analyse(adj, n_est, ref_iv, est_iv):
    """(size, unique or None if unknown, (aor_lo, aor_hi), one matching)."""
    match_l = _max_matching(adj, n_est)
    size = sum(1 for v in match_l if v >= 0)
    pairs = [(i, j) for i, j in enumerate(match_l) if j >= 0]
    if size == 0:
        return 0, True, (0.0, 0.0), pairs       # "0 if no match"
    if len(adj) <= EXHAUSTIVE_LIMIT and n_est <= EXHAUSTIVE_LIMIT:
        bad = []

        def weight(i, j):
            r = _overlap_ratio(ref_iv[i], est_iv[j])
            if r is None:
                bad.append((i, j))
                return Fraction(0)
            return r

        sz, count, lo, hi = _all_maximum_matchings(adj, n_est, weight)
        if sz != size:
            raise AssertionError("internal: Kuhn and exhaustive sizes differ")
        if bad:
            return size, count == 1, (float("nan"), float("nan")), pairs
        return size, count == 1, (float(lo / size), float(hi / size)), pairs
    unique = _is_unique(adj, n_est, match_l)
    if unique:
        aor, _ = average_overlap_ratio(ref_iv, est_iv, pairs)
        return size, True, (aor, aor), pairs
    return size, False, (None, None), pairs


# --------------------------------------------------------------------------
# mir_eval.transcription
# --------------------------------------------------------------------------

def average_overlap_ratio(ref_intervals, est_intervals, matching):
    """Documented: "The Average Overlap Ratio (AOR) is given by the mean OR computed over
    all matching reference and estimated notes"; 0 for an empty matching."""
    ref_iv = [(float(a), float(b)) for a, b in np.asarray(ref_intervals, dtype=float).reshape(-1, 2).tolist()]
    est_iv = [(float(a), float(b)) for a, b in np.asarray(est_intervals, dtype=float).reshape(-1, 2).tolist()]
    ratios = []
    for i, j in matching:
        r = _overlap_ratio(ref_iv[int(i)], est_iv[int(j)])
        if r is None:
            return float("nan"), INF            # 0/0: undefined, not an error
        ratios.append(r)
    if not ratios:
        return 0.0, INF
    return float(sum(ratios, Fraction(0)) / len(ratios)), INF


def precision_recall_f1_overlap(
    ref_intervals,
    ref_pitches,
    est_intervals,
    est_pitches,
    onset_tolerance=0.05,
    pitch_tolerance=50.0,
    offset_ratio=0.2,
    offset_min_tolerance=0.05,
    strict=False,
    beta=1.0,
):
    """Precision = matched / estimated notes, recall = matched / reference
    notes, F-measure, and the AOR range over all maximum matchings.  "When
    reference notes are empty, metrics are undefined, return 0's" (same for an
    empty estimate)."""
    ref_iv = _intervals(ref_intervals, "Reference")
    est_iv = _intervals(est_intervals, "Estimated")
    ref_p = _pitches(ref_pitches, len(ref_iv), "Reference")
    est_p = _pitches(est_pitches, len(est_iv), "Estimate")
    if not ref_iv or not est_iv:
        return (0.0, 0.0, 0.0, (0.0, 0.0)), INF
    adj, margin = _robust(*_feasible(
        ref_iv, est_iv, ref_p, est_p, onset_tolerance, pitch_tolerance,
        offset_ratio, offset_min_tolerance, strict), n_est=len(est_iv))
    size, _, aor, _ = _analyse(adj, len(est_iv), ref_iv, est_iv)
    precision = size / len(est_iv)
    recall = size / len(ref_iv)
    return (precision, recall, _f_measure(precision, recall, beta), aor), margin


def onset_precision_recall_f1(ref_intervals, est_intervals, onset_tolerance=0.05,
                              strict=False, beta=1.0):
    """Documented: "an estimated onset is considered correct if it is within +-50ms of a
    reference onset ... completely ignores note offset and note pitch"."""
    ref_iv = _intervals(ref_intervals, "Reference")
    est_iv = _intervals(est_intervals, "Estimated")
    if not ref_iv or not est_iv:
        return (0.0, 0.0, 0.0), INF
    adj, margin = _robust(*_feasible(
        ref_iv, est_iv, None, None, onset_tolerance, None, None, None, strict,
        use_pitch=False, use_offset=False), n_est=len(est_iv))
    match_l = _max_matching(adj, len(est_iv))
    size = sum(1 for v in match_l if v >= 0)
    precision = size / len(est_iv)
    recall = size / len(ref_iv)
    return (precision, recall, _f_measure(precision, recall, beta)), margin


def offset_precision_recall_f1(ref_intervals, est_intervals, offset_ratio=0.2,
                               offset_min_tolerance=0.05, strict=False, beta=1.0):
    """Documented: "an estimated offset is considered correct if it is within +-50ms (or
    20% of the ref note duration, which ever is greater) of a reference offset
    ... completely ignores note onsets and note pitch"."""
    ref_iv = _intervals(ref_intervals, "Reference")
    est_iv = _intervals(est_intervals, "Estimated")
    if not ref_iv or not est_iv:
        return (0.0, 0.0, 0.0), INF
    if offset_ratio is None:
        raise TypeError("offset_ratio must be a number for offset-only matching")
    adj, margin = _robust(*_feasible(
        ref_iv, est_iv, None, None, None, None, offset_ratio, offset_min_tolerance,
        strict, use_onset=False, use_pitch=False), n_est=len(est_iv))
    match_l = _max_matching(adj, len(est_iv))
    size = sum(1 for v in match_l if v >= 0)
    precision = size / len(est_iv)
    recall = size / len(ref_iv)
    return (precision, recall, _f_measure(precision, recall, beta)), margin


# --------------------------------------------------------------------------
# mir_eval.transcription_velocity
# --------------------------------------------------------------------------

def velocity_precision_recall_f1_overlap(
    ref_intervals,
    ref_pitches,
    ref_velocities,
    est_intervals,
    est_pitches,
    est_velocities,
    onset_tolerance=0.05,
    pitch_tolerance=50.0,
    offset_ratio=0.2,
    offset_min_tolerance=0.05,
    strict=False,
    velocity_tolerance=0.1,
    beta=1.0,
):
    """Model of mir_eval.transcription_velocity.precision_recall_f1_overlap:
    1. reference velocities re-scaled to [0, 1] (range at least 1);
    2. least-squares line through the matched (estimated, rescaled reference)
       velocity pairs; 3. estimated velocities mapped through the line;
    4. a matched pair "is further only considered correct if the rescaled
       velocities are within" velocity_tolerance (strict <)."""
    ref_iv = _intervals(ref_intervals, "Reference")
    est_iv = _intervals(est_intervals, "Estimated")
    ref_p = _pitches(ref_pitches, len(ref_iv), "Reference")
    est_p = _pitches(est_pitches, len(est_iv), "Estimate")
    ref_v = [float(x) for x in np.asarray(ref_velocities).ravel().tolist()]
    est_v = [float(x) for x in np.asarray(est_velocities).ravel().tolist()]
    if len(ref_v) != len(ref_iv):
        raise ValueError("Reference velocities must have the same length as pitches and intervals.")
    if len(est_v) != len(est_iv):
        raise ValueError("Estimated velocities must have the same length as pitches and intervals.")
    if any(v < 0 for v in ref_v):
        raise ValueError("Reference velocities must be positive.")
    if any(v < 0 for v in est_v):
        raise ValueError("Estimated velocities must be positive.")
    if not ref_iv or not est_iv:
        return (0.0, 0.0, 0.0, 0.0), INF

    adj, margin = _robust(*_feasible(
        ref_iv, est_iv, ref_p, est_p, onset_tolerance, pitch_tolerance,
        offset_ratio, offset_min_tolerance, strict), n_est=len(est_iv))
    size, unique, _, pairs = _analyse(adj, len(est_iv), ref_iv, est_iv)
    if size == 0:
        return (0.0, 0.0, 0.0, 0.0), margin
    if not unique:
        margin = 0.0      # the result depends on which maximum matching is used

    # 1. "Reference velocities are re-scaled to the range [0, 1]"; "Make the
    #    smallest possible range 1 to avoid divide by zero"
    lo, hi = _fr(min(ref_v)), _fr(max(ref_v))
    rng = max(Fraction(1), hi - lo)
    r = [(_fr(ref_v[i]) - lo) / rng for i, _ in pairs]
    e = [_fr(est_v[j]) for _, j in pairs]

    # 2. least-squares slope / intercept (closed form)
    n = len(pairs)
    mean_e = sum(e, Fraction(0)) / n
    mean_r = sum(r, Fraction(0)) / n
    var_e = sum(((x - mean_e) ** 2 for x in e), Fraction(0))
    if var_e == 0:
        # every minimiser predicts mean_r at the single estimated velocity,
        # but the line itself is not determined
        margin = 0.0
        predicted = [mean_r] * n
    else:
        spread = max(e) - min(e)
        if spread <= Fraction(1, 10 ** 6) * max(Fraction(1), max(abs(x) for x in e)):
            margin = 0.0  # numerically ill-conditioned fit
        slope = sum(((x - mean_e) * (y - mean_r) for x, y in zip(e, r)), Fraction(0)) / var_e
        intercept = mean_r - slope * mean_e
        # 3. "The scale and offset parameters are used to rescale estimated
        #    velocities"
        predicted = [slope * x + intercept for x in e]

    # 4. velocity threshold, strict; the error comes out of a numerical
    #    regression in any float implementation: ties are not trusted
    tol = _fr(velocity_tolerance)
    kept = []
    for pair, p, y in zip(pairs, predicted, r):
        err = abs(p - y)
        margin = min(margin, float(abs(err - tol)))
        if err < tol:
            kept.append(pair)

    precision = len(kept) / len(est_iv)
    recall = len(kept) / len(ref_iv)
    aor, _ = average_overlap_ratio(ref_iv, est_iv, kept)
    return (precision, recall, _f_measure(precision, recall, beta), aor), margin


# namespaces mirroring the two library modules
transcription = types.SimpleNamespace(
    precision_recall_f1_overlap=precision_recall_f1_overlap,
    onset_precision_recall_f1=onset_precision_recall_f1,
    offset_precision_recall_f1=offset_precision_recall_f1,
    average_overlap_ratio=average_overlap_ratio,
)
transcription_velocity = types.SimpleNamespace(
    precision_recall_f1_overlap=velocity_precision_recall_f1_overlap,
)
