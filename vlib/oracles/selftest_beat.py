"""Self-test of the beat / onset / boundary oracles against mir_eval.

Run:  cd /verif && PYTHONPATH=/verif /venv/bin/python -m vlib.oracles.selftest_beat [--all] [--n N] [--seed S]

For every modelled function >= 3000 random cases are generated, mostly on an
exact lattice (times multiples of 1/64 s, dyadic thresholds as well as the
library defaults), some with arbitrary float times.  Library and oracle are
called on identical arguments; a case is *compared* when the oracle's margin is
>= 1e-7 and counts as a disagreement when some component differs by more than
1e-9 (NaN equals NaN) or the library raises.  Every disagreement is assigned to
a class of KNOWN_LIBRARY_DEVIATIONS by a structural predicate on the input, or
reported as UNEXPLAINED (exit status 1).
"""

import argparse
import math
import random
import sys
import time
import warnings

import numpy as np

import mir_eval

from . import beat_ref, event_ref

TOL = 1e-9
MIN_MARGIN = 1e-7
LAT = 64.0


# --------------------------------------------------------------------------
# generators
# --------------------------------------------------------------------------

def pick_style(rng):
    """'dyadic' (exact lattice), 'noise' (arbitrary floats) or 'decimal' (times
    with 2-3 decimals as in annotation files: decimal near-ties with the default
    thresholds, which must be caught by the margin)."""
    u = rng.random()
    return "dyadic" if u < 0.7 else ("noise" if u < 0.85 else "decimal")


def off_lattice(rng, ts, style):
    if style in (True, "dyadic"):
        return ts
    if style == "decimal":
        q = rng.choice([2, 2, 3])
        return sorted(round(max(0.0, t + rng.uniform(-0.004, 0.004)), q) for t in ts)
    return sorted(max(0.0, t + rng.uniform(-0.004, 0.004)) for t in ts)


def gen_ref(rng, lattice=True):
    n = rng.choice([0, 1, 2, 2, 3, 3, 4, 5, 6, 8, 10, 12, 15, 20, rng.randint(0, 20)])
    if n == 0:
        return []
    start = rng.randrange(0, 8 * 64)
    ts = [start]
    style = rng.random()
    period = rng.choice([8, 12, 16, 20, 24, 32, 40, 48, 64])
    for _ in range(n - 1):
        if style < 0.5:                       # steady tempo, small jitter
            step = period + rng.choice([0, 0, 0, 0, -1, 1, -2, 2])
        elif style < 0.85:                    # irregular
            step = rng.randint(1, 70)
        else:                                 # irregular with repeated times
            step = rng.choice([0, 0, 1, 2, 16, 32, rng.randint(0, 50)])
        ts.append(ts[-1] + max(step, 0))
    out = [t / LAT for t in ts]
    out = off_lattice(rng, out, lattice)
    return out


def gen_est(rng, ref, lattice=True):
    mode = rng.random()
    if mode < 0.2 or not ref:
        return gen_ref(rng, lattice)
    ts = [int(round(t * LAT)) for t in ref]
    if mode < 0.3:                            # metrical variation of the reference
        kind = rng.randrange(4)
        if kind == 0:
            ts = ts[::2]
        elif kind == 1:
            ts = ts[1::2]
        elif kind == 2:
            ts = [(a + b) // 2 for a, b in zip(ts[:-1], ts[1:])]
        else:
            ts = sorted(ts + [(a + b) // 2 for a, b in zip(ts[:-1], ts[1:])])
    j = rng.choice([0, 1, 2, 3, 4, 6, 8, 12])
    ts = [t + rng.randint(-j, j) for t in ts]
    if rng.random() < 0.4:                    # global offset (also before ref[0])
        off = rng.randint(-24, 24)
        ts = [t + off for t in ts]
    if rng.random() < 0.4 and ts:             # drops
        ts = [t for t in ts if rng.random() > 0.25]
    if rng.random() < 0.4:                    # insertions
        hi = max(ts + [64]) + 40
        ts = ts + [rng.randint(0, hi) for _ in range(rng.randint(1, 4))]
    if rng.random() < 0.15 and ts:            # duplicates
        ts = ts + [rng.choice(ts)]
    ts = sorted(max(t, 0) for t in ts)[:20]
    out = [t / LAT for t in ts]
    out = off_lattice(rng, out, lattice)
    return out


def arr(xs):
    return np.asarray(xs, dtype=float)


def gen_intervals(rng, lattice=True):
    """(n, 2) array of positive-duration intervals: usually a contiguous
    partition, sometimes with gaps/overlaps; times on 1/32 (5 decimals exact),
    1/64 (rounding ties at 5 decimals) or arbitrary 6-decimal floats."""
    n = rng.choice([0, 1, 1, 2, 3, 4, 5, 6, 8, 10, 14, 20])
    if n == 0:
        return np.zeros((0, 2))
    dec = 6 if lattice == "noise" else rng.choice([2, 3, 5])
    lattice = lattice in (True, "dyadic")
    grid = rng.choice([32, 32, 64]) if lattice else None
    t = rng.randrange(0, 3 * 64) if rng.random() < 0.5 else 0
    rows = []
    for _ in range(n):
        dur = rng.randint(1, 90)
        rows.append([t, t + dur])
        gap = rng.choice([0, 0, 0, 0, rng.randint(-min(dur - 1, 5), 20)])
        t = max(t + dur + gap, 0)
    a = np.asarray(rows, dtype=float)
    if lattice:
        return a / grid
    a = a / 64.0
    noise = np.array([[rng.uniform(-2e-3, 2e-3) for _ in range(2)] for _ in range(n)])
    a = np.round(np.abs(a + noise), dec)
    a[:, 1] = np.maximum(a[:, 1], a[:, 0] + 1e-2)
    return a


def gen_est_intervals(rng, ref, lattice=True):
    if rng.random() < 0.3 or len(ref) == 0:
        return gen_intervals(rng, lattice)
    dec = 6 if lattice == "noise" else rng.choice([2, 3, 5])
    lattice = lattice in (True, "dyadic")
    grid = 64.0
    b = sorted({int(round(x * grid)) for x in np.asarray(ref).ravel()})
    j = rng.choice([0, 1, 2, 8, 16, 32, 40])
    b = [max(x + rng.randint(-j, j), 0) for x in b]
    if rng.random() < 0.4:
        b = [x for x in b if rng.random() > 0.3]
    if rng.random() < 0.4:
        b += [rng.randint(0, max(b + [64]) + 30) for _ in range(rng.randint(1, 4))]
    b = sorted(set(b))
    if len(b) < 2:
        return np.zeros((0, 2))
    a = np.array(list(zip(b[:-1], b[1:])), dtype=float) / grid
    if not lattice:
        a = np.round(a + np.array([[rng.uniform(0, 4e-4), 0.0]] * len(a)), dec)
        a[:, 1] = np.maximum(a[:, 1], a[:, 0] + 1e-2)
    return a


# --------------------------------------------------------------------------
# case tables
# --------------------------------------------------------------------------

def beats_case(params):
    """params: dict name -> list of candidate values (defaults are produced by
    omitting the keyword)."""
    def make(rng):
        lattice = pick_style(rng)
        ref = gen_ref(rng, lattice)
        est = gen_est(rng, ref, lattice)
        kw = {}
        for name, values in params.items():
            v = rng.choice(values)
            if v is not None:
                kw[name] = v
        return (arr(ref), arr(est)), kw
    return make


def segment_case(params):
    def make(rng):
        lattice = pick_style(rng)
        ref = gen_intervals(rng, lattice)
        est = gen_est_intervals(rng, ref, lattice)
        kw = {}
        for name, values in params.items():
            v = rng.choice(values)
            if v is not None:
                kw[name] = v
        return (ref, est), kw
    return make


D = None  # "use the library default"

CASES = [
    ("beat.f_measure", mir_eval.beat.f_measure, beat_ref.f_measure,
     beats_case({"f_measure_threshold": [D, D, 1 / 16, 1 / 8, 1 / 32, 1 / 64, 0.0]})),
    ("beat.cemgil", mir_eval.beat.cemgil, beat_ref.cemgil,
     beats_case({"cemgil_sigma": [D, D, 1 / 16, 1 / 32]})),
    ("beat.goto", mir_eval.beat.goto, beat_ref.goto,
     beats_case({"goto_threshold": [D, D, 1 / 4, 1 / 2, 3 / 8],
                 "goto_mu": [D, D, 1 / 4, 1 / 8],
                 "goto_sigma": [D, D, 1 / 4, 1 / 8]})),
    ("beat.p_score", mir_eval.beat.p_score, beat_ref.p_score,
     beats_case({"p_score_threshold": [D, D, 1 / 4, 1 / 8, 1 / 2, 1 / 16]})),
    ("beat.continuity", mir_eval.beat.continuity, beat_ref.continuity,
     beats_case({"continuity_phase_threshold": [D, D, 1 / 4, 1 / 8, 1 / 16],
                 "continuity_period_threshold": [D, D, 1 / 4, 1 / 8, 1 / 16]})),
    ("beat.information_gain", mir_eval.beat.information_gain, beat_ref.information_gain,
     beats_case({"bins": [D, D, D, 40, 16, 8, 4, 2, 11]})),
    ("onset.f_measure", mir_eval.onset.f_measure, event_ref.f_measure,
     beats_case({"window": [D, D, 1 / 16, 1 / 8, 1 / 32, 1 / 64]})),
    ("segment.detection", mir_eval.segment.detection, event_ref.detection,
     segment_case({"window": [D, D, 3.0, 1 / 4, 1 / 8, 1 / 32, 1 / 16],
                   "beta": [D, D, 2.0, 0.5], "trim": [D, True, False]})),
    ("segment.deviation", mir_eval.segment.deviation, event_ref.deviation,
     segment_case({"trim": [D, True, False]})),
]


# --------------------------------------------------------------------------
# comparison
# --------------------------------------------------------------------------

def as_tuple(v):
    if isinstance(v, (tuple, list)):
        return tuple(float(x) for x in v)
    return (float(v),)


def same(a, b):
    if len(a) != len(b):
        return False
    for x, y in zip(a, b):
        if math.isnan(x) and math.isnan(y):
            continue
        if math.isnan(x) or math.isnan(y) or abs(x - y) > TOL:
            return False
    return True


def classify(name, args):
    """Known-deviation class of the input (structural predicate), or None."""
    if name == "beat.information_gain":
        c = beat_ref.information_gain_deviation_class(*args)
        return " + ".join(c) if c else None
    if name == "beat.p_score":
        c = beat_ref.p_score_deviation_class(*args)
        return " + ".join(c) if c else None
    return None


def _slipped_interval(b, ann, mg):
    """Diagnostic only: the interval selection WITH the suspected if/elif slip of
    beat._get_entropy (first-annotation case falls through to the generic
    branch, where index -1 wraps around to the last annotation)."""
    c, _ = beat_ref._nearest(b, ann, mg)
    e = b - ann[c]
    if c == len(ann) - 1:
        iv = ann[-1] - ann[-2]
    elif e < 0:
        iv = ann[c] - ann[c - 1]          # c == 0: ann[0] - ann[-1]
    else:
        iv = ann[c + 1] - ann[c]
    return e, iv


def slipped_information_gain(*args, **kw):
    keep = beat_ref._selected_interval
    beat_ref._selected_interval = _slipped_interval
    try:
        return beat_ref.information_gain(*args, **kw)
    finally:
        beat_ref._selected_interval = keep


def short(a):
    return np.array2string(np.asarray(a), separator=",", max_line_width=10 ** 6,
                           floatmode="unique").replace("\n", "")


def run(n_cases, seed, show_all):
    t_start = time.time()
    unexplained = 0
    for fi, (name, lib, ref_fn, make) in enumerate(CASES):
        rng = random.Random(seed * 1000 + fi)
        stats = {"cases": 0, "compared": 0, "low_margin": 0, "agree": 0}
        distinct = set()
        mech = [0, 0]          # D13 mechanism check: [checked, explained]
        classes = {}
        class_population = {}
        t0 = time.time()
        for _ in range(n_cases):
            args, kw = make(rng)
            stats["cases"] += 1
            oracle_value, margin = ref_fn(*args, **kw)
            assert margin >= 0, (name, margin)
            oracle_value = as_tuple(oracle_value)
            cls = classify(name, args)
            if cls:
                class_population[cls] = class_population.get(cls, 0) + 1
            try:
                with warnings.catch_warnings(), np.errstate(all="ignore"):
                    warnings.simplefilter("ignore")
                    lib_value = as_tuple(lib(*args, **kw))
                raised = None
            except Exception as exc:                      # noqa: BLE001
                lib_value, raised = None, "%s: %s" % (type(exc).__name__, exc)
            if margin < MIN_MARGIN:
                stats["low_margin"] += 1
                continue
            stats["compared"] += 1
            distinct.add(oracle_value if not any(map(math.isnan, oracle_value)) else "nan")
            if name == "beat.information_gain" and cls and "D18" not in cls and raised is None:
                # does imitating the single if/elif slip reproduce the library?
                sv, sm = slipped_information_gain(*args, **kw)
                if sm >= MIN_MARGIN:
                    mech[0] += 1
                    mech[1] += same(lib_value, as_tuple(sv))
            if raised is None and same(lib_value, oracle_value):
                stats["agree"] += 1
                continue
            key = cls or "UNEXPLAINED"
            if raised is not None:
                key += " [library raised %s]" % raised.split(":")[0]
            rec = (args, kw, lib_value if raised is None else raised, oracle_value, margin)
            classes.setdefault(key, []).append(rec)
        dt = time.time() - t0
        print("== %-22s cases=%d compared=%d skipped(margin<%g)=%d agree=%d disagree=%d  (%.1fs)"
              % (name, stats["cases"], stats["compared"], MIN_MARGIN, stats["low_margin"],
                 stats["agree"], stats["compared"] - stats["agree"], dt))
        print("     distinct oracle values among compared cases: %d" % len(distinct))
        if mech[0]:
            print("     D13 mechanism check: oracle + imitated if/elif slip == library on %d of %d D13 inputs"
                  % (mech[1], mech[0]))
            unexplained += mech[0] - mech[1]
        for cls, cnt in sorted(class_population.items()):
            print("     inputs satisfying predicate %-60s %d" % (cls, cnt))
        for key, recs in sorted(classes.items()):
            print("   class %s: %d disagreement(s)" % (key, len(recs)))
            if key.startswith("UNEXPLAINED"):
                unexplained += len(recs)
            # --all: every disagreement; otherwise 2 examples of a known class
            # and up to 40 of an unexplained one
            limit = len(recs) if show_all else (40 if key.startswith("UNEXPLAINED") else 2)
            for args, kw, lv, ov, mg in recs[:limit]:
                print("      a=%s b=%s kw=%s\n         library=%s oracle=%s margin=%.3g"
                      % (short(args[0]), short(args[1]), kw, lv, ov, mg))
    print("total time %.1fs; unexplained disagreements: %d" % (time.time() - t_start, unexplained))
    return unexplained


def main(argv=None):
    ap = argparse.ArgumentParser()
    ap.add_argument("--n", type=int, default=3000, help="cases per function")
    ap.add_argument("--seed", type=int, default=0)
    ap.add_argument("--all", action="store_true", help="print every disagreement")
    ns = ap.parse_args(argv)
    return 1 if run(ns.n, ns.seed, ns.all) else 0


if __name__ == "__main__":
    sys.exit(main())
