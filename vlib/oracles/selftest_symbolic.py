"""Self-test of the symbolic / clustering / hierarchy oracles against mir_eval.

Run:  cd /verif && PYTHONPATH=/verif /venv/bin/python -m vlib.oracles.selftest_symbolic

For every modelled function many random inputs are generated (times on exact
binary lattices), library and oracle are both called, and every disagreement
larger than 1e-9 on a case whose oracle margin is >= 1e-7 is reported, grouped
by a *structural* class computed from the input alone.  Classes listed in
KNOWN_LIBRARY_DEVIATIONS were analysed against the documentation and are
library deviations (the oracle is kept); any other class is printed as
UNEXPLAINED and makes the exit status non-zero.
"""

import math
import random
import sys
import time
import warnings
from collections import Counter, defaultdict

import numpy as np

import mir_eval
import mir_eval.alignment
import mir_eval.hierarchy
import mir_eval.key
import mir_eval.pattern
import mir_eval.segment
import mir_eval.tempo

from vlib.oracles import symbolic_ref as S
from vlib.oracles import cluster_ref as C
from vlib.oracles import hierarchy_ref as H

ABS_TOL = 1e-9
MIN_MARGIN = 1e-7

KNOWN_LIBRARY_DEVIATIONS = {
    "pattern.standard_FPR/asymmetric-match-counts": (
        "Predicate: the number of reference prototypes that are a translation "
        "of some estimated prototype differs from the number of estimated "
        "prototypes that are a translation of some reference prototype "
        "(symbolic_ref.pattern_standard_counts(ref, est, tol) returns two "
        "different numbers; needs two prototypes on one side that are "
        "translations of each other).  The library divides the count of "
        "matched *reference* prototypes by nQ, so its 'precision' is not the "
        "fraction of estimated patterns that are ground-truth patterns and "
        "exceeds 1 when more reference prototypes are matched than there are "
        "estimates.  Minimal input: ref=[[[(0,60),(1,62)]],[[(4,65),(5,67)]]], "
        "est=[[[(0,60),(1,62)]]] -> library P=2.0 (oracle P=1.0, R=1.0).  "
        "Mirror sub-class (two estimates matching one reference, the same "
        "input with ref and est swapped): library P=0.5, oracle P=1.0 - both "
        "estimated patterns are ground-truth patterns.  A caller that only "
        "wants the uncontroversial part should compare on inputs where the "
        "two counts are equal."),
    "pattern.*/occurrence-not-a-point-set": (
        "Predicate: some occurrence lists the same (onset, midi) pair twice "
        "(symbolic_ref.pattern_inputs_are_point_sets() is False).  The "
        "cardinality score and the first-layer P/R are defined on point sets "
        "|P n Q| / max(|P|, |Q|); the library takes the intersection as a set "
        "but |P|, |Q| as list lengths, so a repeated point lowers the score "
        "(an occurrence compared with itself scores < 1).  Minimal input: "
        "ref=est=[[[(0,60),(0,60),(1,62)]]] -> library establishment "
        "P=R=2/3 (oracle 1.0)."),
    "key.weighted_score/other-mode-relation": (
        "Predicate: symbolic_ref.key_is_unambiguous(ref, est) is False, i.e. "
        "the two keys differ and at least one has mode 'other'.  The library "
        "applies the relative (0.3) and parallel (0.2) rows whenever the "
        "reference is major/minor and the estimated mode merely *differs* "
        "(e.g. 'C major' vs 'A other' -> 0.3, 'C major' vs 'C other' -> 0.2, "
        "'C other' vs 'C major' -> 0.2 but 'C other' vs 'A minor' -> 0.0); "
        "the documentation defines these rows for major/minor pairs only. "
        "Documentation is silent, so this class is reported as ambiguous "
        "rather than as a defect."),
    "segment.mutual_information/AMI-all-singletons": (
        "Predicate: >= 2 frames and every frame is its own cluster in both "
        "labellings (cluster_ref.ami_is_undefined()).  MI = E[MI] = H = log n, "
        "so AMI is an exact 0/0 (oracle: NaN).  The library evaluates the "
        "quotient in floating point: it returns 1.0 when the rounding errors "
        "of MI and H happen to coincide and NaN otherwise (NaN for n = 2, 4, "
        "13; 1.0 for the other n <= 40) - the result depends on n only "
        "through rounding."),
    "segment.mutual_information/AMI-ill-conditioned": (
        "Predicate: cluster_ref.ami_denominator(ref, est) = max(H) - E[MI] is "
        "small (nearly every frame its own cluster on both sides).  Not a "
        "wrong formula but lost digits: the library's log-gamma evaluation of "
        "the hypergeometric weights carries ~1e-10 absolute error in AMI at "
        "denominator 0.08, n = 300 and 1e-9 at denominator 0.016, n = 349 "
        "(oracle within 4e-13 of 60-digit arithmetic).  Does not occur at the "
        "sizes of this self-test (n <= 40); use tolerance 1e-9 + 1e-12 * n / "
        "denominator."),
    "hierarchy/float-frame-index": (
        "Predicate: hierarchy_ref.float_frame_hazard([ref, est], frame_size, "
        "window) is True: frame_size is not a short binary fraction (e.g. the "
        "default 0.1) and for some boundary t (or the window) the double "
        "precision evaluation of int((t - t % frame_size) / frame_size) is "
        "one less than floor(t / frame_size), because fl(k*frame_size) / "
        "frame_size rounds below k (0.3/0.1 = 2.9999999999999996).  The "
        "affected boundary lands one frame early although it is nowhere near "
        "the frame grid: _round(4.35, 0.1)/0.1 = 42.99999999999999 -> frame 42 "
        "instead of 43 (also t in [8.1,8.2), [8.6,8.7), [9.1,9.2), [16.2,16.3) "
        "...; about 3.5% of uniformly random times with frame_size=0.1).  "
        "Minimal input: tmeasure([[[0,4.75]],[[0,4.35],[4.35,4.75]]], "
        "[[[0,4.75]],[[0,0.25],[0.25,4.75]]], window=None, frame_size=0.1) -> "
        "library (0.014399, 0.006104, 0.008573), oracle (0.009585, 0.004972, "
        "0.006547).  (window=15.0, frame_size=0.1 gives 149 window frames in "
        "the library and in exact arithmetic alike, because float(0.1) > 1/10; "
        "the oracle reports margin ~8e-16 for it when the window matters.)"),
    "hierarchy/single-level-not-validated": (
        "Predicate: a hierarchy with exactly one level whose first boundary "
        "is not 0 (more generally: a one-level hierarchy with any defect the "
        "documented validation rejects - negative times, non-positive "
        "durations).  The documentation promises ValueError 'If any "
        "segmentation does not start at 0'; the library validates levels "
        "2.. against level 1 only, so a one-level hierarchy is never "
        "checked and frames are indexed from time 0 into a matrix sized for "
        "the span.  Minimal input: tmeasure([[[2,4],[4,8]]], [[[2,4],[4,8]]], "
        "frame_size=0.5, window=2) returns (1,1,1) instead of raising."),
}


# --------------------------------------------------------------------------
# comparison machinery
# --------------------------------------------------------------------------
def _call(fn, *a, **k):
    try:
        with warnings.catch_warnings():
            warnings.simplefilter("ignore")
            with np.errstate(all="ignore"):
                return ("ok", fn(*a, **k))
    except Exception as exc:  # noqa
        return ("exc", type(exc).__name__)


def _same_scalar(x, y, tol):
    if isinstance(x, (bool, np.bool_)) or isinstance(y, (bool, np.bool_)):
        return bool(x) == bool(y)
    x, y = float(x), float(y)
    if math.isnan(x) or math.isnan(y):
        return math.isnan(x) and math.isnan(y)
    if math.isinf(x) or math.isinf(y):
        return x == y
    return abs(x - y) <= tol


def _same(a, b, tol=ABS_TOL):
    if isinstance(a, (tuple, list)) or isinstance(b, (tuple, list)):
        if not (isinstance(a, (tuple, list)) and isinstance(b, (tuple, list))):
            return False
        if len(a) != len(b):
            return False
        return all(_same(x, y, tol) for x, y in zip(a, b))
    return _same_scalar(a, b, tol)


class Tally:
    def __init__(self):
        self.cases = Counter()
        self.skipped = Counter()
        self.agree = Counter()
        self.dis = defaultdict(Counter)      # name -> class -> count
        self.examples = {}                   # (name, class) -> text

    def record(self, name, lib, ora, cls_fn, show, tol=ABS_TOL):
        """lib / ora are _call() results; oracle 'ok' value is (value, margin).
        cls_fn() -> class label for a disagreement; show() -> str."""
        self.cases[name] += 1
        if ora[0] == "ok":
            value, margin = ora[1]
            if margin < MIN_MARGIN:
                self.skipped[name] += 1
                return
            good = lib[0] == "ok" and _same(lib[1], value, tol)
        else:
            # documented failure: both must fail with ValueError
            good = lib[0] == "exc" and lib[1] == ora[1] == "ValueError"
        if good:
            self.agree[name] += 1
            return
        cls = cls_fn()
        self.dis[name][cls] += 1
        key = (name, cls)
        if key not in self.examples:
            self.examples[key] = "%s\n      library: %r\n      oracle : %r" % (
                show(), lib, ora)

    def report(self):
        bad = 0
        print("%-46s %7s %7s %7s %7s" % ("function", "cases", "skipped",
                                          "agree", "differ"))
        for name in self.cases:
            nd = sum(self.dis[name].values())
            print("%-46s %7d %7d %7d %7d" % (name, self.cases[name],
                                             self.skipped[name],
                                             self.agree[name], nd))
        print()
        for name in self.cases:
            for cls, cnt in sorted(self.dis[name].items()):
                known = cls in KNOWN_LIBRARY_DEVIATIONS
                if not known:
                    bad += cnt
                print("%s  %s: %d x class '%s'" % (
                    "known-deviation" if known else "UNEXPLAINED    ",
                    name, cnt, cls))
                print("    e.g. " + self.examples[(name, cls)])
        return bad


T = Tally()


def lat(rng, lo, hi, den=64):
    """random multiple of 1/den in [lo, hi]"""
    return rng.randint(int(lo * den), int(hi * den)) / den


# --------------------------------------------------------------------------
# tempo
# --------------------------------------------------------------------------
def test_tempo(rng, n_cases=3000):
    for _ in range(n_cases):
        kind = rng.random()
        r0 = lat(rng, 30, 120, 4)
        r1 = r0 * rng.choice([2, 3, 1.5, 1.25]) if rng.random() < .7 else lat(rng, 60, 240, 4)
        if kind < .1:
            r0 = 0.0
        ref = np.array([r0, r1])
        tol = rng.choice([0.08, 0.08, 0.08, 0.04, 0.125, 0.25, 0.0, 1.0, 0.5])
        est = []
        for r in ref:
            m = rng.random()
            if m < .25:
                est.append(float(r))
            elif m < .45:
                est.append(float(r) * rng.choice([0.5, 2, 3, 1 / 3]))
            elif m < .7:
                # close to the tolerance boundary, on the lattice
                est.append(max(0.0, float(r) * (1 + rng.choice([-1, 1]) * tol)
                               + rng.choice([0, 1 / 64, -1 / 64, 1 / 4, -1 / 4])))
            elif m < .8:
                est.append(0.0)
            else:
                est.append(lat(rng, 20, 300, 64))
        est = np.array(sorted(est))
        w = rng.choice([0.0, 1.0, 0.5, 0.25, rng.random()])
        bad = rng.random()
        if bad < .02:
            w = rng.choice([-0.1, 1.5])
        elif bad < .04:
            tol = rng.choice([-0.01, 1.01])
        elif bad < .05:
            ref = np.array([0.0, 0.0])
        elif bad < .06:
            est = np.array([est[0], -1.0])
        elif bad < .07:
            est = np.array([est[0]])
        lib = _call(mir_eval.tempo.detection, ref, w, est, tol)
        ora = _call(S.tempo_detection, ref, w, est, tol)
        T.record("tempo.detection", lib, ora, lambda: "?",
                 lambda: "ref=%r w=%r est=%r tol=%r" % (ref, w, est, tol))


# --------------------------------------------------------------------------
# key
# --------------------------------------------------------------------------
def test_key(rng):
    tonics = ["c", "c#", "db", "d", "d#", "eb", "e", "f", "f#", "gb", "g", "g#",
              "ab", "a", "a#", "bb", "b"]
    keys = ["%s %s" % (t, m) for t in tonics for m in ("major", "minor", "other")]
    keys.append("x")

    def recase(k):
        t = k.split()
        t[0] = t[0].upper() if rng.random() < .5 else t[0].capitalize()
        return " ".join(t)

    for a in keys:
        for b in keys:
            ra, rb = recase(a), recase(b)
            lib = _call(mir_eval.key.weighted_score, ra, rb)
            ora = _call(S.key_weighted_score, ra, rb)
            unamb = S.key_is_unambiguous(ra, rb)
            T.record("key.weighted_score", lib, ora,
                     lambda: "?" if unamb else "key.weighted_score/other-mode-relation",
                     lambda: "ref=%r est=%r" % (ra, rb))
    for bad in ["C", "C major extra", "H major", "C Major", "x major", "", " x",
                "E# minor", "Cb major"]:
        for other, first in (("C major", True), ("C major", False)):
            args = (bad, other) if first else (other, bad)
            lib = _call(mir_eval.key.weighted_score, *args)
            ora = _call(S.key_weighted_score, *args)
            T.record("key.weighted_score", lib, ora, lambda: "?",
                     lambda: "args=%r" % (args,))


# --------------------------------------------------------------------------
# alignment
# --------------------------------------------------------------------------
def _alignment_case(rng):
    n = rng.randint(1, 12)
    ref = sorted(lat(rng, 0, 30) for _ in range(n))
    spread = rng.choice([1 / 64, 0.25, 0.5, 1.0, 3.0])
    est = sorted(max(0.0, t + rng.choice([0, 0, 1, -1]) * lat(rng, 0, spread))
                 for t in ref)
    if rng.random() < .15:
        # deviations exactly at typical windows
        est = sorted(max(0.0, t + rng.choice([0.25, -0.25, 0.5, 0.3, -0.3])) for t in ref)
    return np.array(ref), np.array(est)


def _bad_alignment(rng, ref, est):
    k = rng.randint(0, 5)
    if k == 0:
        return ref[::-1].copy() if len(ref) > 1 and ref[0] != ref[-1] else np.array([]), est
    if k == 1:
        return ref, np.append(est, est[-1] + 1)
    if k == 2:
        return np.array([]), np.array([])
    if k == 3:
        e = est.copy()
        e[0] = -0.5
        return ref, e
    if k == 4:
        return list(ref), est
    return ref.reshape(1, -1), est


def test_alignment(rng, n_cases=2500):
    A = mir_eval.alignment
    for it in range(n_cases):
        ref, est = _alignment_case(rng)
        if rng.random() < .06:
            ref, est = _bad_alignment(rng, ref, est)
        show = lambda: "ref=%r est=%r" % (ref, est)  # noqa
        T.record("alignment.absolute_error",
                 _call(A.absolute_error, ref, est),
                 _call(S.alignment_absolute_error, ref, est), lambda: "?", show)
        window = rng.choice([0.3, 0.25, 0.5, 1 / 64, 1.0, 0.0])
        T.record("alignment.percentage_correct",
                 _call(A.percentage_correct, ref, est, window),
                 _call(S.alignment_percentage_correct, ref, est, window),
                 lambda: "?", lambda: show() + " window=%r" % window)
        dur = None
        if rng.random() < .6 and isinstance(ref, np.ndarray) and ref.size and est.size:
            top = max(float(np.max(ref)), float(np.max(est)))
            dur = rng.choice([top, top + lat(rng, 0, 5), top + 10, int(top) + 1,
                              top - 1 / 64, 0.0])
        T.record("alignment.percentage_correct_segments",
                 _call(A.percentage_correct_segments, ref, est, dur),
                 _call(S.alignment_percentage_correct_segments, ref, est, dur),
                 lambda: "?", lambda: show() + " duration=%r" % dur)
        T.record("alignment.karaoke_perceptual_metric",
                 _call(A.karaoke_perceptual_metric, ref, est),
                 _call(S.alignment_karaoke_perceptual_metric, ref, est),
                 lambda: "?", show)


# --------------------------------------------------------------------------
# pattern
# --------------------------------------------------------------------------
def _rand_occ(rng, n=None):
    n = n or rng.randint(1, 6)
    pts = set()
    while len(pts) < n:
        pts.add((lat(rng, 0, 8, 4), float(rng.randint(60, 66))))
    return sorted(pts)


def _translate(occ, dt, dp):
    return [(o + dt, m + dp) for o, m in occ]


def _variant(rng, occ):
    """copy / translation / near-translation / subset / superset of occ"""
    k = rng.random()
    if k < .25:
        return list(occ)
    if k < .5:
        return _translate(occ, lat(rng, 0, 16, 4), float(rng.choice([0, 0, 2, -3, 12])))
    if k < .6:
        out = _translate(occ, lat(rng, 0, 16, 4), 0.0)
        i = rng.randrange(len(out))
        out[i] = (out[i][0] + rng.choice([1 / 64, 1 / 1024, 1 / 4]), out[i][1])
        return out
    if k < .8 and len(occ) > 1:
        drop = rng.randrange(len(occ))
        return [p for i, p in enumerate(occ) if i != drop]
    extra = _rand_occ(rng, 1)[0]
    return sorted(set(list(occ) + [extra]))


def _rand_patterns(rng):
    nP = rng.randint(1, 4)
    ref = []
    distinct = rng.random() < .6  # no two prototypes on a side are translations
    for _ in range(nP):
        proto = _rand_occ(rng)
        if ref and not distinct and rng.random() < .2:
            # a reference pattern that is a translation of an earlier one
            proto = _translate(ref[rng.randrange(len(ref))][0], lat(rng, 1, 9, 4), 0.0)
        pat = [proto] + [_variant(rng, proto) for _ in range(rng.randint(0, 3))]
        ref.append(pat)
    nQ = rng.randint(1, 7)
    est = []
    unused = list(range(nP))
    rng.shuffle(unused)
    for _ in range(nQ):
        if distinct and unused and rng.random() < .75:
            # prototype = translated (or nearly translated) reference prototype,
            # each reference pattern used at most once
            src = ref[unused.pop()]
            proto = _translate(src[0], lat(rng, 0, 16, 4), float(rng.choice([0, 0, 5])))
            if rng.random() < .3:
                i = rng.randrange(len(proto))
                proto[i] = (proto[i][0] + rng.choice([1 / 64, 1 / 1024, 1 / 4]), proto[i][1])
            pat = [proto] + [_variant(rng, src[rng.randrange(len(src))])
                             for _ in range(rng.randint(0, 3))]
        elif not distinct and rng.random() < .75:
            src = ref[rng.randrange(nP)]
            base = src[rng.randrange(len(src))]
            proto = _variant(rng, base)
            pat = [proto]
            for _ in range(rng.randint(0, 3)):
                pat.append(_variant(rng, src[rng.randrange(len(src))])
                           if rng.random() < .7 else _variant(rng, proto))
            if rng.random() < .2:
                pat.append(list(pat[0]))  # repeated occurrence
        else:
            proto = _rand_occ(rng)
            pat = [proto] + [_variant(rng, proto) for _ in range(rng.randint(0, 2))]
        est.append(pat)
    k = rng.random()
    if k < .03:
        est = []
    elif k < .05:
        ref = []
    elif k < .07:
        est = [[[]]]
    return ref, est


def _pattern_class(ref, est, name, tol=None):
    if not S.pattern_inputs_are_point_sets(ref, est):
        return "pattern.*/occurrence-not-a-point-set"
    if name == "pattern.standard_FPR":
        a, b = S.pattern_standard_counts(ref, est, tol)
        if a != b:
            return "pattern.standard_FPR/asymmetric-match-counts"
    return "?"


def test_pattern(rng, n_cases=2200):
    Pm = mir_eval.pattern
    for it in range(n_cases):
        ref, est = _rand_patterns(rng)
        if it % 40 == 0 and ref and ref[0]:
            # a repeated point inside an occurrence (not a point set)
            ref[0][0] = list(ref[0][0]) + [ref[0][0][0]]
        show = lambda: "ref=%r est=%r" % (ref, est)  # noqa
        tol = rng.choice([1e-5, 1e-5, 1 / 64, 1 / 1024, 0.5])
        T.record("pattern.standard_FPR",
                 _call(Pm.standard_FPR, ref, est, tol),
                 _call(S.pattern_standard_FPR, ref, est, tol),
                 lambda: _pattern_class(ref, est, "pattern.standard_FPR", tol),
                 lambda: show() + " tol=%r" % tol)
        T.record("pattern.establishment_FPR",
                 _call(Pm.establishment_FPR, ref, est),
                 _call(S.pattern_establishment_FPR, ref, est),
                 lambda: _pattern_class(ref, est, "e"), show)
        thres = rng.choice([0.75, 0.75, 0.5, 0.6, 2 / 3, 1.0, 0.25])
        T.record("pattern.occurrence_FPR",
                 _call(Pm.occurrence_FPR, ref, est, thres),
                 _call(S.pattern_occurrence_FPR, ref, est, thres),
                 lambda: _pattern_class(ref, est, "o"),
                 lambda: show() + " thres=%r" % thres)
        T.record("pattern.three_layer_FPR",
                 _call(Pm.three_layer_FPR, ref, est),
                 _call(S.pattern_three_layer_FPR, ref, est),
                 lambda: _pattern_class(ref, est, "t"), show)
        n = rng.choice([1, 2, 3, 5, 5, 10])
        T.record("pattern.first_n_three_layer_P",
                 _call(Pm.first_n_three_layer_P, ref, est, n),
                 _call(S.pattern_first_n_three_layer_P, ref, est, n),
                 lambda: _pattern_class(ref, est, "f"),
                 lambda: show() + " n=%r" % n)
        T.record("pattern.first_n_target_proportion_R",
                 _call(Pm.first_n_target_proportion_R, ref, est, n),
                 _call(S.pattern_first_n_target_proportion_R, ref, est, n),
                 lambda: _pattern_class(ref, est, "f"),
                 lambda: show() + " n=%r" % n)


# --------------------------------------------------------------------------
# segment labelling scores
# --------------------------------------------------------------------------
def _frames_to_intervals(rng, labels):
    """contiguous labelled intervals, one frame per unit second; runs of equal
    labels are merged at random."""
    ivals, labs = [], []
    start = 0
    for k in range(1, len(labels) + 1):
        if k == len(labels) or labels[k] != labels[k - 1] or rng.random() < .3:
            ivals.append([float(start), float(k)])
            labs.append(labels[start])
            start = k
    return np.array(ivals), labs


def _rand_labelling(rng, n):
    k = rng.random()
    if k < .08:
        return ["a"] * n
    if k < .16:
        return ["s%d" % i for i in range(n)]
    alpha = "abcdef"[: rng.randint(1, 6)]
    if k < .6:
        # segment-like: runs
        out = []
        while len(out) < n:
            out.extend([rng.choice(alpha)] * rng.randint(1, max(1, n // 3)))
        return out[:n]
    return [rng.choice(alpha) for _ in range(n)]


def test_cluster(rng, n_cases=2200):
    Sg = mir_eval.segment
    for _ in range(n_cases):
        n = rng.choice([1, 2, 3, 4, 5]) if rng.random() < .2 else rng.randint(2, 40)
        ref = _rand_labelling(rng, n)
        if rng.random() < .15:
            perm = dict(zip("abcdef", rng.sample("uvwxyz", 6)))
            est = [perm.get(c, c + "_") for c in ref]
        else:
            est = _rand_labelling(rng, n)
        ri, rl = _frames_to_intervals(rng, ref)
        ei, el = _frames_to_intervals(rng, est)
        # the library folds case; hand it mixed case, the oracle gets lower
        rl_lib = [s.upper() if rng.random() < .3 else s for s in rl]
        beta = rng.choice([1.0, 1.0, 0.5, 2.0])
        show = lambda: "ref=%r est=%r beta=%r" % ("".join(ref) if len(ref[0]) == 1 else ref,  # noqa
                                                  "".join(est) if len(est[0]) == 1 else est, beta)
        single = len(set(ref)) == 1 or len(set(est)) == 1
        singletons = C.ami_is_undefined(ref, est)
        args = (ri, rl_lib, ei, el)
        T.record("segment.pairwise",
                 _call(Sg.pairwise, *args, frame_size=1.0, beta=beta),
                 _call(C.pairwise, ref, est, beta), lambda: "?", show)
        T.record("segment.rand_index",
                 _call(Sg.rand_index, *args, frame_size=1.0),
                 _call(C.rand_index, ref, est), lambda: "?", show)
        T.record("segment.ari",
                 _call(Sg.ari, *args, frame_size=1.0),
                 _call(C.ari, ref, est), lambda: "?", show)
        # MI / AMI / NMI: NMI tolerance 1e-5 when one side has a single label
        lib = _call(Sg.mutual_information, *args, frame_size=1.0)
        ora = _call(C.mutual_information, ref, est)
        if single and lib[0] == "ok" and ora[0] == "ok" and \
                _same(lib[1][:2], ora[1][0][:2]) and _same(lib[1][2], ora[1][0][2], 1e-5):
            lib = ("ok", ora[1][0])
        T.record("segment.mutual_information", lib, ora,
                 lambda: "segment.mutual_information/AMI-all-singletons" if singletons else "?",
                 show)
        marg = rng.random() < .5
        T.record("segment.nce",
                 _call(Sg.nce, *args, frame_size=1.0, beta=beta, marginal=marg),
                 _call(C.nce, ref, est, beta, marg), lambda: "?",
                 lambda: show() + " marginal=%r" % marg)
        T.record("segment.vmeasure",
                 _call(Sg.vmeasure, *args, frame_size=1.0, beta=beta),
                 _call(C.vmeasure, ref, est, beta), lambda: "?", show)


# --------------------------------------------------------------------------
# hierarchy
# --------------------------------------------------------------------------
def _rand_hierarchy(rng, end, den, n_levels, alphabet):
    """levels on a 1/den lattice from 0 to end; deeper levels usually refine."""
    grid = [k / den for k in range(1, int(end * den))]
    ivals_h, labs_h = [], []
    bounds = set()
    for lev in range(n_levels):
        if lev and rng.random() < .15:
            bounds = set()  # inconsistent level (not a refinement)
        k = rng.randint(0, min(len(grid), 2 + 2 * lev))
        bounds = set(bounds) | set(rng.sample(grid, k)) if grid else set()
        b = [0.0] + sorted(bounds) + [end]
        ivals = np.array([[b[i], b[i + 1]] for i in range(len(b) - 1)])
        labs = [rng.choice(alphabet) for _ in range(len(ivals))]
        ivals_h.append(ivals)
        labs_h.append(labs)
    return ivals_h, labs_h


def _hier_class(ref_i, est_i, fs, window):
    if H.float_frame_hazard([ref_i, est_i], fs, window):
        return "hierarchy/float-frame-index"
    for h in (ref_i, est_i):
        if len(h) == 1 and float(np.min(h[0])) != 0.0:
            return "hierarchy/single-level-not-validated"
    return "?"


def test_hierarchy(rng, n_cases=600):
    Hm = mir_eval.hierarchy
    alphabet = ["a", "b", "c", "A", "B"]
    for it in range(n_cases):
        fs = rng.choice([0.25, 0.5, 1.0])
        end = rng.randint(2, 48) / 4
        if rng.random() < .1:
            end = rng.randint(1, 6) / 4  # very few frames (0, 1, 2 ..)
        ref_i, ref_l = _rand_hierarchy(rng, end, 4, rng.randint(1, 3), alphabet)
        est_end = end
        if rng.random() < .05:
            est_end = end + rng.choice([0.25, 1.0])  # usually a frame mismatch
        est_i, est_l = _rand_hierarchy(rng, est_end, 4, rng.randint(1, 3), alphabet)
        window = rng.choice([None, 15.0, 1.0, 2.0, 0.5, 3.25, 0.25])
        if rng.random() < .03:
            fs = rng.choice([0.0, -0.5])
        transitive = rng.random() < .5
        beta = rng.choice([1.0, 1.0, 0.5, 2.0])
        show = lambda: ("ref=%r est=%r transitive=%r window=%r frame_size=%r beta=%r" % (  # noqa
            [x.tolist() for x in ref_i], [x.tolist() for x in est_i],
            transitive, window, fs, beta))
        T.record("hierarchy.tmeasure",
                 _call(Hm.tmeasure, ref_i, est_i, transitive=transitive,
                       window=window, frame_size=fs, beta=beta),
                 _call(H.tmeasure, ref_i, est_i, transitive=transitive,
                       window=window, frame_size=fs, beta=beta),
                 lambda: _hier_class(ref_i, est_i, fs, window), show)
        T.record("hierarchy.lmeasure",
                 _call(Hm.lmeasure, ref_i, ref_l, est_i, est_l, frame_size=fs, beta=beta),
                 _call(H.lmeasure, ref_i, ref_l, est_i, est_l, frame_size=fs, beta=beta),
                 lambda: _hier_class(ref_i, est_i, fs, None),
                 lambda: show() + " ref_labels=%r est_labels=%r" % (ref_l, est_l))


def test_hierarchy_decimal(rng, n_cases=150):
    """frame_size = 0.1 with boundaries on a 0.05 lattice shifted off the grid
    (x.x25 / x.x75): every boundary is 0.025 s away from the frame grid, so the
    margin is comfortable, yet the library mis-places boundaries."""
    Hm = mir_eval.hierarchy
    for it in range(n_cases):
        end = rng.randint(10, 50) / 10 + 0.025
        def level(k):  # noqa
            cut = sorted(set(rng.randint(1, int(end * 10) - 1) / 10 + rng.choice([0.025, 0.075])
                             for _ in range(k)))
            cut = [c for c in cut if c < end]
            b = [0.0] + cut + [end]
            return np.array([[b[i], b[i + 1]] for i in range(len(b) - 1)])
        ref_i = [level(1), level(3)]
        est_i = [level(2), level(4)]
        window = rng.choice([None, 1.05, 2.55])
        show = lambda: "ref=%r est=%r window=%r frame_size=0.1" % (  # noqa
            [x.tolist() for x in ref_i], [x.tolist() for x in est_i], window)
        T.record("hierarchy.tmeasure[frame_size=0.1]",
                 _call(Hm.tmeasure, ref_i, est_i, window=window, frame_size=0.1),
                 _call(H.tmeasure, ref_i, est_i, window=window, frame_size=0.1),
                 lambda: _hier_class(ref_i, est_i, 0.1, window), show)


def test_hierarchy_offlattice(rng, n_per_size=70):
    """boundaries with three decimals (not on any frame lattice): for short
    binary-fraction frame sizes the rounding is exact in floating point, so
    the margin is inf and the results must agree; for 0.1 / 0.3 every
    disagreement must be explained by float_frame_hazard()."""
    Hm = mir_eval.hierarchy

    def hier(end, n_levels):
        out, cuts = [], set()
        for _ in range(n_levels):
            cuts = cuts | {round(rng.uniform(0, end), 3) for _ in range(rng.randint(0, 3))}
            b = [0.0] + sorted(x for x in cuts if 0 < x < end) + [end]
            out.append(np.array([[b[i], b[i + 1]] for i in range(len(b) - 1)]))
        return out

    for fs in (0.25, 0.5, 0.75, 0.1, 0.3):
        for _ in range(n_per_size):
            end = round(rng.uniform(1, 6), 3)
            ref_i = hier(end, rng.randint(1, 3))
            est_i = hier(end, rng.randint(1, 3))
            window = rng.choice([None, 15.0, 1.0, 2.5])
            transitive = rng.random() < .5
            show = lambda: "ref=%r est=%r transitive=%r window=%r frame_size=%r" % (  # noqa
                [x.tolist() for x in ref_i], [x.tolist() for x in est_i],
                transitive, window, fs)
            T.record("hierarchy.tmeasure[off-lattice, fs=%g]" % fs,
                     _call(Hm.tmeasure, ref_i, est_i, transitive=transitive,
                           window=window, frame_size=fs),
                     _call(H.tmeasure, ref_i, est_i, transitive=transitive,
                           window=window, frame_size=fs),
                     lambda: _hier_class(ref_i, est_i, fs, window), show)


def test_hierarchy_unvalidated(rng, n_cases=40):
    """single-level hierarchies that do not start at 0"""
    Hm = mir_eval.hierarchy
    for it in range(n_cases):
        start = rng.randint(1, 8) / 4
        end = start + rng.randint(4, 24) / 4
        mid = sorted(set(rng.randint(int(start * 4) + 1, int(end * 4) - 1) / 4 for _ in range(3)))
        b = [start] + mid + [end]
        h = [np.array([[b[i], b[i + 1]] for i in range(len(b) - 1)])]
        show = lambda: "ref=est=%r" % [x.tolist() for x in h]  # noqa
        T.record("hierarchy.tmeasure[one level, start>0]",
                 _call(Hm.tmeasure, h, h, window=2.0, frame_size=0.5),
                 _call(H.tmeasure, h, h, window=2.0, frame_size=0.5),
                 lambda: _hier_class(h, h, 0.5, 2.0), show)


# --------------------------------------------------------------------------
def main():
    t0 = time.time()
    rng = random.Random(20240607)
    steps = [test_tempo, test_key, test_alignment, test_pattern, test_cluster,
             test_hierarchy, test_hierarchy_decimal, test_hierarchy_offlattice,
             test_hierarchy_unvalidated]
    for step in steps:
        t1 = time.time()
        step(rng)
        print("  [%s: %.1f s]" % (step.__name__, time.time() - t1), file=sys.stderr)
    bad = T.report()
    print()
    print("total time %.1f s; unexplained disagreements: %d" % (time.time() - t0, bad))
    return 1 if bad else 0


if __name__ == "__main__":
    sys.exit(main())
