"""Independent reference specification for mir_eval.hierarchy.tmeasure and
lmeasure (McFee, Nieto, Farbood & Bello 2017, as documented in hierarchy.py),
by brute force over frame triples.

Nothing here imports mir_eval.  Frame indices are exact integers obtained with
fractions.Fraction from the exact values of the input floats; depths are found
by scanning every segment of every level for every frame pair; the ranking
scores enumerate every ordered pair (i, j) of result frames for every query
frame q.  Cost O(n^3) in the number of frames - meant for n <= ~60.

Definitions implemented
-----------------------
Frames.  A time t lies in frame floor(t / frame_size) ("t - (t mod
frame_size)", counted from time 0).  A hierarchy spanning [t_min, t_max] (the
smallest / largest boundary over all levels) has
n = floor(t_max/frame_size) - floor(t_min/frame_size) frames 0 .. n-1, and a
segment [a, b] consists of the frames floor(a/fs) <= k < floor(b/fs).

Depth.  T-measure: depth(q, i) is the deepest level (1 = top) "such that
(q, i) are contained within a single segment at that level"; 0 if there is
none.  L-measure: the deepest level at which the segments containing q and i
carry the same label (labels compared case-insensitively, as strings).

Ranking score ("GAUC").  For a query frame q the result frames are the frames
i != q with q - w <= i < q + w  (w = floor(window / frame_size) frames;
window=None and the L-measure use all frames).  The reference orders a pair
of result frames (i, j) when
    transitive=True :  depth_ref(q, i) >  depth_ref(q, j)
                       ("can differ by any number of levels")
    transitive=False:  depth_ref(q, i) == depth_ref(q, j) + 1
                       ("can differ by exactly one level")
The pair is an inversion unless depth_est(q, i) > depth_est(q, j) strictly
("ref[i] < ref[j] but est[i] >= est[j]").  A query with at least one ordered
pair contributes 1 - inversions/pairs; the score is the mean over those
queries, 0 if there is none ("take the convention 0/0 -> 0").
recall = score(reference orders, estimate judged); precision swaps the roles;
F = f_measure(precision, recall, beta).  The L-measure is always transitive
and un-windowed.

Errors (ValueError): frame_size <= 0; frame_size > window; a level that does
not start at 0 or does not end where the top level ends; malformed intervals;
different numbers of frames in reference and estimate.

Margin
------
``margin`` is the smallest distance |d - t| over the threshold comparisons
whose outcome a floating-point evaluation could legitimately flip:
  * when k * frame_size is not exactly representable for the frame indices k
    in play (frame_size is not a short binary fraction, e.g. 0.1): the
    distance (seconds) of every interval boundary that is not exactly on the
    frame grid to the nearest grid point;
  * under the same condition, the distance of ``window`` to the nearest grid
    point - only when the alternative window length would change some query's
    result set (i.e. the window does not cover all frames either way);
  * for a level that does not start exactly at 0 / end exactly where the top
    level ends: the distance of the discrepancy to the (undocumented,
    numpy.allclose-like) tolerance of that validation, 1e-8 + 1e-5*|end|.
Exactly-on-grid values are ties decided exactly (they open the frame they
touch) and cost nothing.  ``inf`` if nothing of the above applies.

Extra helper: float_frame_hazard() tells whether the documented rounding
formula, evaluated naively in double precision, mis-places some boundary (the
library's known weakness for frame sizes such as 0.1, independent of how far
the boundary is from the grid).
"""

from fractions import Fraction
import math

import numpy as np

INF = float("inf")

# tolerance of the 'start at 0' / 'same end' validation (numpy.allclose
# defaults, which is what "start at 0" / "span the full duration" are checked
# with): |x - y| <= ATOL + RTOL * |y|
_ATOL = Fraction(1, 10 ** 8)
_RTOL = Fraction(1, 10 ** 5)


def _fr(x):
    if isinstance(x, (int, np.integer)):
        return Fraction(int(x))
    return Fraction(float(x))


def _f_measure(p, r, beta=1.0):
    """util.f_measure: 0 if both 0, else (1+b^2) p r / (b^2 p + r)."""
    if p == 0 and r == 0:
        return Fraction(0)
    b2 = _fr(beta) ** 2
    return (1 + b2) * p * r / (b2 * p + r)


# --------------------------------------------------------------------------
# frames
# --------------------------------------------------------------------------
def _frame(t, fs):
    """Index of the frame containing time t: floor(t / frame_size), exact."""
    return math.floor(_fr(t) / fs)


def _grid_is_exact(fs, kmax):
    """True when k * frame_size is exactly representable in double precision
    for all 0 <= k <= kmax: frame_size = m / 2^e with m odd and
    bits(m) + bits(kmax) <= 53.  Then 't mod frame_size', the subtraction and
    the division by frame_size are all exact in floating point."""
    m = fs.numerator  # Fraction of a float: denominator is a power of two
    return m.bit_length() + max(int(kmax), 1).bit_length() <= 53


def _grid_distance(t, fs):
    """Distance of t to the nearest multiple of frame_size (0 if on grid)."""
    r = _fr(t) % fs
    return min(r, fs - r)


def _levels(intervals_hier):
    """-> list (level) of lists of (start, end) as Fractions; validates shape,
    sign and strictly positive durations."""
    out = []
    for ivals in intervals_hier:
        arr = np.asarray(ivals, dtype=float)
        if arr.ndim != 2 or arr.shape[1] != 2:
            raise ValueError("Intervals should be n-by-2")
        segs = []
        for a, b in arr:
            if not (math.isfinite(a) and math.isfinite(b)):
                raise ValueError("non-finite interval times")
            if a < 0 or b < 0:
                raise ValueError("Negative interval times found")
            if b <= a:
                raise ValueError("All interval durations must be strictly positive")
            segs.append((Fraction(float(a)), Fraction(float(b))))
        out.append(segs)
    return out


def _validate_span(levels, margin):
    """ "If any segmentation does not span the full duration of the top-level
    segmentation.  If any segmentation does not start at 0." -> ValueError.
    Returns the updated margin (distance to the validation tolerance)."""
    if not levels or not levels[0]:
        raise ValueError("empty hierarchy")
    top_end = max(b for _, b in levels[0])
    for segs in levels:
        if not segs:
            raise ValueError("empty level")
        lo = min(a for a, _ in segs)
        hi = max(b for _, b in segs)
        # exact agreement (start exactly 0, end exactly the top level's end) is
        # valid under any tolerance and costs no margin; otherwise the
        # distance to the assumed tolerance is reported
        if lo > _ATOL:
            raise ValueError("Segment intervals do not start at 0")
        if lo != 0 and lo != _ATOL:
            margin = min(margin, float(abs(lo - _ATOL)))
        tol = _ATOL + _RTOL * abs(hi)
        d = abs(hi - top_end)
        if d > tol:
            raise ValueError("End times do not match")
        if d != 0 and d != tol:
            margin = min(margin, float(abs(d - tol)))
    return margin


def _n_frames(levels, fs):
    bounds = [x for segs in levels for ab in segs for x in ab]
    return _frame(max(bounds), fs) - _frame(min(bounds), fs)


def _frame_sets(levels, fs, n):
    """per level: list of (first frame, one-past-last frame) per segment,
    clipped to the n existing frames."""
    out = []
    for segs in levels:
        out.append([(max(_frame(a, fs), 0), min(_frame(b, fs), n)) for a, b in segs])
    return out


# --------------------------------------------------------------------------
# depth tables
# --------------------------------------------------------------------------
def _depth_same_segment(frames_by_level, n):
    """D[q][i] = deepest level with a single segment containing frames q and
    i (0 if none)."""
    D = [[0] * n for _ in range(n)]
    for q in range(n):
        for i in range(n):
            best = 0
            for level, segs in enumerate(frames_by_level, 1):
                for lo, hi in segs:
                    if lo <= q < hi and lo <= i < hi:
                        best = max(best, level)
                        break
            D[q][i] = best
    return D


def _depth_same_label(frames_by_level, labels_hier, n):
    """D[q][i] = deepest level at which some segment containing q and some
    segment containing i carry the same (case-folded) label."""
    D = [[0] * n for _ in range(n)]
    for level, (segs, labs) in enumerate(zip(frames_by_level, labels_hier), 1):
        labs = [str(s).lower() for s in labs]
        if len(labs) != len(segs):
            raise ValueError("Number of intervals does not match number of labels")
        # labels seen at each frame on this level
        at = [set() for _ in range(n)]
        for (lo, hi), lab in zip(segs, labs):
            for k in range(lo, hi):
                at[k].add(lab)
        for q in range(n):
            for i in range(n):
                if at[q] & at[i]:
                    D[q][i] = level  # levels visited in increasing order
    return D


# --------------------------------------------------------------------------
# ranking score
# --------------------------------------------------------------------------
def _ranking_score(D_ref, D_est, n, transitive, w):
    """Mean over query frames of the fraction of reference-ordered result
    pairs that the estimate orders the same way (strictly)."""
    total = Fraction(0)
    counted = 0
    for q in range(n):
        if w is None:
            results = [i for i in range(n) if i != q]
        else:
            # "result frames are only counted within q +- window"
            results = [i for i in range(max(0, q - w), min(n, q + w)) if i != q]
        pairs = 0
        inversions = 0
        for i in results:
            ri, ei = D_ref[q][i], D_est[q][i]
            for j in results:
                rj = D_ref[q][j]
                if transitive:
                    ordered = ri > rj
                else:
                    ordered = ri == rj + 1
                if ordered:
                    pairs += 1
                    if not ei > D_est[q][j]:
                        inversions += 1
        if pairs:
            total += 1 - Fraction(inversions, pairs)
            counted += 1
    if counted == 0:
        return Fraction(0)
    return total / counted


# --------------------------------------------------------------------------
# margins
# --------------------------------------------------------------------------
def _quantisation_margin(all_levels, fs, n, window, margin):
    bounds = [x for levels in all_levels for segs in levels for ab in segs for x in ab]
    kmax = max([_frame(b, fs) for b in bounds] + [1]) + 1
    w = None
    if window is not None:
        w = _frame(window, fs)
        kmax = max(kmax, w + 1)
    if _grid_is_exact(fs, kmax):
        return margin, w
    for b in bounds:
        d = _grid_distance(b, fs)
        if d != 0:
            margin = min(margin, float(d))
    if window is not None:
        r = _fr(window) % fs
        if r != 0:
            # nearest alternative window length, and whether it matters:
            # windows of >= n frames all select every frame
            if r <= fs - r:
                d, w_alt = r, w - 1
            else:
                d, w_alt = fs - r, w + 1
            if min(w, w_alt) < n:
                margin = min(margin, float(d))
    return margin, w


def float_frame_hazard(intervals_hiers, frame_size, window=None):
    """True when the documented rounding rule 't - (t mod frame_size)', then
    '/ frame_size', evaluated naively in double precision, yields a frame
    index different from the exact floor(t / frame_size) for some interval
    boundary of the given hierarchies (an iterable of hierarchies) or for the
    window.  Such inputs are where a floating-point implementation and this
    oracle may disagree even though no boundary is near the frame grid."""
    fs_f = float(frame_size)
    fs = Fraction(fs_f)
    ts = []
    for hier in intervals_hiers:
        for ivals in hier:
            ts.extend(float(x) for x in np.asarray(ivals, dtype=float).ravel())
    if window is not None:
        ts.append(float(window))
    for t in ts:
        naive = int((t - math.fmod(t, fs_f)) / fs_f)
        if naive != _frame(t, fs):
            return True
    return False


# --------------------------------------------------------------------------
# public functions
# --------------------------------------------------------------------------
def _common(reference_intervals_hier, estimated_intervals_hier, frame_size, window):
    if frame_size <= 0:
        raise ValueError("frame_size must be a positive number.")
    if window is not None and frame_size > window:
        raise ValueError("frame_size cannot exceed window")
    fs = _fr(frame_size)
    ref_levels = _levels(reference_intervals_hier)
    est_levels = _levels(estimated_intervals_hier)
    margin = INF
    margin = _validate_span(ref_levels, margin)
    margin = _validate_span(est_levels, margin)
    n_ref = _n_frames(ref_levels, fs)
    n_est = _n_frames(est_levels, fs)
    margin, w = _quantisation_margin([ref_levels, est_levels], fs,
                                     max(n_ref, n_est), window, margin)
    if n_ref != n_est:
        # "If the input hierarchies have different time durations"
        raise ValueError("Estimated and reference hierarchies must have the "
                         "same shape.")
    n = n_ref
    return (_frame_sets(ref_levels, fs, n), _frame_sets(est_levels, fs, n),
            n, w, margin)


def tmeasure(reference_intervals_hier, estimated_intervals_hier,
             transitive=False, window=15.0, frame_size=0.1, beta=1.0):
    """((t_precision, t_recall, t_measure), margin)."""
    ref_fr, est_fr, n, w, margin = _common(
        reference_intervals_hier, estimated_intervals_hier, frame_size, window)
    D_ref = _depth_same_segment(ref_fr, n)
    D_est = _depth_same_segment(est_fr, n)
    recall = _ranking_score(D_ref, D_est, n, bool(transitive), w)
    precision = _ranking_score(D_est, D_ref, n, bool(transitive), w)
    f = _f_measure(precision, recall, beta)
    return (float(precision), float(recall), float(f)), margin


def lmeasure(reference_intervals_hier, reference_labels_hier,
             estimated_intervals_hier, estimated_labels_hier,
             frame_size=0.1, beta=1.0):
    """((l_precision, l_recall, l_measure), margin)."""
    ref_fr, est_fr, n, _, margin = _common(
        reference_intervals_hier, estimated_intervals_hier, frame_size, None)
    D_ref = _depth_same_label(ref_fr, reference_labels_hier, n)
    D_est = _depth_same_label(est_fr, estimated_labels_hier, n)
    recall = _ranking_score(D_ref, D_est, n, True, None)
    precision = _ranking_score(D_est, D_ref, n, True, None)
    f = _f_measure(precision, recall, beta)
    return (float(precision), float(recall), float(f)), margin
