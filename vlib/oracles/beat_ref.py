"""Reference models ("oracles") for mir_eval.beat:

    f_measure, cemgil, goto, p_score, continuity, information_gain

written from the documented definitions (module docstring, function docstrings
and the definition-stating comments of /repo/mir_eval/beat.py, i.e. Davies,
Degara & Plumbley, "Evaluation Methods for Musical Audio Beat Tracking
Algorithms", as mir_eval documents it).  Nothing here imports mir_eval or numpy;
algorithms are deliberately different from the library's (exact rationals,
brute-force pair tests, Kuhn matching, pair counting instead of correlation,
closed-form mid-points instead of interpolation).

Interface: same names / parameters / defaults as the library; every function
returns ``(value, margin)`` -- see :mod:`vlib.oracles.event_ref` for the meaning
of ``margin`` and for the rule on exact ties (trusted only on dyadic inputs).

Beat arrays are assumed valid in the sense of ``beat.validate`` (1-d, sorted
increasingly, possibly with repeated times).

Conventions learnt from the library where the prose is silent
------------------------------------------------------------
* Metrical variations: original; off-beat = mid-points of consecutive beats;
  double = original interleaved with the mid-points; half-odd = beats 0,2,4,..;
  half-even = beats 1,3,5,...
* continuity: the success vector has length max(#annotations of the variation,
  #estimated beats) and BOTH accuracies are divided by that length (as in the
  Beat Evaluation Toolbox), not by the number of estimated beats.
* goto: the first and the last annotation never get a window, keep error 1 and
  therefore always count as incorrect (for goto_threshold < 1); the track whose
  mean/std is tested is sliced exactly as the published procedure does (see
  :func:`goto`).
* information_gain: errors are wrapped with ``mod(x + .5, -1) + .5``, i.e. onto
  (-0.5, 0.5]; an error of exactly +-0.5 is +0.5 and lands in the last bin.
"""

from fractions import Fraction
import math

from .event_ref import (INF, NAN, Margin, count_hits, dist_to_half_integer,
                        float_exact, fr, fr_list, on_lattice, prf,
                        round_half_even)

#: Inputs on which the library deviates from its documented definition
#: (name -> structural predicate on the input + what happens).
KNOWN_LIBRARY_DEVIATIONS = {
    "information_gain/first-annotation-interval (D13)":
        "beat._get_entropy tests `if closest_beat == 0` and then "
        "`if closest_beat == last ... else ...` (second `if` should be `elif`), "
        "so the interval chosen for a first-annotation hit is overwritten by "
        "the generic branch.  Structural predicate: in the forward direction "
        "some estimated beat b satisfies b < reference_beats[0] (then its "
        "nearest annotation is index 0 and its signed error is negative), or, "
        "in the backward direction, some reference beat r satisfies "
        "r < estimated_beats[0].  For such a beat the library normalises by "
        "0.5*(ann[0] - ann[-1]) (a negative, track-long 'interval', via index "
        "-1 wrap-around) instead of 0.5*(ann[1] - ann[0]).  The score differs "
        "whenever that changes the histogram bin of the beat.  Predicate "
        "function: information_gain_deviation_class().",
    "information_gain/zero-interval (D18)":
        "Repeated beat times make the normalising inter-annotation interval 0, "
        "the documented error is 0/0 or x/0 (undefined): the oracle returns "
        "NaN.  The library propagates NaN/inf into numpy.histogram and either "
        "raises ValueError or returns a finite number computed from the "
        "remaining beats.  Structural predicate: the interval selected by the "
        "exclusive first/last/previous/next rule for some beat (either "
        "direction) has length 0, i.e. the annotation nearest to some beat has "
        "an equal-time neighbour on the selected side.",
    "p_score/single-bin reference (D14)":
        "All reference beats fall into one 10 ms bin after re-basing (e.g. all "
        "reference times equal): there is no inter-annotation interval, the "
        "median is NaN; the oracle returns NaN, the library raises ValueError "
        "from int(round(nan)).",
}

#: Behaviour that looks unintended but is part of the published *procedure*; the
#: oracle reproduces it (so it raises no alarm) -- listed for the record.
SUSPECTED_DEFECTS_NOT_ENFORCED = {
    "goto/track-slice":
        "With fewer than 3 incorrect annotations (i.e. every inner annotation "
        "is correct) the tested track is error[first_incorrect+1 : "
        "last_incorrect-1], which drops the last correct inner annotation: a "
        "perfect estimate of a 3- or 4-beat reference scores 0 (track of "
        "length 0 / 1 has NaN statistics), 5 beats are needed for a 1.  With 3 "
        "or more incorrect annotations the track error[start : end+1] INCLUDES "
        "the two incorrect annotations that delimit it (|error| > threshold, "
        "usually 1), which inflates mean and sample std: reference 0..13 s, "
        "estimate with beat 1 removed, has 11 consecutive exact beats but "
        "scores 0 (std 0.376 > 0.2).  The docstring speaks of 'the beat errors "
        "in the continuously correct track'.",
    "goto/end-annotations":
        "The comment says 'first and last will be 0 so always correct' but the "
        "errors are initialised to 1, so the first and last annotation are "
        "always incorrect for goto_threshold < 1.",
    "p_score/window-larger-than-train":
        "For p_score_threshold > 1 the window can exceed the train length; the "
        "library's slice start then becomes negative and wraps around.  The "
        "oracle counts all pairs with |lag| <= window.  Not exercised "
        "(documented thresholds are fractions of the interval).",
}

_HALF = Fraction(1, 2)


# --------------------------------------------------------------------------
# helpers
# --------------------------------------------------------------------------

def _variations(ref):
    """"Return metric variations of the reference beats": original, off-beat
    ("180 degrees out of phase from the original beat locations"), double
    ("beats at 2x the original tempo"), half-odd ("half tempo, odd beats"),
    half-even ("half tempo, even beats")."""
    mids = [(a + b) / 2 for a, b in zip(ref[:-1], ref[1:])]
    double = []
    for i, r in enumerate(ref):
        double.append(r)
        if i < len(mids):
            double.append(mids[i])
    return [list(ref), mids, double, list(ref[0::2]), list(ref[1::2])]


def _nearest(b, anns, mg):
    """Index of the annotation nearest to b (the FIRST one among equidistant
    annotations, as numpy.argmin does) and its distance.  The choice is a
    discontinuity of the definition, so the gap to every competing annotation
    at a different time is recorded in the margin."""
    best, dbest = 0, abs(b - anns[0])
    for j in range(1, len(anns)):
        d = abs(b - anns[j])
        if d < dbest:
            best, dbest = j, d
    for j, a in enumerate(anns):
        if j != best and a != anns[best]:
            mg.see(abs(b - a), dbest)
    return best, dbest


# --------------------------------------------------------------------------
# f_measure
# --------------------------------------------------------------------------

def f_measure(reference_beats, estimated_beats, f_measure_threshold=0.07):
    """"an estimated beat is considered correct if it is sufficiently close to a
    reference beat" -- F-measure of a maximum one-to-one matching under
    |r - e| <= f_measure_threshold.  "When estimated beats are empty, no beats
    are correct; metric is 0" (same for empty references)."""
    ref, est = fr_list(reference_beats), fr_list(estimated_beats)
    if not ref or not est:
        return 0.0, INF
    w = fr(f_measure_threshold)
    mg = Margin(on_lattice(ref, est, w))
    hits = count_hits(ref, est, w, mg)
    return prf(hits, len(ref), len(est))[2], mg.value


# --------------------------------------------------------------------------
# cemgil
# --------------------------------------------------------------------------

def cemgil(reference_beats, estimated_beats, cemgil_sigma=0.04):
    """"Cemgil's score, computes a gaussian error of each estimated beat.
    Compares against the original beat times and all metrical variations."

    For a variation V: sum over annotations a in V of
    exp(-d(a)^2 / (2 sigma^2)), d(a) = distance to the closest estimated beat,
    normalised by (|est| + |V|)/2.  Returns (score on the original annotations,
    best score over the five variations).  No threshold: margin = inf."""
    ref, est = fr_list(reference_beats), fr_list(estimated_beats)
    if not ref or not est:
        return (0.0, 0.0), INF
    two_s2 = 2 * fr(cemgil_sigma) ** 2
    scores = []
    for var in _variations(ref):
        terms = []
        for a in var:
            d = min(abs(a - e) for e in est)
            if two_s2 == 0:
                # exp(-0/0) undefined, exp(-x/0) = 0
                terms.append(NAN if d == 0 else 0.0)
            else:
                terms.append(math.exp(-float(d * d / two_s2)))
        scores.append(math.fsum(terms) / (0.5 * (len(est) + len(var))))
    best = NAN if any(math.isnan(s) for s in scores) else max(scores)
    return (scores[0], best), INF


# --------------------------------------------------------------------------
# goto
# --------------------------------------------------------------------------

def goto(reference_beats, estimated_beats, goto_threshold=0.35, goto_mu=0.2,
         goto_sigma=0.2):
    """Goto's score: "a binary score which is 1 when at least 25% of the
    estimated beat sequence closely matches the reference beat sequence".

    Procedure (Davies et al. / comments of beat.goto), for N annotations:
      1. Every annotation starts with error 1.  Each inner annotation n
         (0 < n < N-1) owns the window [mid(n-1, n), mid(n, n+1))  ("window
         start - in the middle of the current beat and the previous", "window
         end - in the middle of the current beat and the next"; beats with
         ``>= window_min`` and ``< window_max`` are inside).
      2. Zero or several beats in the window: "false negative/positive", the
         error stays 1.  Exactly one: error = offset / half previous interval
         if offset < 0 else offset / half next interval.
      3. Annotation n is incorrect iff |error| > goto_threshold.
      4. Fewer than 3 incorrect annotations: the track is
         error[first_incorrect + 1 : last_incorrect - 1] (end exclusive) and
         the length criterion holds.  Otherwise take the first largest gap
         between consecutive incorrect annotations; the length criterion is
         "track_len - 1 > 0.25 * (N - 2)" and the track is the error slice from
         the gap's first to its last incorrect annotation, both included.
      5. Score 1 iff the length criterion holds and mean(|track|) < goto_mu and
         std(track, ddof=1) < goto_sigma  (NaN statistics of a too short track
         compare false).
    """
    ref, est = fr_list(reference_beats), fr_list(estimated_beats)
    if not ref or not est:
        return 0.0, INF
    thr, mu, sigma = fr(goto_threshold), fr(goto_mu), fr(goto_sigma)
    mg = Margin(on_lattice(ref, est))        # window-edge ties: times only
    lat_thr = mg.trusted and on_lattice(thr)
    lat_mu = mg.trusted and on_lattice(mu)
    n_ref = len(ref)
    err = [Fraction(1)] * n_ref
    for n in range(1, n_ref - 1):
        lo = (ref[n - 1] + ref[n]) / 2
        hi = (ref[n] + ref[n + 1]) / 2
        inside = []
        for e in est:
            mg.see(e, lo)
            mg.see(e, hi)
            if lo <= e < hi:
                inside.append(e)
        if len(inside) == 1:
            off = inside[0] - ref[n]
            # a single beat in a non-empty window: the interval used is > 0
            half = (ref[n] - lo) if off < 0 else (hi - ref[n])
            err[n] = off / half
    incorrect = []
    for n in range(n_ref):
        mg.see(abs(err[n]), thr, trusted=lat_thr)
        if abs(err[n]) > thr:
            incorrect.append(n)
    if not incorrect:
        # only possible for goto_threshold >= 1: the procedure is undefined
        return NAN, mg.value
    track = None
    if len(incorrect) < 3:
        a, b = incorrect[0] + 1, incorrect[-1] - 1
        track = err[a:b] if b > a else []
    else:
        gaps = [q - p for p, q in zip(incorrect[:-1], incorrect[1:])]
        longest = max(gaps)
        k = gaps.index(longest)
        # integers against multiples of 1/4: never within rounding distance
        if 4 * (longest - 1) > (n_ref - 2):
            track = err[incorrect[k]:incorrect[k + 1] + 1]
    if track is None or len(track) == 0:
        return 0.0, mg.value
    mean_abs = sum(abs(x) for x in track) / len(track)
    # the library sums float quotients: a tie of the mean is only reproducible
    # if every error is itself a float
    mg.see(mean_abs, mu, trusted=lat_mu and all(float_exact(x) for x in track))
    if not mean_abs < mu:
        return 0.0, mg.value
    if len(track) < 2:
        return 0.0, mg.value          # sample std of one value is undefined
    m = sum(track) / len(track)
    var = sum((x - m) ** 2 for x in track) / (len(track) - 1)
    std = math.sqrt(float(var))
    if sigma > 0 and var == sigma * sigma:
        mg.value = 0.0                # square root tie: never reproducible
    else:
        # the library's standard deviation is a float sum followed by a square
        # root: even an exact-looking tie (std == sigma) is never reproducible
        mg.see(Fraction(std), sigma, trusted=False)
    ok = sigma > 0 and var < sigma * sigma
    return (1.0 if ok else 0.0), mg.value


# --------------------------------------------------------------------------
# p_score
# --------------------------------------------------------------------------

_FS = 100          # "Quantize beats to 10ms"


def p_score(reference_beats, estimated_beats, p_score_threshold=0.2):
    """McKinney's P-score: "the cross-correlation of the estimated and reference
    beat sequences represented as impulse trains".

    * "Shift beats so that the minimum in either sequence is zero";
    * impulse at sample ceil(t * 100) (10 ms grid); a train holds at most one
      impulse per sample, so beats sharing a bin count once;
    * window = round(p_score_threshold * median(inter-annotation intervals in
      samples)), the intervals being those of the reference impulse train;
    * P = (sum of the cross-correlation over lags -window..+window) /
      max(#reference beats, #estimated beats) (original beat counts).

    The sum of the correlation over the lags is the number of impulse pairs
    (i, j) with |ref_i - est_j| <= window, which is what is counted here.
    About "the middle element - rounding down on purpose": the 'full'
    correlation of two trains of equal length L has 2L-1 entries, an odd
    number, so (2L-1)//2 = L-1 is exactly lag 0 and the window is symmetric:
    neither lag sign is favoured.

    "When estimated or reference beats have <= 1 beats, can't compute the
    metric, so return 0".  If all reference beats share one bin there is no
    inter-annotation interval: undefined -> NaN."""
    ref, est = fr_list(reference_beats), fr_list(estimated_beats)
    if len(ref) <= 1 or len(est) <= 1:
        return 0.0, INF
    thr = fr(p_score_threshold)
    mg = Margin(on_lattice(ref, est))        # ceil ties: times only
    t0 = min(min(ref), min(est))

    def train(ts):
        idx = set()
        for t in ts:
            x = (t - t0) * _FS
            c = math.ceil(x)
            # distance to the nearest ceil boundary (an integer), in seconds
            # (t == t0 gives x == 0 exactly in any float arithmetic)
            mg.gap(min(x - math.floor(x), c - x) / _FS,
                   trusted=True if t == t0 else None)
            idx.add(c)
        return sorted(idx)

    r_idx, e_idx = train(ref), train(est)
    if len(r_idx) < 2:
        return NAN, mg.value
    diffs = sorted(b - a for a, b in zip(r_idx[:-1], r_idx[1:]))
    n = len(diffs)
    med = Fraction(diffs[n // 2]) if n % 2 else Fraction(diffs[n // 2 - 1] + diffs[n // 2], 2)
    x = thr * med
    win = round_half_even(x)
    mg.gap(dist_to_half_integer(x) / _FS, trusted=on_lattice(thr))
    pairs = sum(1 for i in r_idx for j in e_idx if abs(i - j) <= win)
    return pairs / float(max(len(ref), len(est))), mg.value


# --------------------------------------------------------------------------
# continuity
# --------------------------------------------------------------------------

_BIG = None        # stands for +infinity / undefined in phase and period


def _lt(x, t, mg, trusted):
    if x is _BIG:
        return False
    mg.see(x, t, trusted=trusted)
    return x < t


def _continuity_one(ann, est, phase_thr, period_thr, mg, lat_thr):
    """Success flag of every estimated beat against one annotation sequence.

    For estimated beat m with nearest annotation j (first of equals):
      * "Have we already used this annotation?" -> the beat fails;
      * "Is this the first beat or first annotation? If so, look forward":
        reference interval = ann[j+1]-ann[j] ("special case when nearest + 1 is
        too large - use the previous interval instead"), estimated interval =
        est[m+1]-est[m] (idem, previous one for the last beat); "special case
        when beats are not unique": a zero reference interval gives phase 1 if
        the beat sits on the annotation else infinity, and period 0 if the
        estimated interval is 0 as well else infinity;
      * otherwise look backward: reference interval = ann[j]-ann[j-1], estimated
        interval = est[m]-est[m-1] (a zero reference interval leaves phase and
        period undefined/infinite: the beat fails);
      * phase = |distance / reference interval|,
        period = |1 - estimated interval / reference interval|;
      * success iff phase < phase threshold and period < period threshold; then
        the annotation is marked used.
    A sequence with a single annotation has no interval: no beat succeeds."""
    n_ann, n_est = len(ann), len(est)
    used = [False] * n_ann
    flags = []
    for m, b in enumerate(est):
        ok = False
        if n_ann >= 2:
            j, dmin = _nearest(b, ann, mg)
            if not used[j]:
                if m == 0 or j == 0:
                    ref_int = ann[j + 1] - ann[j] if j + 1 < n_ann else ann[j] - ann[j - 1]
                    est_int = est[m + 1] - est[m] if m + 1 < n_est else est[m] - est[m - 1]
                    if ref_int == 0:
                        phase = Fraction(1) if dmin == 0 else _BIG
                        period = Fraction(0) if est_int == 0 else _BIG
                    else:
                        phase = abs(dmin / ref_int)
                        period = abs(1 - est_int / ref_int)
                else:
                    ref_int = ann[j] - ann[j - 1]
                    est_int = est[m] - est[m - 1]
                    if ref_int == 0:
                        phase = period = _BIG
                    else:
                        phase = abs(dmin / ref_int)
                        period = abs(1 - est_int / ref_int)
                ok = (_lt(phase, phase_thr, mg, lat_thr)
                      and _lt(period, period_thr, mg, lat_thr))
                if ok:
                    used[j] = True
        flags.append(ok)
    return flags


def _longest_run(flags):
    best = cur = 0
    for f in flags:
        cur = cur + 1 if f else 0
        best = max(best, cur)
    return best


def continuity(reference_beats, estimated_beats, continuity_phase_threshold=0.175,
               continuity_period_threshold=0.175):
    """(CMLc, CMLt, AMLc, AMLt): "how much of the estimated beat sequence is
    continually correct".

    For each metrical variation: continuous accuracy = "the longest track of
    successful beats" / L and total accuracy = number of successful beats / L,
    L = max(#annotations in the variation, #estimated beats).  CML* use the
    original annotations, AML* the maximum over the five variations.
    "When estimated or reference beats have <= 1 beats ... return 0"."""
    ref, est = fr_list(reference_beats), fr_list(estimated_beats)
    if len(ref) <= 1 or len(est) <= 1:
        return (0.0, 0.0, 0.0, 0.0), INF
    pt, qt = fr(continuity_phase_threshold), fr(continuity_period_threshold)
    mg = Margin(on_lattice(ref, est))        # nearest-annotation ties: times only
    lat_thr = mg.trusted and on_lattice(pt, qt)
    cont, tot = [], []
    for var in _variations(ref):
        flags = _continuity_one(var, est, pt, qt, mg, lat_thr)
        length = max(len(var), len(est))
        cont.append(Fraction(_longest_run(flags), length))
        tot.append(Fraction(sum(flags), length))
    return (float(cont[0]), float(tot[0]), float(max(cont)), float(max(tot))), mg.value


# --------------------------------------------------------------------------
# information gain
# --------------------------------------------------------------------------

def _is_pow2(n):
    return n >= 1 and (n & (n - 1)) == 0


def _selected_interval(b, ann, mg):
    """(signed error, interval) for beat b: nearest annotation c (first of
    equals); "If the first annotation is closest: space between first two
    beats"; else "if last annotation is closest": last interval; else "closest
    annotation is the one before/after the current beat so look at previous/next
    inter-annotation-interval" -- the three cases are exclusive."""
    c, _ = _nearest(b, ann, mg)
    e = b - ann[c]
    if c == 0:
        iv = ann[1] - ann[0]
    elif c == len(ann) - 1:
        iv = ann[-1] - ann[-2]
    elif e < 0:
        iv = ann[c] - ann[c - 1]
    else:
        iv = ann[c + 1] - ann[c]
    return e, iv


def _entropy(ann, beats, bins, mg):
    """Entropy (bits) of the histogram of the normalised beat errors of `beats`
    against annotations `ann`; None if some error is undefined (zero interval)."""
    counts = [0] * bins
    for b in beats:
        e, iv = _selected_interval(b, ann, mg)
        if iv == 0:
            return None
        x = e / iv
        # "Put beat errors in range (-.5, .5)": mod(x + .5, -1) + .5 maps onto
        # (-1/2, 1/2]; the wrap boundaries are the half-integers.
        mg.gap(dist_to_half_integer(x))
        y = x - math.ceil(x - _HALF)
        # uniform bins on [-1/2, 1/2], right-most bin closed on the right
        z = (y + _HALF) * bins                      # in (0, bins]
        k = math.floor(z)
        if z == bins:
            k = bins - 1                            # y == 1/2: closed last edge
        elif z == k:
            # exactly on an interior edge: the library's edges are floats of
            # -1/2 + i/bins, exact only when bins is a power of two
            mg.gap(0, trusted=mg.trusted and _is_pow2(bins))
        else:
            mg.gap(min(z - k, k + 1 - z) / bins)
        counts[k] += 1
    n = float(len(beats))
    return -math.fsum((c / n) * math.log2(c / n) for c in counts if c)


def information_gain(reference_beats, estimated_beats, bins=41):
    """"K-L divergence of the beat error histogram to a uniform histogram".

    Forward (estimated beats against reference annotations) and backward
    (reference beats against estimated annotations) error histograms with
    ``bins`` uniform bins; "pick the larger of the entropies";
    score = (log2(bins) - H) / log2(bins).  "<= 1 beats ... return 0".
    Undefined (zero inter-annotation interval, bins == 1) -> NaN."""
    ref, est = fr_list(reference_beats), fr_list(estimated_beats)
    if len(ref) <= 1 or len(est) <= 1:
        return 0.0, INF
    bins = int(bins)
    mg = Margin(on_lattice(ref, est))
    if bins < 1:
        return NAN, mg.value
    fwd = _entropy(ref, est, bins, mg)
    bwd = _entropy(est, ref, bins, mg)
    if fwd is None or bwd is None or bins == 1:
        return NAN, mg.value
    norm = math.log2(bins)
    return (norm - max(fwd, bwd)) / norm, mg.value


# --------------------------------------------------------------------------
# structural predicates for the known deviations
# --------------------------------------------------------------------------

def information_gain_deviation_class(reference_beats, estimated_beats):
    """Name of the KNOWN_LIBRARY_DEVIATIONS class(es) the input belongs to, as a
    sorted list (empty if none)."""
    ref, est = fr_list(reference_beats), fr_list(estimated_beats)
    out = set()
    if len(ref) <= 1 or len(est) <= 1:
        return []
    quiet = Margin(True)
    for ann, beats in ((ref, est), (est, ref)):
        for b in beats:
            if _selected_interval(b, ann, quiet)[1] == 0:
                out.add("information_gain/zero-interval (D18)")
        if beats[0] < ann[0]:
            out.add("information_gain/first-annotation-interval (D13)")
        # the library's mistaken interval 0.5*(ann[0]-ann[-1]) can itself be 0
        # only if all annotations coincide, which is already a D18 input
    return sorted(out)


def p_score_deviation_class(reference_beats, estimated_beats):
    ref, est = fr_list(reference_beats), fr_list(estimated_beats)
    if len(ref) <= 1 or len(est) <= 1:
        return []
    t0 = min(min(ref), min(est))
    if len({math.ceil((t - t0) * _FS) for t in ref}) < 2:
        return ["p_score/single-bin reference (D14)"]
    return []
