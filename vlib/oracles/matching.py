"""Independent maximum bipartite matching + feasibility predicates (C05).

Nothing here shares code with mir_eval: maximum matchings are found with Kuhn's
augmenting-path algorithm (or, for tiny graphs, a bitmask recursion), not
Hopcroft-Karp; feasible pairs are enumerated by brute force over all pairs with
exact rational arithmetic, not by sorted windows / searchsorted.
"""

from fractions import Fraction as F
import math


def kuhn(adj, n_right=None):
    """adj: list (left vertex) of iterables of right-vertex ids (hashable).
    Returns the size of a maximum matching."""
    match_r = {}

    def try_(u, seen):
        for v in adj[u]:
            if v in seen:
                continue
            seen.add(v)
            if v not in match_r or try_(match_r[v], seen):
                match_r[v] = u
                return True
        return False

    size = 0
    for u in range(len(adj)):
        if try_(u, set()):
            size += 1
    return size


def max_matching_bitmask(rows):
    """rows: list of int bitmasks over right vertices. Exhaustive recursion."""
    best = 0

    def rec(i, used, k):
        nonlocal best
        if k + (len(rows) - i) <= best:
            return
        if i == len(rows):
            best = max(best, k)
            return
        m = rows[i] & ~used
        while m:
            b = m & -m
            rec(i + 1, used | b, k + 1)
            m ^= b
        rec(i + 1, used, k)

    rec(0, 0, 0)
    return best


def greedy_size(graph):
    """Size of the first-fit matching in dict insertion order (what a greedy
    initialisation alone would return)."""
    used = set()
    n = 0
    for u in graph:
        for v in graph[u]:
            if v not in used:
                used.add(v)
                n += 1
                break
    return n


def graph_max(graph):
    us = list(graph)
    return kuhn([list(graph[u]) for u in us])


# ---- feasibility with a three-valued verdict -----------------------------

YES, NO, MAYBE = 1, 0, -1


def cmp3(d, tol, strict, eps):
    """Is d <= tol (or d < tol if strict)? MAYBE inside the rounding band,
    except when d == tol exactly (then the answer is decided by ``strict``)."""
    if d == tol:
        return NO if strict else YES
    if abs(d - tol) <= eps:
        return MAYBE
    return YES if d < tol else NO


def abs_window_pairs(ref, est, window, eps=0.0):
    """3-valued |ref[i]-est[j]| <= window over all pairs; exact rationals."""
    R = [F(float(x)) for x in ref]
    E = [F(float(x)) for x in est]
    w = F(float(window))
    e = F(eps)
    out = {}
    for i, r in enumerate(R):
        for j, s in enumerate(E):
            out[(i, j)] = cmp3(abs(r - s), w, False, e)
    return out


def mod_window_pairs(ref, est, window, modulus=12, eps=1e-9):
    out = {}
    for i, r in enumerate(ref):
        for j, s in enumerate(est):
            a = math.fmod(float(r), modulus)
            b = math.fmod(float(s), modulus)
            if a < 0:
                a += modulus
            if b < 0:
                b += modulus
            d = abs(a - b)
            d = min(d, modulus - d)
            out[(i, j)] = cmp3(d, float(window), False, eps)
    return out


def bounds(pairs, n_ref, n_est):
    """(lo, hi) bounds on the maximum matching size given 3-valued pairs."""
    sure = [[] for _ in range(n_ref)]
    poss = [[] for _ in range(n_ref)]
    for (i, j), v in pairs.items():
        if v == YES:
            sure[i].append(j)
            poss[i].append(j)
        elif v == MAYBE:
            poss[i].append(j)
    lo = kuhn(sure)
    hi = lo if sure == poss else kuhn(poss)
    return lo, hi


def check_matching(matching, pairs, n_ref, n_est):
    """matching: iterable of (ref_i, est_j). Returns list of clause strings
    violated: 'reuse', 'infeasible-pair', 'not-maximum', 'too-large',
    'index-range'."""
    bad = []
    ms = [(int(a), int(b)) for a, b in matching]
    if len({a for a, _ in ms}) != len(ms) or len({b for _, b in ms}) != len(ms):
        bad.append("reuse")
    for a, b in ms:
        if not (0 <= a < n_ref and 0 <= b < n_est):
            bad.append("index-range")
            return bad
        if pairs[(a, b)] == NO:
            bad.append("infeasible-pair")
            break
    lo, hi = bounds(pairs, n_ref, n_est)
    if len(ms) < lo:
        bad.append("not-maximum")
    if "reuse" not in bad and "infeasible-pair" not in bad and len(ms) > hi:
        bad.append("too-large")
    return bad
