"""Self-test of the chord oracle (vlib.oracles.chord_ref) against mir_eval.chord.

    cd /verif && PYTHONPATH=/verif /venv/bin/python -m vlib.oracles.selftest_chord

(a) bounded exhaustive slice of the grammar: recognise vs validate_chord_label on
    every label; parse/split, encode (4 flag combinations), join(*split) on a
    deterministic stride of it (stride 1 when enough CPUs are available);
(b) mutated / random strings: recognise vs validate_chord_label (+ the deep
    checks whenever either side accepts);
(c) compare(rule, a, b) vs the twelve library comparison functions on all
    ordered pairs of a fixed label universe;
(d) directed join() cases and hand-picked strings.

Every disagreement is put in a class.  Classes that are understood library
deviations are mapped to a key of chord_ref.KNOWN_LIBRARY_DEVIATIONS; anything
else is printed as UNEXPLAINED and makes the exit status 1.
"""

import os
import random
import sys
import time
import warnings

import mir_eval.chord as C

from vlib.oracles import chord_ref as R

FLAGS = [(False, False), (False, True), (True, False), (True, True)]
LETTERS = "CDEFGAB"
ACCS = ["", "b", "bb", "#", "##"]
ROOTS = [l + a for l in LETTERS for a in ACCS]                       # 35
SHORTS = [None] + sorted(R.SHORTHANDS)                                # 27
SINGLES = [st + a + str(n) for n in range(1, 14) for a in ACCS
           for st in ("", "*")]                                       # 130
_CORE = ["1", "b3", "3", "4", "b5", "5", "#5", "6", "b7", "7", "9", "*3",
         "*5", "*1", "b9", "#11", "13", "*b3"]
PAIRS = [_CORE[i] + "," + _CORE[j] for i in range(len(_CORE))
         for j in range(i + 1, len(_CORE))]                           # 153
DEGLISTS = [None] + SINGLES + PAIRS                                   # 284
BASSES = [None] + [str(n) for n in range(1, 14)] + \
    ["b3", "b7", "#4", "bb7", "##1", "b1", "#7", "b9"]                # 22


def make_label(root, short, degs, bass):
    s = root
    if short is not None or degs is not None:
        s += ":" + (short or "")
    if degs is not None:
        s += "(" + degs + ")"
    if bass is not None:
        s += "/" + bass
    return s


# --------------------------------------------------------------------------
class Report(object):
    def __init__(self):
        self.classes = {}          # name -> [count, [examples]]
        self.counts = {}

    def hit(self, name, example):
        c = self.classes.setdefault(name, [0, []])
        c[0] += 1
        if len(c[1]) < 6:
            c[1].append(example)

    def count(self, name, k=1):
        self.counts[name] = self.counts.get(name, 0) + k

    def merge(self, other):
        for k, (n, ex) in other.classes.items():
            c = self.classes.setdefault(k, [0, []])
            c[0] += n
            c[1].extend(ex[: max(0, 6 - len(c[1]))])
        for k, n in other.counts.items():
            self.count(k, n)


def _call(fn, *a):
    """('ok', value) | ('raise',) | ('EXC', type-name)"""
    try:
        return ("ok", fn(*a))
    except (C.InvalidChordException, R.InvalidChord):
        return ("raise",)
    except Exception as e:  # noqa
        return ("EXC", type(e).__name__)


def lib_accepts(s):
    return _call(C.validate_chord_label, s)


def _norm_split(x):
    return (x[0], x[1], frozenset(x[2]), x[3])


def _norm_enc(x):
    return (int(x[0]), tuple(int(v) for v in x[1]), int(x[2]))


def lib_split(s, r):
    out = _call(C.split, s, r)
    return ("ok", _norm_split(out[1])) if out[0] == "ok" else out


def lib_encode(s, r, st):
    out = _call(C.encode, s, r, st)
    return ("ok", _norm_enc(out[1])) if out[0] == "ok" else out


def is_newline_case(s):
    return s.endswith("\n") and R.recognise(s[:-1])


def explain(s, what):
    """Map a disagreement on label s to a known class or UNEXPLAINED."""
    if is_newline_case(s):
        return "trailing_newline_accepted"
    if s == "X" and what in ("parse", "join"):
        return "split_X_is_a_major_chord"
    return "UNEXPLAINED:" + what


def deep_check(s, rep, roundtrip=True):
    """parse / encode / join comparisons for one string."""
    # parse vs split
    for r in (False, True):
        a = _call(R.parse, s, r)
        b = lib_split(s, r)
        if a != b:
            rep.hit(explain(s, "parse"), (s, r, a, b))
    # encode, four flag combinations
    for r, st in FLAGS:
        a = _call(R.encode, s, r, st)
        b = lib_encode(s, r, st)
        if a != b:
            rep.hit(explain(s, "encode"), (s, r, st, a, b))
    rep.count("deep_checked")
    if not roundtrip:
        return
    # join(*split(s)) round trip
    for r in (False, True):
        pa = _call(R.parse, s, r)
        pb = _call(C.split, s, r)
        ja = _call(R.join, *pa[1]) if pa[0] == "ok" else pa
        if pb[0] == "ok":
            root, q, ext, bass = pb[1]
            jb = _call(C.join, root, q, sorted(ext), bass)
        else:
            jb = pb
        if ja != jb:
            rep.hit(explain(s, "join"), (s, r, ja, jb))
        # the round-trip law on each side: same encoding, same flags
        if ja[0] == "ok":
            for st in (False, True):
                if _call(R.encode, ja[1], r, st) != _call(R.encode, s, r, st):
                    rep.hit("UNEXPLAINED:oracle_roundtrip_law", (s, r, st, ja[1]))
        if jb[0] == "ok":
            for st in (False, True):
                if lib_encode(jb[1], r, st) != lib_encode(s, r, st):
                    rep.hit(explain(s, "library_roundtrip_law"), (s, r, st, jb[1]))
    rep.count("roundtrip_checked")


# --------------------------------------------------------------------------
# (a) grammar slice, one worker call per root
# --------------------------------------------------------------------------
def part_a_worker(args):
    ri, si, stride = args
    rep = Report()
    root, short = ROOTS[ri], SHORTS[si]
    n_s, n_d, n_b = len(SHORTS), len(DEGLISTS), len(BASSES)
    # the offset ri makes every (shorthand, degrees, bass) combination deep-
    # checked for at least one root whatever the stride (35 roots >= stride)
    idx = (ri * n_s + si) * n_d * n_b + ri
    for degs in DEGLISTS:
        for bass in BASSES:
            s = make_label(root, short, degs, bass)
            a = R.recognise(s)
            b = lib_accepts(s)
            if (("ok", None) if a else ("raise",)) != b:
                rep.hit(explain(s, "recognise"), (s, a, b))
            if not a:
                rep.hit("UNEXPLAINED:enumerator_label_rejected_by_oracle", s)
            rep.count("a_labels")
            if idx % stride == 0:
                deep_check(s, rep, roundtrip=(idx % (3 * stride) == 0))
            idx += 1
    return rep


def part_a(rep, pool, stride):
    jobs = [(ri, si, stride) for ri in range(len(ROOTS)) for si in range(len(SHORTS))]
    it = pool.imap_unordered(part_a_worker, jobs, 4) if pool else map(part_a_worker, jobs)
    for r in it:
        rep.merge(r)


# --------------------------------------------------------------------------
# (b) mutations and random strings
# --------------------------------------------------------------------------
ALPHABET = "ABCDEFGNX:()/,*#b0123456789majindusgh \t\n"

CURATED = ["", "C\n", "N\n", "X\n", "C:maj\n", "C/5\n", "C:(3)\n", "\nC", "C\n\n",
           "C:", "C:()", "C:maj()", "C/", "C:(3", "C:3)", "c", "H", "C:Maj",
           "C:MAJ", "C:maj7/0", "C:(03)", "C:(14)", "C:(0)", "C/14", "C/0",
           "C/01", "Cb#", "C#b", "C:(*)", "C:(3,)", "C:(,3)", "C/*3", "C:(**3)",
           "C:maj(3))", " C", "C ", "N:maj", "X/5", "N/1", "NN", "NX", "n", "x",
           "C:maj:min", "C/5/3", "C:maj/5(3)", "C(3)", "C:maj7(b#9)",
           "C:(b#3)", "C:(#b3)", "C/b#3", "C:maj(3 ,5)", "C:maj (3)", "C:maj/ 5",
           "C:aug7", "C:maj11", "C:min11", "C:dim11", "C:13/13", "C:(13)/13",
           "C:hdim", "C:dim9", "C:sus", "C:6", "C:maj6", "C:min6", "C:m", "Cm",
           "C7", "C:(1,2,3,4,5,6,7,8,9,10,11,12,13)", "C:(*1,*2,*3)",
           "Cbbbbbbbbbbbbbb:maj/bbbbbbbbbbbbbbb13",
           "C#############:(############1)/############1",
           "C:(3,3,*3)", "C:(3,b4,*3)", "C:maj(*3,3)", "C:(*3,3)", "C:maj(#2,b3)",
           "C:1(*1)", "C:5(*1)/5", "C:(8)", "C:(#7)", "C:(bb9)", "C:(b8)",
           "C:(b1)", "C:(bb1)", "C:(bbbbbbbbbbbbb1)", "C:maj/b1", "C:maj/bb1",
           "C:maj/8", "C:maj/#7", "C:9(*9)", "C:9(9)", "C:13(*11)", "C:minmaj7(*7)",
           "C:maj(*1)/3", "C:(*1)", "C:(*1)/5", "С", "C:maj²", "C:(٣)",
           "C\r", "C\x0b", "C\x00", "C ", "C:maj\r\n"]


def random_valid(rng):
    root = rng.choice(ROOTS)
    short = rng.choice(SHORTS)
    k = rng.choice([0, 0, 1, 1, 2, 3])
    degs = ",".join(rng.choice(SINGLES) for _ in range(k)) if k else None
    bass = rng.choice(BASSES)
    if rng.random() < 0.03:
        return rng.choice(["N", "X"])
    return make_label(root, short, degs, bass)


def mutate(rng, s):
    for _ in range(rng.choice([1, 1, 1, 2, 2, 3])):
        op = rng.randrange(4)
        if op == 0 or not s:                                   # insert
            i = rng.randrange(len(s) + 1)
            s = s[:i] + rng.choice(ALPHABET) + s[i:]
        elif op == 1:                                          # delete
            i = rng.randrange(len(s))
            s = s[:i] + s[i + 1:]
        elif op == 2:                                          # replace
            i = rng.randrange(len(s))
            s = s[:i] + rng.choice(ALPHABET) + s[i + 1:]
        elif len(s) > 1:                                       # swap neighbours
            i = rng.randrange(len(s) - 1)
            s = s[:i] + s[i + 1] + s[i] + s[i + 2:]
    return s


def part_b_strings(n_mut=200000, n_rand=60000, seed=20261003):
    rng = random.Random(seed)
    out = list(CURATED)
    for _ in range(n_mut):
        out.append(mutate(rng, random_valid(rng)))
    for _ in range(n_rand):
        out.append("".join(rng.choice(ALPHABET) for _ in range(rng.randrange(0, 11))))
    # newline-focused: a valid label with white space appended / prepended
    for _ in range(4000):
        v = random_valid(rng)
        out.append(v + rng.choice(["\n", "\n\n", " ", "\t", "\r", "\r\n"]))
        out.append(rng.choice(["\n", " "]) + v)
    return out


def part_b_worker(strings):
    rep = Report()
    for s in strings:
        a = R.recognise(s)
        b = lib_accepts(s)
        rep.count("b_strings")
        if a:
            rep.count("b_oracle_accepts")
        if b[0] == "ok":
            rep.count("b_library_accepts")
        if (("ok", None) if a else ("raise",)) != b:
            rep.hit(explain(s, "recognise"), (s, a, b))
        if a or b[0] == "ok":
            deep_check(s, rep, roundtrip=True)
    return rep


def part_b(rep, pool):
    strings = part_b_strings()
    chunks = [strings[i::32] for i in range(32)]
    it = pool.imap_unordered(part_b_worker, chunks) if pool else map(part_b_worker, chunks)
    for r in it:
        rep.merge(r)


# --------------------------------------------------------------------------
# (c) comparison rules on a fixed universe
# --------------------------------------------------------------------------
_ENCODABLE = sorted(R.SHORTHANDS - {"aug7", "maj11"})
_PAT_C = [""] + [":" + q for q in _ENCODABLE] + [
    ":maj(9)", ":maj(*3)", ":min(*b3,3)", ":(3,5)", ":(b3,5)", ":sus4(b7)",
    ":maj(*1)", ":(1)", ":(1,5)", ":maj(*5)", ":maj(*3,*5)", ":7(*5)", ":maj(6)",
    ":min(b7)", ":maj(7)", ":maj(b7)", ":(3,5,b7)", ":dim(bb7)", ":maj(#5,*5)",
    ":maj(2)", ":min7(*b7)", ":maj(#11)", ":(b3,b5)", ":maj(*3,4)",
    "/3", "/5", "/b7", "/7", "/2", ":maj/3", ":maj/5", ":maj/7", ":maj/b7",
    ":maj/2", ":maj/4", ":maj/6", ":maj/b6", ":min/b3", ":min/5", ":min/6",
    ":min/b7", ":min/7", ":7/b7", ":7/3", ":maj7/7", ":maj7/5", ":min7/b7",
    ":min7/b3", ":maj/9", ":maj/#1", ":5/5", ":1/5", ":sus4/4", ":maj6/6",
    ":hdim7/b5", ":9/9", ":maj(*3)/3", ":min/#5", ":maj(*1)/3", ":(*1)/5"]
_PAT_X = ["", ":maj", ":min", ":7", ":maj7", ":min7", ":dim", ":aug", ":sus4",
          ":5", ":1", ":9", ":maj6", ":hdim7", "/3", "/5", ":maj/7", ":maj/b7",
          ":min/b3", ":min/6", ":7/b7", ":maj(9)", ":maj(*3)", ":(3,5)",
          ":(b3,5)", ":maj/2", ":min7/b7", ":maj(*1)"]
_ROOTS_X = ["G", "F#", "Gb", "A", "B#", "Dbb", "E", "Fb"]


def universe():
    u = ["N", "X"] + ["C" + p for p in _PAT_C]
    for r in _ROOTS_X:
        u += [r + p for p in _PAT_X]
    seen, out = set(), []
    for s in u:
        if s not in seen:
            seen.add(s)
            out.append(s)
    assert len(out) >= 300, len(out)
    for s in out:
        assert R.recognise(s), s
    return out


def part_c(rep):
    U = universe()
    refs = [a for a in U for _ in U]
    ests = [b for _ in U for b in U]
    rep.count("c_universe", len(U))
    for rule in R.RULES:
        with warnings.catch_warnings():
            warnings.simplefilter("ignore")
            lib = getattr(C, rule)(refs, ests)
        n_lenient_bad = 0
        for k in range(len(refs)):
            a, b = refs[k], ests[k]
            want = R.compare(rule, a, b)
            got = float(lib[k])
            rep.count("c_comparisons")
            if rule == "majmin_inv" and R.compare(rule, a, b, lenient_majmin_inv=True) != got:
                n_lenient_bad += 1
            if want == got:
                continue
            va = R.vocab(a)
            if rule == "mirex" and b == "X" and a == "N":
                cls = "mirex_reference_N_estimate_X"
            elif rule == "mirex" and b == "X" and want == 0.0 and got == 1.0:
                cls = "mirex_estimate_X_counts_as_every_pitch_class"
            elif (rule == "majmin_inv" and want == -1.0 and va["majmin"]
                  and not va["majmin_inv"] and R.encode(a)[2] >= 8):
                cls = "majmin_inv_bass_outside_triad"
            else:
                cls = "UNEXPLAINED:compare_" + rule
            rep.hit(cls, (rule, a, b, "oracle", want, "library", got))
        if rule == "majmin_inv":
            rep.count("c_majmin_inv_disagreements_with_lenient_flag", n_lenient_bad)
            if n_lenient_bad:
                rep.hit("UNEXPLAINED:majmin_inv_lenient", n_lenient_bad)
    # unencodable labels raise on both sides, on either side of the comparison
    for bad in ("C:aug7", "G:maj11/3"):
        for rule in R.RULES:
            for pair in ((bad, "C"), ("C", bad)):
                a = _call(R.compare, rule, *pair)
                b = _call(lambda p: getattr(C, rule)([p[0]], [p[1]]), pair)
                b = ("ok", float(b[1][0])) if b[0] == "ok" else b
                if a != b:
                    rep.hit("UNEXPLAINED:compare_unencodable", (rule, pair, a, b))
    # vocab() agrees with compare()'s -1 pattern
    for a in U:
        v = R.vocab(a)
        for rule in ("majmin", "majmin_inv", "sevenths", "sevenths_inv", "mirex"):
            if (R.compare(rule, a, "C") != -1.0) != v[rule]:
                rep.hit("UNEXPLAINED:vocab_vs_compare", (rule, a, v))


# --------------------------------------------------------------------------
# (d) join on arbitrary parts
# --------------------------------------------------------------------------
def part_d(rep):
    roots = ["C", "Gb", "F##", "N", "X", "", "H", "C:", "Cb#", "c", "C\n"]
    quals = ["", "maj", "min7", "aug7", "maj11", "Maj", "foo", "7", "(3)", "maj\n"]
    exts = [None, [], ["3"], ["*3", "b7"], ["*"], ["14"], ["3", ""], ["#b3"],
            [" 3"], ["13", "*13"], ["3\n"]]
    basses = ["", "1", "5", "b7", "*5", "0", "14", "13", "b#3", "5\n", "/5"]
    for r in roots:
        for q in quals:
            for e in exts:
                for b in basses:
                    ja = _call(R.join, r, q, e, b)
                    jb = _call(C.join, r, q, e, b)
                    rep.count("d_join_cases")
                    if ja != jb:
                        made = r + (":" + q if (q or e) else "") + \
                            ("(" + ",".join(e) + ")" if e else "") + \
                            ("/" + b if b and b != "1" else "")
                        rep.hit(explain(made, "join_parts"), ((r, q, e, b), ja, jb))
    # defaults
    for args in (("C",), ("C", "min"), ("C", "", ["3"]), ("C", "", None, "5")):
        if _call(R.join, *args) != _call(C.join, *args):
            rep.hit("UNEXPLAINED:join_defaults", args)
    # the examples written in the documentation hold on both sides
    doc_pairs = [("thirds", "A:7", "A:maj", 1.0), ("thirds", "A:min", "A:dim", 1.0),
                 ("triads", "A:7", "A:maj", 1.0), ("triads", "A:min", "A:dim", 0.0),
                 ("triads", "A:aug", "A:maj", 0.0), ("tetrads", "A:7", "A:9", 1.0),
                 ("tetrads", "A:7", "A:maj7", 0.0)]
    for rule, a, b, want in doc_pairs:
        rep.count("d_doc_examples")
        if R.compare(rule, a, b) != want:
            rep.hit("UNEXPLAINED:oracle_vs_documented_example", (rule, a, b, want))
        if float(getattr(C, rule)([a], [b])[0]) != want:
            rep.hit("UNEXPLAINED:library_vs_documented_example", (rule, a, b, want))
    doc_split = [("C", ("C", "maj", frozenset(), "1")),
                 ("G#:min(*b3,*5)/5", ("G#", "min", frozenset({"*b3", "*5"}), "5")),
                 ("A:(3)/6", ("A", "", frozenset({"3"}), "6"))]
    for lab, want in doc_split:
        rep.count("d_doc_examples")
        if R.parse(lab) != want:
            rep.hit("UNEXPLAINED:oracle_vs_documented_example", (lab, want))
        if lib_split(lab, False) != ("ok", want):
            rep.hit("UNEXPLAINED:library_vs_documented_example", (lab, want))
    # sentinels
    for lab, enc in (("N", (-1, (0,) * 12, -1)), ("X", (-1, (-1,) * 12, -1))):
        for r, st in FLAGS:
            if R.encode(lab, r, st) != enc or lib_encode(lab, r, st) != ("ok", enc):
                rep.hit("UNEXPLAINED:sentinel", (lab, r, st))


# --------------------------------------------------------------------------
def main():
    t0 = time.time()
    ncpu = os.cpu_count() or 1
    env = os.environ.get("CHORD_SELFTEST_STRIDE")
    nproc = int(os.environ.get("CHORD_SELFTEST_PROCS", min(ncpu, 16)))
    if env:
        stride = int(env)
    else:
        # measured: ~15 us per label for recognise/validate, ~400 us per deep
        # check (both sides, 4 flag combinations, round trip on every third);
        # pick the smallest stride whose predicted wall time for (a) is <= 150 s
        # and that keeps at least 300k deep-checked labels.
        n_all = len(ROOTS) * len(SHORTS) * len(DEGLISTS) * len(BASSES)
        stride = 1
        while (n_all * (15e-6 + 400e-6 / stride) / (0.85 * max(nproc, 1)) > 150
               and n_all // (stride + 1) >= 300000):
            stride += 1
    pool = None
    if nproc > 1:
        try:
            import multiprocessing as mp
            pool = mp.get_context("fork").Pool(nproc)
        except Exception as e:  # noqa
            print("no process pool (%s); running serially" % (e,))
            pool = None
    rep = Report()
    print("chord oracle self-test: %d processes, deep-check stride %d" % (nproc if pool else 1, stride))
    sys.stdout.flush()

    t = time.time()
    part_a(rep, pool, stride)
    print("(a) grammar slice: %d labels recognised-vs-validated, %d deep-checked "
          "(parse, encode x4), %d with join round trip   [%.1fs]"
          % (rep.counts.get("a_labels", 0), rep.counts.get("deep_checked", 0),
             rep.counts.get("roundtrip_checked", 0), time.time() - t))
    sys.stdout.flush()
    deep_a = rep.counts.get("deep_checked", 0)

    t = time.time()
    part_b(rep, pool)
    print("(b) mutated/random strings: %d strings (%d accepted by the oracle, %d by "
          "the library), %d deep-checked   [%.1fs]"
          % (rep.counts.get("b_strings", 0), rep.counts.get("b_oracle_accepts", 0),
             rep.counts.get("b_library_accepts", 0),
             rep.counts.get("deep_checked", 0) - deep_a, time.time() - t))
    sys.stdout.flush()
    if pool:
        pool.close()
        pool.join()

    t = time.time()
    part_c(rep)
    print("(c) comparison rules: universe of %d labels, %d (rule, ref, est) comparisons; "
          "majmin_inv disagreements left with lenient_majmin_inv=True: %d   [%.1fs]"
          % (rep.counts.get("c_universe", 0), rep.counts.get("c_comparisons", 0),
             rep.counts.get("c_majmin_inv_disagreements_with_lenient_flag", 0),
             time.time() - t))
    t = time.time()
    part_d(rep)
    print("(d) join on arbitrary parts: %d cases   [%.1fs]"
          % (rep.counts.get("d_join_cases", 0), time.time() - t))

    print("\ndisagreement classes:")
    unexplained = 0
    if not rep.classes:
        print("  none")
    for name in sorted(rep.classes):
        n, ex = rep.classes[name]
        known = name in R.KNOWN_LIBRARY_DEVIATIONS
        if not known:
            unexplained += n
        print("  %-48s %8d  %s" % (name, n, "known library deviation" if known
                                     else "*** UNEXPLAINED ***"))
        for e in ex[:4]:
            print("      e.g. %r" % (e,))
    for name in sorted(R.KNOWN_LIBRARY_DEVIATIONS):
        if name not in rep.classes:
            print("  %-48s %8d  (listed as known, not observed in this run)" % (name, 0))
    print("\ntotal %.1fs; unexplained disagreements: %d" % (time.time() - t0, unexplained))
    return 1 if unexplained else 0


if __name__ == "__main__":
    sys.exit(main())
