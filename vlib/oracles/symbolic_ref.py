"""Independent reference specification ("oracle") for the symbolic metrics of
mir_eval: tempo.detection, key.weighted_score, the four alignment metrics and
the six pattern-discovery metrics.

Nothing here imports or calls mir_eval.  Every function is written from the
documented definition (function and module docstrings; Collins' MIREX
"Discovery of repeated themes & sections" definitions as the docstrings give
them) with exact rational arithmetic (fractions.Fraction over the exact values
of the input floats), explicit loops and sets - no array broadcasting, no
sorting tricks.

Interface
---------
Every ``<module>_<function>`` takes the parameters of the library function it
models (same names, order, defaults) and returns ``(value, margin)``:

value   exactly the structure the library returns (float / tuple of floats /
        (float, bool, bool) for tempo).
margin  float >= 0: the smallest ``|d - t|`` over every *threshold comparison*
        the definition performs (tempo relative error vs ``tol``, alignment
        deviation vs ``window``, pattern translation residual vs ``tol``,
        establishment score vs ``thres``), counting only comparisons with
        ``d != t`` in exact arithmetic.  Exact ties are decided exactly as
        documented (``<=``, ``<``, ``>=`` respectively) and do not reduce the
        margin.  ``float('inf')`` when the definition compares nothing.
        A caller should not trust a case whose margin is below ~1e-7: a
        floating-point evaluation of the same definition may legitimately
        decide the comparison the other way.

Documented validation failures raise ValueError.

Helper predicates (not part of the modelled API)
------------------------------------------------
key_is_unambiguous(ref, est)          see the key section
pattern_inputs_are_point_sets(r, e)   every occurrence non-empty and free of
                                      repeated (onset, midi) pairs
pattern_standard_counts(r, e, tol)    (#ref prototypes matched, #est prototypes
                                      matched) - they differ exactly when the
                                      library's standard precision deviates
"""

from fractions import Fraction
import math

import numpy as np

INF = float("inf")


# --------------------------------------------------------------------------
# small exact helpers
# --------------------------------------------------------------------------
def _fr(x):
    """Exact rational value of a (numpy) number."""
    if isinstance(x, Fraction):
        return x
    if isinstance(x, (int, np.integer)):
        return Fraction(int(x))
    return Fraction(float(x))


def _f_measure(p, r, beta=1):
    """util.f_measure: 0 when precision and recall are both 0, otherwise
    (1 + beta^2) * p * r / (beta^2 * p + r).  Exact on Fractions."""
    if p == 0 and r == 0:
        return Fraction(0)
    b2 = _fr(beta) ** 2
    return (1 + b2) * p * r / (b2 * p + r)


def _upd(margin, d, t):
    """Fold one threshold comparison (d against t) into the running margin.
    An exact tie is decided by the documented operator and costs nothing."""
    if d == t:
        return margin
    return min(margin, float(abs(d - t)))


# ==========================================================================
# tempo
# ==========================================================================
def _validate_tempi(tempi, reference):
    # "Check that there are two non-negative tempi."
    tempi = np.asarray(tempi, dtype=float).ravel()
    if tempi.size != 2:
        raise ValueError("tempi must have exactly two values")
    vals = [float(v) for v in tempi]
    if any((not math.isfinite(v)) or v < 0 for v in vals):
        raise ValueError("tempi must be non-negative numbers")
    # "For a reference value, at least one tempo has to be greater than zero."
    if reference and all(v == 0 for v in vals):
        raise ValueError("reference tempi must have one value greater than zero")
    return vals


def tempo_detection(reference_tempi, reference_weight, estimated_tempi, tol=0.08):
    """((p_score, one_correct, both_correct), margin)."""
    ref = _validate_tempi(reference_tempi, True)
    est = _validate_tempi(estimated_tempi, False)
    # "If the reference weight is not in the range [0, 1]" -> ValueError
    if reference_weight < 0 or reference_weight > 1:
        raise ValueError("Reference weight must lie in range [0, 1]")
    # "If tol < 0 or tol > 1" -> ValueError
    if tol < 0 or tol > 1:
        raise ValueError("invalid tolerance: must lie in the range [0, 1]")

    t = _fr(tol)
    margin = INF
    hits = []
    for r in ref:
        if r > 0:
            R = _fr(r)
            # "|est_t - ref_t| <= tol * ref_t" for the closest estimate:
            # relative error = min over the two estimates of |ref - est| / ref
            rel = min(abs(R - _fr(e)) / R for e in est)
            hits.append(rel <= t)  # non-strict: a tie is a hit
            margin = _upd(margin, rel, t)
        else:
            # a zero reference tempo cannot be "correctly estimated"
            hits.append(False)

    w = _fr(reference_weight)
    # "reference_weight * hits[0] + (1 - reference_weight) * hits[1]"
    p_score = float(w * int(hits[0]) + (1 - w) * int(hits[1]))
    # "True if at least one reference tempo was correctly estimated"
    one_correct = bool(hits[0] or hits[1])
    # "True if both reference tempi were correctly estimated"
    both_correct = bool(hits[0] and hits[1])
    return (p_score, one_correct, both_correct), margin


# ==========================================================================
# key
# ==========================================================================
# "Keys are represented as strings of the form '(key) (mode)' ... The case of
# the key is ignored ... certain key strings are equivalent, e.g. 'C# major'
# and 'Db major'".  Pitch classes counted in semitones above C.
_NATURALS = {"c": 0, "d": 2, "e": 4, "f": 5, "g": 7, "a": 9, "b": 11}
# The accepted spellings (no e#, fb, b#, cb): naturals, and sharps / flats
# only where a black key exists.
_TONICS = {}
for _n, _pc in _NATURALS.items():
    _TONICS[_n] = _pc
for _n in "cdfga":
    _TONICS[_n + "#"] = _NATURALS[_n] + 1
for _n in "degab":
    _TONICS[_n + "b"] = _NATURALS[_n] - 1
_MODES = ("major", "minor", "other")


def _parse_key(key):
    """-> None for 'X' (uncategorised, no tonic, no mode) or (pitch class, mode).
    "The Key can be 'X' if it is not possible to categorize the Key and mode
    can be 'other' if it can't be categorized as major or minor." """
    parts = key.split()
    if key.lower() == "x":
        return None
    if len(parts) != 2:
        raise ValueError("'%s' is not in the form '(key) (mode)' or 'X'" % key)
    tonic, mode = parts
    if tonic.lower() == "x":
        raise ValueError("'X' (Uncategorized) doesn't have mode")
    if tonic.lower() not in _TONICS:
        raise ValueError("Key %s is invalid" % tonic)
    if mode not in _MODES:  # the mode is case-sensitive, only the key is not
        raise ValueError("Mode '%s' is invalid" % mode)
    return _TONICS[tonic.lower()], mode


def key_is_unambiguous(reference_key, estimated_key):
    """True when the documentation determines the score without interpretation:
    neither mode is 'other', or the two keys are identical, or one is 'X'.
    (For pairs involving the mode 'other' the docstring table is silent about
    whether 'relative' / 'parallel' relations apply.)"""
    a = _parse_key(reference_key)
    b = _parse_key(estimated_key)
    if a is None or b is None:
        return True
    if a == b:
        return True
    return a[1] != "other" and b[1] != "other"


def key_weighted_score(reference_key, estimated_key):
    """(score, inf).  Table of the docstring, first matching row wins.

    Assumptions where the documentation is silent (all such pairs have
    key_is_unambiguous() == False, except the one noted last):
      * 'Relative major/minor' and 'Parallel major/minor' are relations
        between one *major* and one *minor* key; a key whose mode is 'other'
        is neither, so such pairs fall through to 'Other' (0.0) unless row 1
        or row 2 applies.
      * Row 2 ('perfect fifth above') is read with the MIREX meaning: same
        mode, estimated tonic 7 semitones above the reference tonic.  Two
        'other'-mode keys a fifth apart therefore score 0.5.  (Read
        literally the docstring row does not mention the mode; a fifth with
        different modes scores 0.0 here, like MIREX.)
    """
    ref = _parse_key(reference_key)
    est = _parse_key(estimated_key)
    # Row 1: "Same key and mode" (X against X counts as the same)
    if ref == est:
        return 1.0, INF
    # 'X' has no tonic: no tonal relation with anything else -> "Other"
    if ref is None or est is None:
        return 0.0, INF
    (rt, rm), (et, em) = ref, est
    up = (et - rt) % 12  # semitones from reference tonic up to estimated tonic
    # Row 2: "Estimated key is a perfect fifth above reference key"
    if rm == em and up == 7:
        return 0.5, INF
    # Row 3: "Relative major/minor (same key signature)":
    # the relative minor of a major key lies 3 semitones below (= 9 above),
    # the relative major of a minor key 3 semitones above.
    if rm == "major" and em == "minor" and up == 9:
        return 0.3, INF
    if rm == "minor" and em == "major" and up == 3:
        return 0.3, INF
    # Row 4: "Parallel major/minor (same key)": same tonic, one major one minor
    if up == 0 and {rm, em} == {"major", "minor"}:
        return 0.2, INF
    # Row 5: "Other"
    return 0.0, INF


# ==========================================================================
# alignment
# ==========================================================================
def _validate_alignment(ref, est):
    """alignment.validate: 1-d numpy arrays, reference not empty, equal sizes,
    both monotonically (non-strictly) increasing, both >= 0.
    Returns the two sequences as lists of Fractions."""
    if not isinstance(ref, np.ndarray):
        raise ValueError("Reference timestamps need to be a numpy array")
    if not isinstance(est, np.ndarray):
        raise ValueError("Estimated timestamps need to be a numpy array")
    if ref.ndim != 1:
        raise ValueError("Reference timestamps need to be a one-dimensional vector")
    if est.ndim != 1:
        raise ValueError("Estimated timestamps need to be a one-dimensional vector")
    if ref.size == 0:
        raise ValueError("Reference timestamps are empty.")
    if est.size != ref.size:
        raise ValueError("Number of timestamps must be the same")
    r = [float(x) for x in ref]
    e = [float(x) for x in est]
    for name, seq in (("Reference", r), ("Estimated", e)):
        # a NaN fails both checks, like any comparison with NaN
        if not all(seq[k + 1] >= seq[k] for k in range(len(seq) - 1)):
            raise ValueError(name + " timestamps are not monotonically increasing!")
    for name, seq in (("Reference", r), ("Estimated", e)):
        if not all(x >= 0 for x in seq):
            raise ValueError(name + " timestamps can not be below 0!")
    if not all(math.isfinite(x) for x in r + e):
        # outside the documented domain; exact arithmetic impossible
        raise OverflowError("non-finite timestamps are outside the oracle's domain")
    return [Fraction(x) for x in r], [Fraction(x) for x in e]


def alignment_absolute_error(reference_timestamps, estimated_timestamps):
    """((median absolute error, average absolute error), inf)."""
    r, e = _validate_alignment(reference_timestamps, estimated_timestamps)
    # "absolute deviations between estimated and reference timestamps"
    dev = sorted(abs(a - b) for a, b in zip(r, e))
    n = len(dev)
    # median: middle value, or the mean of the two middle values
    if n % 2:
        med = dev[n // 2]
    else:
        med = (dev[n // 2 - 1] + dev[n // 2]) / 2
    mean = sum(dev) / n
    return (float(med), float(mean)), INF


def alignment_percentage_correct(reference_timestamps, estimated_timestamps,
                                 window=0.3):
    """(fraction of timestamps with |ref - est| <= window, margin)."""
    r, e = _validate_alignment(reference_timestamps, estimated_timestamps)
    w = _fr(window)
    margin = INF
    good = 0
    for a, b in zip(r, e):
        d = abs(a - b)
        # "predicted correctly if its position doesn't deviate more than the
        # window parameter": non-strict
        if d <= w:
            good += 1
        margin = _upd(margin, d, w)
    return float(Fraction(good, len(r))), margin


def alignment_percentage_correct_segments(reference_timestamps,
                                          estimated_timestamps, duration=None):
    """(PCS, inf).  No threshold is involved: the overlap max(0, .) is
    continuous in the inputs."""
    r, e = _validate_alignment(reference_timestamps, estimated_timestamps)
    if duration is not None:
        dur = _fr(float(duration))
        if dur <= 0:
            raise ValueError("Positive duration needs to be provided")
        if max(r) > dur:
            raise ValueError("largest reference timestamp larger than duration")
        if max(e) > dur:
            raise ValueError("largest estimated timestamp larger than duration")
        # "segment boundaries are instead (0, t1), (t1, t2), ... (tN, duration)"
        rb = [Fraction(0)] + r + [dur]
        eb = [Fraction(0)] + e + [dur]
        total = dur  # "divided by the duration parameter"
    else:
        # "(t1, t2), ... (tN-1, tN)" ; "divided by the total duration, which is
        # the distance between the first and last timestamp in the reference"
        total = r[-1] - r[0]
        if total <= 0:
            raise ValueError("Reference timestamps are all identical")
        rb, eb = r, e
    overlap = Fraction(0)
    # i-th reference segment against i-th estimated segment
    for k in range(len(rb) - 1):
        lo = max(rb[k], eb[k])
        hi = min(rb[k + 1], eb[k + 1])
        if hi > lo:
            overlap += hi - lo
    return float(overlap / total), INF


# parameters of the perceptual model, as documented in the function body of
# karaoke_perceptual_metric (fitted constants of Lize-Masclef et al. 2021)
_SKEW_SHAPE = 1.12244251
_SKEW_LOC = -0.22270315
_SKEW_SCALE = 0.29779424
_SKEW_NORM = 1.6857


def _skewnorm_pdf(x, a, loc, scale):
    """Skew-normal density in closed form:
        f(x) = 2/scale * phi(z) * Phi(a z),  z = (x - loc)/scale,
    phi(z) = exp(-z^2/2)/sqrt(2 pi),
    Phi(u) = (1 + erf(u/sqrt 2))/2 = erfc(-u/sqrt 2)/2  (the erfc form is the
    same function, without cancellation for very negative u)."""
    z = (x - loc) / scale
    phi = math.exp(-0.5 * z * z) / math.sqrt(2.0 * math.pi)
    Phi = 0.5 * math.erfc(-a * z / math.sqrt(2.0))
    return 2.0 / scale * phi * Phi


def alignment_karaoke_perceptual_metric(reference_timestamps,
                                        estimated_timestamps):
    """(perceptual score averaged over all timestamps, inf)."""
    r, e = _validate_alignment(reference_timestamps, estimated_timestamps)
    total = 0.0
    for a, b in zip(r, e):
        off = float(b - a)  # offset = estimated - reference (non-symmetrical)
        total += _skewnorm_pdf(off, _SKEW_SHAPE, _SKEW_LOC, _SKEW_SCALE) / _SKEW_NORM
    return total / len(r), INF


# ==========================================================================
# pattern
# ==========================================================================
def _validate_patterns(reference_patterns, estimated_patterns):
    """pattern.validate: every pattern has at least one occurrence, every
    (onset, midi) entry has exactly two elements."""
    for patterns in (reference_patterns, estimated_patterns):
        for pattern in patterns:
            if len(pattern) <= 0:
                raise ValueError("Each pattern must contain at least one occurrence.")
            for occ in pattern:
                for om in occ:
                    if len(om) != 2:
                        raise ValueError("The (onset, midi) tuple must contain "
                                         "exactly 2 elements.")


def _n_notes(patterns):
    return sum(len(occ) for pat in patterns for occ in pat)


def _either_empty(reference_patterns, estimated_patterns):
    # "If no patterns were provided, metric is zero"
    return _n_notes(reference_patterns) == 0 or _n_notes(estimated_patterns) == 0


def _pointset(occ):
    """An occurrence as a set of exact (onset, midi) points."""
    return frozenset((_fr(o), _fr(m)) for (o, m) in occ)


def pattern_inputs_are_point_sets(reference_patterns, estimated_patterns):
    """True when every occurrence is non-empty and has no repeated
    (onset, midi) pair.  The definitions below treat occurrences as point
    *sets* (|P| is a set cardinality); for an occurrence listing a point twice
    a length-of-list implementation gives different numbers, and for an empty
    occurrence the cardinality score is 0/0."""
    for patterns in (reference_patterns, estimated_patterns):
        for pat in patterns:
            for occ in pat:
                if len(occ) == 0 or len(_pointset(occ)) != len(occ):
                    return False
    return True


def _cardinality_score(P, Q):
    """|P n Q| / max(|P|, |Q|) on point sets (0 when both are empty)."""
    den = max(len(P), len(Q))
    if den == 0:
        return Fraction(0)
    return Fraction(len(P & Q), den)


def _score_matrix(ref_pattern, est_pattern):
    """Cardinality scores of every (reference occurrence, estimated occurrence)
    pair: rows = reference occurrences, columns = estimated occurrences."""
    R = [_pointset(o) for o in ref_pattern]
    E = [_pointset(o) for o in est_pattern]
    return [[_cardinality_score(p, q) for q in E] for p in R]


def _mean(xs):
    xs = list(xs)
    return sum(xs, Fraction(0)) / len(xs)


def _col_max_mean(M):
    """mean over columns of the column maximum"""
    return _mean(max(row[j] for row in M) for j in range(len(M[0])))


def _row_max_mean(M):
    """mean over rows of the row maximum"""
    return _mean(max(row) for row in M)


def _translation_residual(P, Q):
    """For two prototypes of equal length L >= 2, listed note by note: the
    largest change, between consecutive notes, of the note-wise difference
    P[k] - Q[k], over both coordinates.  Q is an exact translation of P iff
    this is 0; 'within tol' iff it is < tol."""
    worst = Fraction(0)
    prev = None
    for (po, pm), (qo, qm) in zip(P, Q):
        cur = (_fr(po) - _fr(qo), _fr(pm) - _fr(qm))
        if prev is not None:
            worst = max(worst, abs(cur[0] - prev[0]), abs(cur[1] - prev[1]))
        prev = cur
    return worst


def _standard_match_tables(reference_patterns, estimated_patterns, tol):
    """match[i][j] (bool) for prototypes i (reference), j (estimate), and the
    residual table (None where lengths differ / no comparison is made)."""
    t = _fr(tol)
    match, resid = [], []
    for rp in reference_patterns:
        P = list(rp[0])  # "The first occurrence must be the prototype"
        mrow, rrow = [], []
        for ep in estimated_patterns:
            Q = list(ep[0])
            if len(P) != len(Q):
                # "the sizes of these prototypes must be equal"
                mrow.append(False)
                rrow.append(None)
            elif len(P) <= 1:
                # a single note (or nothing) is a translation of any other
                mrow.append(True)
                rrow.append(None)
            else:
                res = _translation_residual(P, Q)
                mrow.append(res < t)  # strict: "within tol"
                rrow.append(res)
        match.append(mrow)
        resid.append(rrow)
    return match, resid


def pattern_standard_counts(reference_patterns, estimated_patterns, tol=1e-5):
    """(number of reference prototypes matched by some estimated prototype,
        number of estimated prototypes matched by some reference prototype)."""
    match, _ = _standard_match_tables(reference_patterns, estimated_patterns, tol)
    nQ = len(estimated_patterns)
    k_ref = sum(1 for row in match if any(row))
    k_est = sum(1 for j in range(nQ) if any(row[j] for row in match))
    return k_ref, k_est


def pattern_standard_FPR(reference_patterns, estimated_patterns, tol=1e-5):
    """((F, P, R), margin).

    MIREX (Collins): the estimate contains nQ patterns, k of which are
    ground-truth patterns up to translation; P = k/nQ; R = k/nP with nP the
    number of ground-truth patterns.  With k counted on the side it is
    divided by (estimated prototypes that match a reference prototype for P,
    reference prototypes that are matched for R) both stay in [0, 1]; the two
    counts coincide whenever no two prototypes on the same side are
    translations of each other.  A single count of matched *reference*
    prototypes divided by nQ (what the library does) exceeds 1 e.g. for two
    identical reference patterns against one estimate - see
    pattern_standard_counts()."""
    _validate_patterns(reference_patterns, estimated_patterns)
    if _either_empty(reference_patterns, estimated_patterns):
        return (0.0, 0.0, 0.0), INF
    nP, nQ = len(reference_patterns), len(estimated_patterns)
    match, resid = _standard_match_tables(reference_patterns, estimated_patterns, tol)
    t = _fr(tol)
    margin = INF
    # Whether reference i (estimate j) is matched depends only on the smallest
    # residual in its row (column) - unless a length-1 prototype matches it
    # unconditionally.  That smallest residual is the quantity compared to tol.
    for i in range(nP):
        if any(match[i][j] and resid[i][j] is None for j in range(nQ)):
            continue
        rs = [resid[i][j] for j in range(nQ) if resid[i][j] is not None]
        if rs:
            margin = _upd(margin, min(rs), t)
    for j in range(nQ):
        if any(match[i][j] and resid[i][j] is None for i in range(nP)):
            continue
        rs = [resid[i][j] for i in range(nP) if resid[i][j] is not None]
        if rs:
            margin = _upd(margin, min(rs), t)
    k_ref = sum(1 for row in match if any(row))
    k_est = sum(1 for j in range(nQ) if any(row[j] for row in match))
    precision = Fraction(k_est, nQ)
    recall = Fraction(k_ref, nP)
    f = _f_measure(precision, recall)
    return (float(f), float(precision), float(recall)), margin


def _establishment_matrix(reference_patterns, estimated_patterns):
    """S[i][j] = max over all (occurrence of reference pattern i, occurrence
    of estimated pattern j) of the cardinality score."""
    S = []
    for rp in reference_patterns:
        row = []
        for ep in estimated_patterns:
            s = _score_matrix(rp, ep)
            row.append(max(max(r) for r in s))
        S.append(row)
    return S


def pattern_establishment_FPR(reference_patterns, estimated_patterns,
                              similarity_metric="cardinality_score"):
    """((F, P, R), inf)."""
    _validate_patterns(reference_patterns, estimated_patterns)
    if _either_empty(reference_patterns, estimated_patterns):
        return (0.0, 0.0, 0.0), INF
    if similarity_metric != "cardinality_score":
        raise ValueError("The similarity metric can only be 'cardinality_score'.")
    S = _establishment_matrix(reference_patterns, estimated_patterns)
    # precision: for every estimated pattern its best reference match, averaged
    precision = _col_max_mean(S)
    # recall: for every reference pattern its best estimated match, averaged
    recall = _row_max_mean(S)
    f = _f_measure(precision, recall)
    return (float(f), float(precision), float(recall)), INF


def pattern_occurrence_FPR(reference_patterns, estimated_patterns, thres=0.75,
                           similarity_metric="cardinality_score"):
    """((F, P, R), margin)."""
    _validate_patterns(reference_patterns, estimated_patterns)
    if _either_empty(reference_patterns, estimated_patterns):
        return (0.0, 0.0, 0.0), INF
    if similarity_metric != "cardinality_score":
        raise ValueError("The similarity metric can only be 'cardinality_score'.")
    t = _fr(thres)
    margin = INF
    OP, OR = {}, {}  # occurrence precision / recall of the relevant pairs
    rel = []         # relevant (i, j) pairs, reference-major order
    for i, rp in enumerate(reference_patterns):
        for j, ep in enumerate(estimated_patterns):
            s = _score_matrix(rp, ep)
            top = max(max(r) for r in s)  # = establishment score S[i][j]
            margin = _upd(margin, top, t)
            # "how similar two occurrences must be in order to be considered
            # equal": the pair of patterns is relevant when its best
            # occurrence pair reaches the threshold (non-strict)
            if top >= t:
                OP[i, j] = _col_max_mean(s)  # per estimated occurrence
                OR[i, j] = _row_max_mean(s)  # per reference occurrence
                rel.append((i, j))
    if not rel:
        return (0.0, 0.0, 0.0), margin
    # Sub-matrix indexed by the row indices and by the column indices of the
    # relevant pairs (an index occurring in several pairs is repeated);
    # entries of non-relevant pairs inside that sub-matrix are 0.
    rows = [i for i, _ in rel]
    cols = [j for _, j in rel]
    zero = Fraction(0)
    precision = _mean(max(OP.get((i, j), zero) for i in rows) for j in cols)
    recall = _mean(max(OR.get((i, j), zero) for j in cols) for i in rows)
    f = _f_measure(precision, recall)
    return (float(f), float(precision), float(recall)), margin


def _layer1_F(P, Q):
    """First layer: F1 between two occurrences (point sets).  One of
    |P n Q|/|P|, |P n Q|/|Q| is the precision and the other the recall; F1 is
    symmetric in them, so which is which has no observable effect."""
    s = len(P & Q)
    if s == 0:
        return Fraction(0)
    return _f_measure(Fraction(s, len(P)), Fraction(s, len(Q)))


def _layer2_F(ref_pattern, est_pattern):
    """Second layer: from the matrix of first-layer F1 between the occurrences
    of two patterns, precision = mean over estimated occurrences of their best
    score, recall = mean over reference occurrences of their best score."""
    R = [_pointset(o) for o in ref_pattern]
    E = [_pointset(o) for o in est_pattern]
    F1 = [[_layer1_F(p, q) for q in E] for p in R]
    return _f_measure(_col_max_mean(F1), _row_max_mean(F1))


def _three_layer(reference_patterns, estimated_patterns):
    F2 = [[_layer2_F(rp, ep) for ep in estimated_patterns]
          for rp in reference_patterns]
    # third layer: same construction over the patterns
    p3 = _col_max_mean(F2)
    r3 = _row_max_mean(F2)
    return _f_measure(p3, r3), p3, r3


def pattern_three_layer_FPR(reference_patterns, estimated_patterns):
    """((F, P, R), inf)."""
    _validate_patterns(reference_patterns, estimated_patterns)
    if _either_empty(reference_patterns, estimated_patterns):
        return (0.0, 0.0, 0.0), INF
    f, p, r = _three_layer(reference_patterns, estimated_patterns)
    return (float(f), float(p), float(r)), INF


def _first_n(estimated_patterns, n):
    # "only applied to the first n estimated patterns"
    return list(estimated_patterns)[: max(int(n), 0)]


def pattern_first_n_three_layer_P(reference_patterns, estimated_patterns, n=5):
    """(three-layer precision of the first n estimated patterns, inf)."""
    _validate_patterns(reference_patterns, estimated_patterns)
    if _either_empty(reference_patterns, estimated_patterns):
        return 0.0, INF
    first = _first_n(estimated_patterns, n)
    if _either_empty(reference_patterns, first):
        return 0.0, INF
    _, p, _ = _three_layer(reference_patterns, first)
    return float(p), INF


def pattern_first_n_target_proportion_R(reference_patterns, estimated_patterns,
                                        n=5):
    """(establishment recall of the first n estimated patterns, inf)."""
    _validate_patterns(reference_patterns, estimated_patterns)
    if _either_empty(reference_patterns, estimated_patterns):
        return 0.0, INF
    first = _first_n(estimated_patterns, n)
    if _either_empty(reference_patterns, first):
        return 0.0, INF
    S = _establishment_matrix(reference_patterns, first)
    return float(_row_max_mean(S)), INF
