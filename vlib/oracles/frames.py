"""Independent frame sampler for labelled intervals (C12/C13/C16 and the
structural predicates of C01).

Documented behaviour of util.intervals_to_samples: sample times k*sample_size
(+offset) for k < floor(max(intervals)/sample_size); each sample gets the label
of the interval containing it, the later interval at a shared boundary, the
fill value outside all intervals.
"""

from fractions import Fraction as F
import math

import numpy as np


def sample_times(intervals, sample_size, offset=0.0):
    """Exact sample times as Fractions, plus the float the library would use.

    The library computes times in float32 (arange(float32) * sample_size). For
    dyadic sample sizes that product is exact; otherwise the float32-rounded
    value is what is compared against boundaries, so a frame whose exact time
    is within ``guard`` of a boundary is reported as *ambiguous* by
    :func:`label_at_samples`."""
    mx = max(float(x) for x in np.asarray(intervals, dtype=float).ravel())
    n = int(math.floor(F(mx) / F(float(sample_size))))
    return [F(k) * F(float(sample_size)) + F(float(offset)) for k in range(max(n, 0))]


def label_at(intervals, labels, t, fill=None):
    """Label of the interval containing instant t (later one at a shared
    boundary; closed at both ends, as documented for interpolate_intervals)."""
    out = fill
    for (a, b), lab in zip(intervals, labels):
        if F(float(a)) <= t <= F(float(b)):
            out = lab  # later interval wins
    return out


def label_at_samples(intervals, labels, sample_size, offset=0.0, fill=None,
                     guard=F(1, 10 ** 6)):
    """(labels per frame, n_ambiguous). A frame is ambiguous when sample_size is
    not dyadic and its time is within ``guard`` of an interval boundary."""
    ts = sample_times(intervals, sample_size, offset)
    dyadic = _is_dyadic(sample_size) and _is_dyadic(offset)
    bounds = sorted({F(float(x)) for x in np.asarray(intervals, dtype=float).ravel()})
    labs = []
    amb = 0
    for t in ts:
        if not dyadic and any(abs(t - b) < guard for b in bounds):
            amb += 1
        labs.append(label_at(intervals, labels, t, fill))
    return labs, amb


def _is_dyadic(x):
    fr = F(float(x))
    d = fr.denominator
    return d & (d - 1) == 0 and d <= 2 ** 20


def fold(labels):
    """Case-insensitive label identity (documented for segment labels)."""
    return [str(s).lower() for s in labels]


def contingency(a, b):
    """Integer contingency table of two equal-length label sequences."""
    ra = sorted(set(a))
    rb = sorted(set(b))
    ia = {x: i for i, x in enumerate(ra)}
    ib = {x: i for i, x in enumerate(rb)}
    tab = [[0] * len(rb) for _ in ra]
    for x, y in zip(a, b):
        tab[ia[x]][ib[y]] += 1
    return tab
