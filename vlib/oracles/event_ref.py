"""Reference models ("oracles") for the event-matching metrics

    mir_eval.onset.f_measure
    mir_eval.segment.detection
    mir_eval.segment.deviation

written from the documented definitions (docstrings of onset.py / segment.py and
of util.match_events / util.intervals_to_boundaries / util.f_measure), not from
the implementation.  Nothing here imports mir_eval or numpy.

Every public function has the signature of the library function it models and
returns ``(value, margin)``:

* ``value``  -- same structure and order as the library result;
* ``margin`` -- the smallest distance ``|d - t|`` over all threshold comparisons
  (and quantisation steps) that the definition performs, counting only
  comparisons that are not exact ties; ``inf`` if there is none.  A caller should
  only compare with the library when the margin is comfortably larger than
  float rounding (say >= 1e-7).

All time arithmetic is done with ``fractions.Fraction`` built from the *float*
inputs, so "exact" always means "exact for the numbers the library was given".

Exact ties
----------
An exact tie (``d == t``) is decided exactly and normally does not reduce the
margin.  This is only sound if the library's float arithmetic also lands exactly
on the tie, which is guaranteed when every number involved is a small dyadic
rational (then sums, differences, mid-points are computed without rounding and
a correctly rounded quotient that is representable is exact).  Therefore ties
are *trusted* only when all numbers entering that comparison (times, and the
threshold if there is one) lie on the lattice ``k / 2**20, |x| < 2**20`` (see
:func:`on_lattice`); an exact tie on any other input sets the margin to 0.
"""

from fractions import Fraction
import math

INF = float("inf")
NAN = float("nan")

#: Inputs on which the library is known/suspected to deviate from its documented
#: definition (name -> structural description of the input class).
KNOWN_LIBRARY_DEVIATIONS = {
    # No deviation of onset.f_measure, segment.detection, segment.deviation from
    # their documented definitions was found by vlib.oracles.selftest_beat.
}


# --------------------------------------------------------------------------
# shared helpers (also imported by beat_ref)
# --------------------------------------------------------------------------

def fr(x):
    """Exact rational value of the float the library receives."""
    return Fraction(float(x))


def fr_list(xs):
    """1-d sequence of times -> list of Fractions (input order kept)."""
    try:
        it = list(xs.tolist()) if hasattr(xs, "tolist") else list(xs)
    except TypeError:
        it = [xs]
    return [fr(x) for x in it]


_LATTICE_DEN = 2 ** 20
_LATTICE_MAX = 2 ** 20


def on_lattice(*groups):
    """True iff every number in every group is k/2**20 with |x| < 2**20.

    On such inputs all additions/subtractions/halvings the library performs are
    exact in float64 (<= 42 significant bits), so exact ties seen by the oracle
    are also exact ties for the library."""
    for g in groups:
        for x in (g if isinstance(g, (list, tuple)) else [g]):
            if abs(x) >= _LATTICE_MAX or (x * _LATTICE_DEN).denominator != 1:
                return False
    return True


def float_exact(x):
    """Is the rational x representable as a float64?"""
    try:
        return Fraction(float(x)) == x
    except OverflowError:
        return False


class Margin(object):
    """Accumulates the smallest non-tie distance to a threshold."""

    def __init__(self, trusted_ties):
        self.value = INF
        self.trusted = bool(trusted_ties)      # default trust for exact ties

    def see(self, d, t, trusted=None):
        """Record the comparison of d against threshold t.  ``trusted`` (if not
        None) overrides the default trust for an exact tie."""
        if d == t:
            ok = self.trusted if trusted is None else trusted
            if not ok:
                self.value = 0.0
            return
        g = abs(float(d - t))
        if g < self.value:
            self.value = g

    def gap(self, g, trusted=None):
        """Record a distance g >= 0 to a quantisation boundary (0 == on it)."""
        self.see(g, 0, trusted)


def round_half_even(x):
    """Integer nearest to the rational x, halves to the even neighbour
    (the rounding rule of numpy.round / Python round)."""
    fl = x.numerator // x.denominator
    r = x - fl
    if r > Fraction(1, 2):
        return fl + 1
    if r < Fraction(1, 2):
        return fl
    return fl if fl % 2 == 0 else fl + 1


def dist_to_half_integer(x):
    """Distance of the rational x to the nearest k + 1/2."""
    r = x - (x.numerator // x.denominator)          # in [0, 1)
    return abs(r - Fraction(1, 2))


def max_matching_size(adj, n_right):
    """Size of a maximum matching of a bipartite graph given as adjacency lists
    ``adj[left] -> [right, ...]`` (Kuhn's augmenting paths, iterative DFS)."""
    owner = [-1] * n_right            # right vertex -> left vertex
    size = 0
    for root in range(len(adj)):
        if not adj[root]:
            continue
        seen = [False] * n_right
        # explicit stack of (left vertex, position in its adjacency list)
        stack = [[root, 0]]
        via = []                      # right vertices chosen along the path
        found = False
        while stack:
            u, k = stack[-1]
            if k >= len(adj[u]):
                stack.pop()
                if via:
                    via.pop()
                continue
            stack[-1][1] = k + 1
            v = adj[u][k]
            if seen[v]:
                continue
            seen[v] = True
            if owner[v] == -1:
                via.append(v)
                found = True
                break
            via.append(v)
            stack.append([owner[v], 0])
        if found:
            # stack[i] is matched to via[i] for every level of the path
            for (u, _k), v in zip(stack, via):
                owner[v] = u
            size += 1
    return size


def count_hits(ref, est, window, mg):
    """"the largest set of correspondences (ref[i], est[j]) such that
    |ref[i] - est[j]| <= window, and each ref[i] and est[j] is matched at most
    once" (util.match_events).  All pairs are tested by brute force."""
    adj = []
    for r in ref:
        row = []
        for j, e in enumerate(est):
            d = abs(r - e)
            # window == 0 with identical times is an exact tie for any floats
            mg.see(d, window, trusted=True if window == 0 else None)
            if d <= window:
                row.append(j)
        adj.append(row)
    return max_matching_size(adj, len(est))


def prf(hits, n_ref, n_est, beta=Fraction(1)):
    """precision = hits/|est|, recall = hits/|ref|,
    F = (1 + beta^2) P R / (beta^2 P + R), and F = 0 when P = R = 0."""
    p = Fraction(hits, n_est)
    r = Fraction(hits, n_ref)
    if p == 0 and r == 0:
        return 0.0, 0.0, 0.0
    b2 = beta * beta
    den = b2 * p + r
    if den == 0:                     # only reachable for beta outside (0, inf)
        return float(p), float(r), NAN
    return float(p), float(r), float((1 + b2) * p * r / den)


# --------------------------------------------------------------------------
# mir_eval.onset.f_measure
# --------------------------------------------------------------------------

def f_measure(reference_onsets, estimated_onsets, window=0.05):
    """onset.f_measure -> ((f_measure, precision, recall), margin).

    "Compute the F-measure of correct vs incorrectly predicted onsets.
    'Correctness' is determined over a small window."  "If either list is empty,
    return 0s".  Return order documented as f_measure, precision, recall."""
    ref = fr_list(reference_onsets)
    est = fr_list(estimated_onsets)
    w = fr(window)
    if not ref or not est:
        return (0.0, 0.0, 0.0), INF
    mg = Margin(on_lattice(ref, est, w))
    hits = count_hits(ref, est, w, mg)
    p, r, f = prf(hits, len(ref), len(est))
    return (f, p, r), mg.value


# --------------------------------------------------------------------------
# mir_eval.segment.detection / deviation
# --------------------------------------------------------------------------

_Q = 10 ** 5        # boundaries are rounded to 5 decimals


def _boundaries(intervals, mg):
    """util.intervals_to_boundaries: "Interval boundary times, including the end
    of the final interval", rounded to q=5 decimals and made unique (sorted).

    Boundaries are returned as integers in units of 1e-5 s.  The quantisation
    margin is the distance of t*1e5 to the nearest half-integer, expressed in
    seconds."""
    ks = set()
    rows = intervals.tolist() if hasattr(intervals, "tolist") else list(intervals)
    for row in rows:
        for t in row:
            x = fr(t) * _Q
            mg.gap(dist_to_half_integer(x) / _Q)
            ks.add(round_half_even(x))
    return sorted(ks)


def _segment_prepare(reference_intervals, estimated_intervals, trim):
    ref_t = [fr(t) for row in _rows(reference_intervals) for t in row]
    est_t = [fr(t) for row in _rows(estimated_intervals) for t in row]
    # rounding ties (t*1e5 exactly on k + 1/2) are reproducible for dyadic t
    mg = Margin(on_lattice(ref_t, est_t))
    rb = _boundaries(reference_intervals, mg)
    eb = _boundaries(estimated_intervals, mg)
    if trim:
        # "if True, the first and last boundary times are ignored"
        rb = rb[1:-1]
        eb = eb[1:-1]
    return rb, eb, mg


def _rows(intervals):
    return intervals.tolist() if hasattr(intervals, "tolist") else list(intervals)


def detection(reference_intervals, estimated_intervals, window=0.5, beta=1.0,
              trim=False):
    """segment.detection -> ((precision, recall, f_measure), margin).

    "A hit is counted whenever an reference boundary is within ``window`` of a
    estimated boundary.  Note that each boundary is matched at most once: this
    is achieved by computing the size of a maximal matching between reference
    and estimated boundary points, subject to the window constraint."
    "If we have no boundaries, we get no score."  Return order documented as
    precision, recall, f_measure."""
    w = fr(window)
    rb, eb, mg = _segment_prepare(reference_intervals, estimated_intervals, trim)
    if not rb or not eb:
        return (0.0, 0.0, 0.0), mg.value
    ref = [Fraction(k, _Q) for k in rb]
    est = [Fraction(k, _Q) for k in eb]
    # The library holds the rounded boundaries as floats k/1e5, which are exact
    # only for dyadic values; a window tie between inexact boundaries is decided
    # by rounding noise there, so it is not trusted.
    tie_ok = (mg.trusted and on_lattice(w)
              and all(float_exact(x) for x in ref + est))
    mg2 = Margin(tie_ok)
    hits = count_hits(ref, est, w, mg2)
    p, r, f = prf(hits, len(ref), len(est), fr(beta))
    return (p, r, f), min(mg.value, mg2.value)


def _median(xs):
    s = sorted(xs)
    n = len(s)
    if n % 2:
        return s[n // 2]
    return (s[n // 2 - 1] + s[n // 2]) / 2


def deviation(reference_intervals, estimated_intervals, trim=False):
    """segment.deviation -> ((reference_to_estimated, estimated_to_reference),
    margin).

    "reference_to_estimated: median time from each reference boundary to the
    closest estimated boundary; estimated_to_reference: median time from each
    estimated boundary to the closest reference boundary."  NaN pair when either
    side has no boundaries.  There is no threshold; the margin only reflects the
    5-decimal rounding of the boundaries."""
    rb, eb, mg = _segment_prepare(reference_intervals, estimated_intervals, trim)
    if not rb or not eb:
        return (NAN, NAN), mg.value
    r2e = _median([min(abs(r - e) for e in eb) for r in rb])
    e2r = _median([min(abs(r - e) for r in rb) for e in eb])
    return (float(Fraction(r2e) / _Q), float(Fraction(e2r) / _Q)), mg.value
