"""Independent executable reference ("oracle") for mir_eval.melody.

Written from the documented definitions (module docstring and function
docstrings of mir_eval/melody.py; Salamon et al. 2014 for the five measures,
Bittner & Bosch 2019 for the generalised -- non-binary voicing / reward --
formulas as the docstrings give them).  Nothing here imports or calls mir_eval.
The algorithms are deliberately different from the library's: plain Python
loops, ``bisect`` on exact rational knots instead of scipy.interpolate,
``fractions.Fraction`` built from the float inputs for every time comparison and
every sum, ``math.log2`` for cents.

Interface
---------
Every function has the name / parameters / defaults of the library function it
models and returns ``(value, margin)``:

* ``value`` has the structure the library returns (float, tuple of floats,
  numpy arrays, dict).
* ``margin`` (float >= 0, ``inf`` if no threshold comparison is involved) is the
  smallest ``|d - t|`` over the threshold comparisons ``d <op> t`` that decide a
  *discontinuous* outcome, counting only comparisons with ``d != t`` in exact
  arithmetic.  Exact ties are decided exactly as documented and do not reduce
  the margin.  A caller should skip cases whose margin is below ~1e-7.

Threshold comparisons of this module
------------------------------------
* cent tolerance (``|ref_cent - est_cent| < cent_tolerance``, STRICT, folded to
  the nearest octave for chroma); only frames carrying non-zero weight count.
* ``to_cent_voicing``: ``time[0] > 0`` (a sample at 0 is prepended), the
  "target extends beyond the source" test, the equal-time-base test (numpy
  ``allclose`` with its default tolerances), zero-order-hold knots (distance of
  a query time to a neighbouring knot across which the held zero/non-zero
  state or the binary voicing changes), ``floor(end_time / hop)``.
* Rounding of times to 10 decimals is a value-producing step, not a threshold;
  but when a time is so close to a rounding boundary that a float
  implementation could round either way the margin is set to 0.
"""

from fractions import Fraction
import bisect
import math

import numpy as np

INF = float("inf")

# numpy.allclose defaults (the documented "equivalent time bases" test)
_ATOL = Fraction(1e-8)
_RTOL = Fraction(1e-5)
_HALF = Fraction(1, 2)


# --------------------------------------------------------------------------
# small exact-arithmetic helpers
# --------------------------------------------------------------------------

def _fr(x):
    """Exact rational value of a float input."""
    return Fraction(float(x))


def _is_float(q):
    """True if the rational q is exactly representable as a double."""
    try:
        return Fraction(float(q)) == q
    except OverflowError:
        return False


def _floats(a):
    """1-d sequence -> list of python floats (never aliases the input)."""
    return [float(x) for x in np.asarray(a).ravel().tolist()]


def _round_q(q, ndec):
    """Round the rational q to ``ndec`` decimals (half to even, the numpy
    convention).

    Returns ``(value, ambiguous)``: value is the double nearest to the decimal
    result (what a float implementation holds after rounding); ambiguous tells
    that q*10**ndec is so close to a rounding boundary that a float computation
    of the product may fall on either side."""
    scale = 10 ** ndec
    s = q * scale
    n = round(s)  # Fraction.__round__: nearest integer, ties to even
    dist = abs((s - math.floor(s)) - _HALF)
    if dist == 0:
        # exact tie: a float implementation reproduces it only if both the
        # number and the scaled product are exact doubles
        ambiguous = not (_is_float(q) and _is_float(s))
    else:
        # spacing of doubles near s is about |s| * 2.2e-16
        ambiguous = dist <= abs(s) * Fraction(4, 10 ** 15) + Fraction(1, 10 ** 6)
    return n / float(scale), ambiguous


def _round_decimals(x, ndec):
    """_round_q for a float input."""
    return _round_q(_fr(x), ndec)


def _allclose(a, b):
    """numpy.allclose(a, b) on equal-length float lists, exactly, with margin.

    Element test: |a - b| <= atol + rtol * |b|.  The conjunction flips from
    True to False when the closest passing element fails; from False to True
    only when *every* failing element passes.  Elements that are identical
    (d == 0) cannot make a difference to any result computed afterwards and are
    not counted."""
    passing = INF
    failing = 0.0
    any_fail = False
    for x, y in zip(a, b):
        if math.isnan(x) or math.isnan(y) or math.isinf(x) or math.isinf(y):
            if x == y:  # equal infinities are close
                continue
            return False, 0.0
        fx, fy = _fr(x), _fr(y)
        d = abs(fx - fy)
        t = _ATOL + _RTOL * abs(fy)
        if d <= t:
            if d != 0 and d != t:
                passing = min(passing, float(t - d))
        else:
            any_fail = True
            failing = max(failing, float(d - t))
    if any_fail:
        return False, failing
    return True, passing


# --------------------------------------------------------------------------
# unit conversions
# --------------------------------------------------------------------------

def hz2cents(freq_hz, base_frequency=10.0):
    """Documented: "Convert an array of frequency values in Hz to cents.  0 values are left
    in place."  cents = 1200 * log2(|f| / base_frequency)."""
    out = []
    base = float(base_frequency)
    for f in _floats(freq_hz):
        if f == 0:
            out.append(0.0)  # "0 values are left in place"
        else:
            out.append(1200.0 * math.log2(abs(f) / base))
    return np.array(out, dtype=float), INF


def freq_to_voicing(frequencies, voicing=None):
    """Documented: "frames with frequency <= 0.0 are considered unvoiced, frames with
    frequency > 0.0 voiced.  If specified, voicing is used as the voicing array,
    but frequencies with value 0 are forced to have 0 voicing."  Returns the
    magnitudes ("Array of frequencies, all >= 0") and the voicing.  Pure: the
    inputs are never modified."""
    freqs = _floats(frequencies)
    if voicing is None:
        voiced = [1.0 if f > 0 else 0.0 for f in freqs]
    else:
        given = _floats(voicing)
        if len(given) != len(freqs):
            raise ValueError("voicing and frequencies differ in length")
        voiced = [0.0 if f == 0 else v for f, v in zip(freqs, given)]
    mags = [abs(f) for f in freqs]
    return (np.array(mags, dtype=float), np.array(voiced, dtype=float)), INF


# --------------------------------------------------------------------------
# time bases and resampling
# --------------------------------------------------------------------------

def constant_hop_timebase(hop, end_time):
    """Documented: "Generate a time series from 0 to end_time with times spaced hop apart";
    "Time series will span [0, end_time]"; the end time and the generated times
    are rounded to 10 decimals ("to avoid float problems")."""
    h = _fr(hop)
    if h <= 0:
        raise ValueError("hop must be positive")
    margin = INF
    end, amb = _round_decimals(end_time, 10)
    if amb:
        margin = 0.0
    quo = _fr(end) / h
    n = math.floor(quo)  # number of whole hops inside [0, end_time]
    # threshold: the count changes when end_time/hop crosses an integer
    if quo != n:
        margin = min(margin, float((quo - n) * h))
    margin = min(margin, float((n + 1 - quo) * h))
    times = []
    for k in range(n + 1):
        t, amb = _round_q(k * h, 10)
        if amb:
            margin = 0.0
        times.append(t)
    return np.array(times, dtype=float), margin


def resample_melody_series(times, frequencies, voicing, times_new, kind="linear"):
    """Documented: "Resamples frequency and voicing time series to a new timescale.
    Maintains any zero ("unvoiced") values in frequencies.  If times and
    times_new are equivalent, no resampling will be performed."

    Linear kind only.  Steps, as documented in the library's comments:
    times rounded to 10 decimals; "add in an additional sample if we'll be
    asking for a time too large" (a zero frequency / zero voicing sample at the
    largest target time); "fill in zero values with the last reported
    frequency"; linear interpolation of the held series; "retain zeros": the
    result is 0 wherever the zero-order hold of the original series is 0;
    voicing: zero-order hold if binary, linear interpolation otherwise."""
    if kind != "linear":
        raise NotImplementedError("oracle models kind='linear' only")
    t_src = _floats(times)
    f_src = _floats(frequencies)
    v_src = _floats(voicing)
    t_new = _floats(times_new)
    if not (len(t_src) == len(f_src) == len(v_src)):
        raise ValueError("times, frequencies and voicing differ in length")
    margin = INF

    # "If the timebases are already the same, no need to interpolate":
    # same shape and numpy-close
    if len(t_src) == len(t_new):
        close, m = _allclose(t_src, t_new)
        margin = min(margin, m)
        if close:
            return (np.array(f_src, dtype=float), np.array(v_src, dtype=float)), margin
    if len(t_new) == 0:
        return (np.zeros(0), np.zeros(0)), margin
    if len(t_src) == 0:
        raise ValueError("cannot resample an empty series")

    # "Round to avoid floating point problems"
    T, Q = [], []
    for x in t_src:
        r, amb = _round_decimals(x, 10)
        if amb:
            margin = 0.0
        T.append(_fr(r))
    for x in t_new:
        r, amb = _round_decimals(x, 10)
        if amb:
            margin = 0.0
        Q.append(_fr(r))

    # "Add in an additional sample if we'll be asking for a time too large"
    q_max, t_max = max(Q), max(T)
    if q_max != t_max:
        margin = min(margin, float(abs(q_max - t_max)))
    F_ = list(f_src)
    V_ = list(v_src)
    if q_max > t_max:
        T.append(q_max)
        F_.append(0.0)
        V_.append(0.0)

    # knots must be strictly increasing for interpolation to be defined
    if any(T[i + 1] <= T[i] for i in range(len(T) - 1)):
        margin = 0.0
        order = sorted(range(len(T)), key=lambda i: T[i])
        T = [T[i] for i in order]
        F_ = [F_[i] for i in order]
        V_ = [V_[i] for i in order]

    # "Fill in zero values with the last reported frequency"
    held = list(F_)
    for i in range(1, len(held)):
        if F_[i] == 0:
            held[i] = held[i - 1]

    # voicing is binary iff every value is exactly 0 or 1
    binary = all(v == 0 or v == 1 for v in V_)

    def jump(a, b):
        """does the zero-order-hold outcome differ between samples a and b?"""
        if (F_[a] == 0) != (F_[b] == 0):
            return True
        return binary and V_[a] != V_[b]

    def lerp(y, i, q):
        if q == T[i] or i + 1 >= len(T) or T[i + 1] == T[i]:
            return float(y[i])
        w = float((q - T[i]) / (T[i + 1] - T[i]))
        return float(y[i]) + (float(y[i + 1]) - float(y[i])) * w

    f_out, v_out = [], []
    for q in Q:
        if q < T[0] or q > T[-1]:
            raise ValueError("target time outside the range of the series")
        # zero-order hold: the last sample at or before q (a query exactly on a
        # knot takes that knot's value)
        i = bisect.bisect_right(T, q) - 1
        if q != T[i]:
            # moving q below T[i] would select sample i-1 (or leave the range)
            if i == 0 or jump(i - 1, i):
                margin = min(margin, float(q - T[i]))
        if i + 1 < len(T) and jump(i, i + 1):
            margin = min(margin, float(T[i + 1] - q))
        # "Linearly interpolate frequencies" (held series) and "retain zeros"
        f_out.append(lerp(held, i, q) if F_[i] != 0 else 0.0)
        # "if voicing is not binary, use linear interpolation; otherwise,
        # always use zeroth order"
        v_out.append(float(V_[i]) if binary else lerp(V_, i, q))
    return (np.array(f_out, dtype=float), np.array(v_out, dtype=float)), margin


def to_cent_voicing(
    ref_time,
    ref_freq,
    est_time,
    est_freq,
    est_voicing=None,
    ref_reward=None,
    base_frequency=10.0,
    hop=None,
    kind="linear",
):
    """Documented: "Convert reference and estimated time/frequency (Hz) annotations to
    sampled frequency (cent)/voicing arrays."  Returns
    ``((ref_voicing, ref_cent, est_voicing, est_cent), margin)``.

    Pure: no input array is modified.  Empty series (undocumented in the
    library, whose measures define 0 for empty input): an empty reference gives
    four empty arrays (the estimate is truncated to the reference length, so
    every measure is 0 by its empty-input rule).  An empty estimate with a
    non-empty reference is zero-padded to the reference length, but since the
    measures' "empty estimate -> 0" rule suggests a different reading, that
    case is reported with margin 0 (undecided)."""
    if kind != "linear":
        raise NotImplementedError("oracle models kind='linear' only")
    rt, rf = _floats(ref_time), _floats(ref_freq)
    et, ef = _floats(est_time), _floats(est_freq)
    ev = None if est_voicing is None else _floats(est_voicing)
    rr = None if ref_reward is None else _floats(ref_reward)
    if len(rt) != len(rf) or len(et) != len(ef):
        raise ValueError("times and frequencies differ in length")
    margin = INF

    def prepare(t, f, v):
        """time-0 padding, voicing/magnitude split, cents"""
        nonlocal margin
        if not t:
            return [], np.zeros(0), np.zeros(0)
        # "Check if missing sample at time 0 and if so add one": repeats the
        # first frequency (and first voicing / reward value)
        if t[0] != 0:
            margin = min(margin, abs(t[0]))  # threshold: time[0] > 0
        if t[0] > 0:
            t = [0.0] + t
            f = [f[0]] + f
            if v is not None:
                v = [v[0]] + v
        # voicing from the sign (or the supplied array, forced to 0 at 0 Hz),
        # pitch from the magnitude
        (mag, voi), _ = freq_to_voicing(f, v)
        # "convert both sequences to cents"
        cent, _ = hz2cents(mag, base_frequency)
        return t, cent, voi

    rt, ref_cent, ref_voicing = prepare(rt, rf, rr)
    et, est_cent, est_voicing_ = prepare(et, ef, ev)
    if rt and not et:
        margin = 0.0  # documented behaviour undecided, see docstring

    if not rt:
        # nothing to evaluate against: estimate truncated to length 0
        z = np.zeros(0)
        return (z, z.copy(), z.copy(), z.copy()), margin

    if hop is not None:
        # "If we received a hop, use it to resample both" onto
        # constant_hop_timebase(hop, max time)
        base_r, m = constant_hop_timebase(hop, max(rt))
        margin = min(margin, m)
        (ref_cent, ref_voicing), m = resample_melody_series(
            rt, ref_cent, ref_voicing, base_r, kind)
        margin = min(margin, m)
        if et:
            base_e, m = constant_hop_timebase(hop, max(et))
            margin = min(margin, m)
            (est_cent, est_voicing_), m = resample_melody_series(
                et, est_cent, est_voicing_, base_e, kind)
            margin = min(margin, m)
    elif et:
        # "Otherwise, only resample estimated to the reference time base"
        (est_cent, est_voicing_), m = resample_melody_series(
            et, est_cent, est_voicing_, rt, kind)
        margin = min(margin, m)

    # "ensure the estimated sequence is the same length as the reference":
    # zero-pad or truncate
    n = len(ref_cent)
    ec = list(est_cent[:n]) + [0.0] * max(0, n - len(est_cent))
    evv = list(est_voicing_[:n]) + [0.0] * max(0, n - len(est_voicing_))
    return (
        np.array(ref_voicing, dtype=float),
        np.array(ref_cent, dtype=float),
        np.array(evv, dtype=float),
        np.array(ec, dtype=float),
    ), margin


# --------------------------------------------------------------------------
# the frame measures
# --------------------------------------------------------------------------

def _check_voicing(ref_voicing, est_voicing):
    """validate_voicing: same length, values between 0 and 1."""
    rv, ev = _floats(ref_voicing), _floats(est_voicing)
    if len(rv) != len(ev):
        raise ValueError("Reference and estimated voicing arrays should be the same length.")
    for v in rv + ev:
        if v < 0 or v > 1:
            raise ValueError("Voicing arrays must be between 0 and 1.")
    return rv, ev


def _check_all(ref_voicing, ref_cent, est_voicing, est_cent):
    rv, ev = _check_voicing(ref_voicing, est_voicing)
    rc, ec = _floats(ref_cent), _floats(est_cent)
    if not (len(rv) == len(rc) == len(ev) == len(ec)):
        raise ValueError("All voicing and frequency arrays must have the same length.")
    return rv, rc, ev, ec


def voicing_recall(ref_voicing, est_voicing):
    """Documented: "Voicing recall rate, the fraction of voiced frames in ref indicated as
    voiced in est".  Empty input -> 0; no voiced reference frame -> 1.
    Generalised: sum of est_voicing over the frames with ref_voicing > 0,
    divided by the number of such frames."""
    rv, ev = _floats(ref_voicing), _floats(est_voicing)
    if len(rv) == 0 or len(ev) == 0:
        return 0.0, INF
    if len(rv) != len(ev):
        raise ValueError("voicing arrays differ in length")
    n = sum(1 for r in rv if r > 0)
    if n == 0:
        return 1.0, INF
    s = sum((_fr(e) for r, e in zip(rv, ev) if r > 0), Fraction(0))
    return float(s / n), INF


def voicing_false_alarm(ref_voicing, est_voicing):
    """Documented: "Voicing false alarm rate, the fraction of unvoiced frames in ref
    indicated as voiced in est".  Empty input -> 0; no unvoiced reference frame
    -> 0."""
    rv, ev = _floats(ref_voicing), _floats(est_voicing)
    if len(rv) == 0 or len(ev) == 0:
        return 0.0, INF
    if len(rv) != len(ev):
        raise ValueError("voicing arrays differ in length")
    n = sum(1 for r in rv if r == 0)
    if n == 0:
        return 0.0, INF
    s = sum((_fr(e) for r, e in zip(rv, ev) if r == 0), Fraction(0))
    return float(s / n), INF


def voicing_measures(ref_voicing, est_voicing):
    """(vx_recall, vx_false_alarm) after the documented validation."""
    _check_voicing(ref_voicing, est_voicing)
    rec, _ = voicing_recall(ref_voicing, est_voicing)
    fa, _ = voicing_false_alarm(ref_voicing, est_voicing)
    return (rec, fa), INF


def _pitch_hits(rc, ec, cent_tolerance, weights, chroma):
    """Per frame: is the estimated pitch correct?  Only frames where both cent
    values are non-zero are candidates (a cent value of exactly 0 is the
    module's "no pitch" marker: hz2cents leaves 0 Hz at 0).  STRICT comparison
    ``deviation < cent_tolerance``.  For chroma the deviation is folded to the
    nearest octave.  Margin: frames with zero weight are not counted."""
    tol = _fr(cent_tolerance)
    hits = []
    margin = INF
    for r, e, w in zip(rc, ec, weights):
        if r == 0 or e == 0:
            hits.append(None)  # not a candidate frame
            continue
        d = abs(_fr(r) - _fr(e))
        if chroma:
            # "mapped onto a single octave": distance to the nearest multiple
            # of 1200 cents
            d = abs(d - 1200 * math.floor(d / 1200 + _HALF))
        hits.append(d < tol)
        if w != 0 and d != tol:
            margin = min(margin, float(abs(d - tol)))
    return hits, margin


def _raw_accuracy(ref_voicing, ref_cent, est_voicing, est_cent, cent_tolerance, chroma):
    rv, rc, _, ec = _check_all(ref_voicing, ref_cent, est_voicing, est_cent)
    # "When input arrays are empty, return 0 by special case.  If there are no
    # voiced frames in reference, metric is 0"
    total = sum((_fr(v) for v in rv), Fraction(0))
    if len(rv) == 0 or total == 0:
        return 0.0, INF
    hits, margin = _pitch_hits(rc, ec, cent_tolerance, rv, chroma)
    if all(h is None for h in hits):
        return 0.0, INF
    # "the fraction of voiced frames in ref_cent for which est_cent provides a
    # correct frequency value"; generalised: frames weighted by the reference
    # voicing (reward); the estimated voicing is ignored
    s = sum((_fr(v) for v, h in zip(rv, hits) if h), Fraction(0))
    return float(s / total), margin


def raw_pitch_accuracy(ref_voicing, ref_cent, est_voicing, est_cent, cent_tolerance=50):
    """Raw pitch accuracy (within cent_tolerance cents, strict)."""
    return _raw_accuracy(ref_voicing, ref_cent, est_voicing, est_cent, cent_tolerance, False)


def raw_chroma_accuracy(ref_voicing, ref_cent, est_voicing, est_cent, cent_tolerance=50):
    """Raw chroma accuracy: as raw pitch, "ignoring octave errors"."""
    return _raw_accuracy(ref_voicing, ref_cent, est_voicing, est_cent, cent_tolerance, True)


def overall_accuracy(ref_voicing, ref_cent, est_voicing, est_cent, cent_tolerance=50):
    """Documented: "Overall accuracy, the total fraction of correctly estimated frames".

    Generalised form (Bittner & Bosch): with b = [ref_voicing > 0],
    ( (sum b / sum ref_voicing) * sum_{pitch correct} ref_voicing*est_voicing
      + sum (1 - b) * (1 - est_voicing) ) / n_frames ;
    the first factor is 0 when the reference has no voicing mass."""
    rv, rc, ev, ec = _check_all(ref_voicing, ref_cent, est_voicing, est_cent)
    if len(rv) == 0:
        return 0.0, INF  # "When input arrays are empty, return 0"
    weights = [r * e for r, e in zip(rv, ev)]
    hits, margin = _pitch_hits(rc, ec, cent_tolerance, weights, False)
    total = sum((_fr(v) for v in rv), Fraction(0))
    n_voiced = sum(1 for v in rv if v > 0)
    ratio = Fraction(0) if total == 0 else Fraction(n_voiced) / total
    if ratio == 0:
        margin = INF  # pitch comparisons carry no weight at all
    tp = sum((_fr(r) * _fr(e) for r, e, h in zip(rv, ev, hits) if h), Fraction(0))
    tn = sum((1 - _fr(e) for r, e in zip(rv, ev) if not r > 0), Fraction(0))
    return float((ratio * tp + tn) / len(rv)), margin


def evaluate(ref_time, ref_freq, est_time, est_freq, est_voicing=None,
             ref_reward=None, **kwargs):
    """All five measures; keyword arguments are routed to the functions that
    declare them (base_frequency, hop, kind -> to_cent_voicing;
    cent_tolerance -> the three accuracies)."""
    tcv = {k: kwargs[k] for k in ("base_frequency", "hop", "kind") if k in kwargs}
    acc = {k: kwargs[k] for k in ("cent_tolerance",) if k in kwargs}
    (rv, rc, ev, ec), margin = to_cent_voicing(
        ref_time, ref_freq, est_time, est_freq, est_voicing, ref_reward, **tcv)
    scores = {}
    scores["Voicing Recall"], _ = voicing_recall(rv, ev)
    scores["Voicing False Alarm"], _ = voicing_false_alarm(rv, ev)
    for key, fn in (("Raw Pitch Accuracy", raw_pitch_accuracy),
                    ("Raw Chroma Accuracy", raw_chroma_accuracy),
                    ("Overall Accuracy", overall_accuracy)):
        scores[key], m = fn(rv, rc, ev, ec, **acc)
        margin = min(margin, m)
    return scores, margin
