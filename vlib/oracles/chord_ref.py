"""Independent executable reference specification for mir_eval chord labels.

Written from the *documentation* of ``mir_eval.chord`` (module docstring and
the docstrings of ``split``, ``join``, ``encode``, ``scale_degree_to_bitmap``,
``quality_to_bitmap`` and the twelve comparison functions) and from ordinary
music theory.  Nothing is imported from mir_eval, no regular expression is
used, and no table is copied: note names and scale degrees are derived from the
whole/half-step pattern of the major scale, chord qualities are stated as
interval sets, and the extended-chord reduction is stated as a rule ("stack the
odd degrees from the 9th up to the named one on the matching seventh chord").

Grammar (Harte et al.), recognised by a hand-written recursive-descent parser::

    label    := "N" | "X" | chord
    chord    := root [ ":" body ] [ "/" bass ]
    body     := shorthand [ "(" degrees ")" ]  |  "(" degrees ")"
    root     := ("A".."G") accidentals
    accidentals := "b"*  |  "#"*            (never mixed)
    degrees  := item ( "," item )*
    item     := [ "*" ] accidentals number
    bass     := accidentals number
    number   := "1".."13"                    (no leading zero)

The whole string must be consumed; no white space, no trailing newline.

Encoding conventions (see the final notes in DOCUMENTATION_AMBIGUITIES for the
places where the documentation leaves a choice open):

* root   = pitch class of the letter +/- accidentals, mod 12 (C = 0)
* degree = major-scale semitone of the number +/- accidentals (1 -> 0, 8 -> 12,
           13 -> 21), possibly negative or >= 12
* pitch set: quality's interval set, root forced in, then every *distinct*
  degree item contributes +1 (addition) or -1 (omission) to its semitone and a
  semitone is present iff (quality has it ? 1 : 0) + sum > 0.  A degree whose
  semitone is >= 12 is discarded unless ``reduce_extended_chords`` (then folded
  mod 12); a negative semitone (``b1``) is folded mod 12 in both modes.
* bass   = degree semitone mod 12; absent from the pitch set -> InvalidChord if
  ``strict_bass_intervals`` else it is added to the pitch set.
"""

from collections import namedtuple
from functools import lru_cache

__all__ = ["InvalidChord", "recognise", "parse", "encode", "join", "vocab",
           "compare", "pitch_set", "RULES", "SHORTHANDS", "QUALITY_SETS",
           "KNOWN_LIBRARY_DEVIATIONS", "DOCUMENTATION_AMBIGUITIES"]


class InvalidChord(Exception):
    """The label is not in the grammar, or has no documented encoding."""


# --------------------------------------------------------------------------
# Music-theory primitives (derived, not tabulated)
# --------------------------------------------------------------------------
_MAJOR_STEPS = (2, 2, 1, 2, 2, 2, 1)          # W W H W W W H


def _major_scale(n_degrees):
    out, here = [], 0
    for k in range(n_degrees):
        out.append(here)
        here += _MAJOR_STEPS[k % 7]
    return out


# C major: the naturals C D E F G A B sit on the major scale built on 0.
_LETTER_PC = dict(zip("CDEFGAB", _major_scale(7)))
# Diatonic degree n (1-based) -> semitones above the root in the major scale.
_DEGREE_ST = dict(zip(range(1, 14), _major_scale(13)))

# interval names (semitones above the root)
P1, M2, m3, M3, P4, d5, P5, A5, M6, m7, M7 = 0, 2, 3, 4, 5, 6, 7, 8, 9, 10, 11
d7 = M6  # diminished seventh is enharmonic to the major sixth

_TRIADS = {
    "maj": {P1, M3, P5},
    "min": {P1, m3, P5},
    "aug": {P1, M3, A5},
    "dim": {P1, m3, d5},
    "sus4": {P1, P4, P5},
    "sus2": {P1, M2, P5},
}
_SEVENTHS = {
    "7": _TRIADS["maj"] | {m7},
    "maj7": _TRIADS["maj"] | {M7},
    "min7": _TRIADS["min"] | {m7},
    "minmaj7": _TRIADS["min"] | {M7},
    "dim7": _TRIADS["dim"] | {d7},
    "hdim7": _TRIADS["dim"] | {m7},
}
_SIXTHS = {
    "maj6": _TRIADS["maj"] | {M6},
    "min6": _TRIADS["min"] | {M6},
}
# Extended chords: in closed voicing (one octave) an extended chord is its
# seventh chord; the upper voices are only *extensions* (module docstring,
# "tetrads": ('A:7', 'A:9') are equivalent).  family prefix -> seventh chord.
_EXT_FAMILY = {"": "7", "maj": "maj7", "min": "min7"}
_EXT_DOCUMENTED = ("9", "11", "13", "maj9", "maj13", "min9", "min11", "min13")
# NB: "maj11" is in the grammar but has no documented quality/reduction.


def _ext_split(name):
    """'min11' -> ('min', 11)."""
    k = 0
    while k < len(name) and not name[k].isdigit():
        k += 1
    return name[:k], int(name[k:])


_EXTENDED = {}
for _name in _EXT_DOCUMENTED:
    _fam, _top = _ext_split(_name)
    _EXTENDED[_name] = (_EXT_FAMILY[_fam], tuple(range(9, _top + 1, 2)))

QUALITY_SETS = {}
QUALITY_SETS.update({k: frozenset(v) for k, v in _TRIADS.items()})
QUALITY_SETS.update({k: frozenset(v) for k, v in _SEVENTHS.items()})
QUALITY_SETS.update({k: frozenset(v) for k, v in _SIXTHS.items()})
QUALITY_SETS.update({k: QUALITY_SETS[b] for k, (b, _) in _EXTENDED.items()})
QUALITY_SETS["1"] = frozenset({P1})
QUALITY_SETS["5"] = frozenset({P1, P5})
QUALITY_SETS[""] = frozenset()

# The 26 shorthands of the grammar (two of them, aug7 and maj11, have no
# documented quality and therefore no encoding).
SHORTHANDS = frozenset(
    list(_TRIADS) + list(_SEVENTHS) + list(_SIXTHS) + list(_EXT_DOCUMENTED)
    + ["1", "5", "aug7", "maj11"])
assert len(SHORTHANDS) == 26

# --------------------------------------------------------------------------
# Recursive-descent recogniser
# --------------------------------------------------------------------------
# A degree item: omit flag, signed accidental count (flats negative), number.
Degree = namedtuple("Degree", "omit acc number")
_Chord = namedtuple("_Chord", "kind letter acc shorthand degrees bass")
# kind in {"N", "X", "chord"}; degrees is None or a non-empty tuple of Degree;
# bass is None or a Degree with omit False.


class _Reject(Exception):
    pass


class _Reader(object):
    __slots__ = ("s", "i", "n")

    def __init__(self, s):
        self.s, self.i, self.n = s, 0, len(s)

    def peek(self):
        return self.s[self.i] if self.i < self.n else ""

    def eat(self, ch):
        if self.i < self.n and self.s[self.i] == ch:
            self.i += 1
            return True
        return False

    def expect(self, ch):
        if not self.eat(ch):
            raise _Reject()

    def at_end(self):
        return self.i >= self.n


def _accidentals(rd):
    """b* | #*  -> signed count.  A mixed run is left for the caller to trip
    over (the character after the run is never an accidental in the grammar)."""
    k = 0
    if rd.peek() == "b":
        while rd.eat("b"):
            k -= 1
    elif rd.peek() == "#":
        while rd.eat("#"):
            k += 1
    return k


def _number(rd):
    """1..13 without leading zero, longest match."""
    c = rd.peek()
    if c == "" or c not in "123456789":
        raise _Reject()
    rd.i += 1
    if c == "1":
        d = rd.peek()
        if d != "" and d in "0123":
            rd.i += 1
            return 10 + "0123".index(d)
    return "123456789".index(c) + 1


def _degree(rd, allow_omit):
    omit = False
    if allow_omit and rd.eat("*"):
        omit = True
    acc = _accidentals(rd)
    return Degree(omit, acc, _number(rd))


def _degree_list(rd):
    rd.expect("(")
    items = [_degree(rd, True)]
    while rd.eat(","):
        items.append(_degree(rd, True))
    rd.expect(")")
    return tuple(items)


def _shorthand(rd):
    """Longest run of shorthand characters; must be one of the 26 names."""
    j = rd.i
    while j < rd.n and rd.s[j] not in "(/":
        j += 1
    word = rd.s[rd.i:j]
    if word not in SHORTHANDS:
        raise _Reject()
    rd.i = j
    return word


def _chord(rd):
    c = rd.peek()
    if c == "" or c not in "ABCDEFG":
        raise _Reject()
    rd.i += 1
    acc = _accidentals(rd)
    shorthand, degrees, bass = None, None, None
    if rd.eat(":"):
        if rd.peek() == "(":
            degrees = _degree_list(rd)
        else:
            shorthand = _shorthand(rd)
            if rd.peek() == "(":
                degrees = _degree_list(rd)
    if rd.eat("/"):
        bass = _degree(rd, False)
    return _Chord("chord", c, acc, shorthand, degrees, bass)


def _analyse(label):
    if not isinstance(label, str):
        raise InvalidChord("not a string: %r" % (label,))
    if label == "N":
        return _Chord("N", None, 0, None, None, None)
    if label == "X":
        return _Chord("X", None, 0, None, None, None)
    rd = _Reader(label)
    try:
        ast = _chord(rd)
        if not rd.at_end():
            raise _Reject()
    except _Reject:
        raise InvalidChord("not a chord label: %r" % (label,))
    return ast


def recognise(label):
    """True iff ``label`` is a string of the documented chord syntax."""
    try:
        _analyse(label)
    except InvalidChord:
        return False
    return True


# --------------------------------------------------------------------------
# Parts (mirror of the documented behaviour of split)
# --------------------------------------------------------------------------
def _acc_text(k):
    return "b" * (-k) if k < 0 else "#" * k


def _degree_text(d):
    return ("*" if d.omit else "") + _acc_text(d.acc) + str(d.number)


def _parts(ast, reduce_extended_chords):
    """(root_text, quality, frozenset(Degree), bass Degree) for a chord."""
    root = ast.letter + _acc_text(ast.acc)
    degrees = set(ast.degrees or ())
    if ast.shorthand is not None:
        quality = ast.shorthand
    else:
        # no quality AND no interval information -> major;
        # intervals WITHOUT a quality -> empty quality
        quality = "" if degrees else "maj"
    if reduce_extended_chords:
        if quality == "minmaj7":
            quality = "min"
            degrees.add(Degree(False, 0, 7))
        elif quality in _EXTENDED:
            quality, upper = _EXTENDED[quality]
            degrees.update(Degree(False, 0, n) for n in upper)
    bass = ast.bass if ast.bass is not None else Degree(False, 0, 1)
    return root, quality, frozenset(degrees), bass


def parse(label, reduce_extended_chords=False):
    """-> (root, quality, frozenset of degree strings, bass)"""
    ast = _analyse(label)
    if ast.kind in ("N", "X"):
        # "N" is documented by example in the code path of split; "X" is not
        # documented at all -- see DOCUMENTATION_AMBIGUITIES["split_X"].
        return (ast.kind, "", frozenset(), "")
    root, quality, degrees, bass = _parts(ast, bool(reduce_extended_chords))
    return (root, quality, frozenset(_degree_text(d) for d in degrees),
            _degree_text(bass))


# --------------------------------------------------------------------------
# Encoder on interval sets
# --------------------------------------------------------------------------
def _semitone(d):
    return _DEGREE_ST[d.number] + d.acc


_N_ENC = (-1, (0,) * 12, -1)
_X_ENC = (-1, (-1,) * 12, -1)


def _encode_sets(label, reduce_extended_chords, strict_bass_intervals):
    """-> (kind, root, frozenset pitch set relative to the root, bass)."""
    ast = _analyse(label)
    if ast.kind == "N":
        return ("N", -1, frozenset(), -1)
    if ast.kind == "X":
        return ("X", -1, None, -1)
    reduce_ = bool(reduce_extended_chords)
    _, quality, degrees, bass = _parts(ast, reduce_)
    if quality not in QUALITY_SETS:
        raise InvalidChord("no documented quality for shorthand %r in %r"
                           % (quality, label))
    root = (_LETTER_PC[ast.letter] + ast.acc) % 12
    bass_st = _semitone(bass) % 12

    base = set(QUALITY_SETS[quality])
    base.add(P1)                                   # the root is always present
    balance = {}
    for d in degrees:                              # distinct items, each once
        st = _semitone(d)
        if st >= 12:
            if not reduce_:
                continue                           # beyond the octave: dropped
            st %= 12
        elif st < 0:
            st %= 12                               # below the root: pitch class
        balance[st] = balance.get(st, 0) + (-1 if d.omit else 1)
    tones = set()
    for st in range(12):
        if (1 if st in base else 0) + balance.get(st, 0) > 0:
            tones.add(st)

    if bass_st not in tones:
        if strict_bass_intervals:
            raise InvalidChord("bass degree absent from the chord: %r" % (label,))
        tones.add(bass_st)
    return ("chord", root, frozenset(tones), bass_st)


def pitch_set(label, reduce_extended_chords=False, strict_bass_intervals=False):
    """Pitch set relative to the root (frozenset of 0..11); empty for N;
    None for X."""
    return _encode_sets(label, reduce_extended_chords, strict_bass_intervals)[2]


def encode(label, reduce_extended_chords=False, strict_bass_intervals=False):
    """-> (root:int, bitmap: tuple of 12 ints, bass:int)"""
    kind, root, tones, bass = _encode_sets(label, reduce_extended_chords,
                                           strict_bass_intervals)
    if kind == "N":
        return _N_ENC
    if kind == "X":
        return _X_ENC
    return (root, tuple(1 if st in tones else 0 for st in range(12)), bass)


# --------------------------------------------------------------------------
# join
# --------------------------------------------------------------------------
def join(root, quality="", extensions=None, bass=""):
    label = root
    if quality or extensions:
        label += ":" + quality
    if extensions:
        if isinstance(extensions, (set, frozenset)):
            extensions = sorted(extensions)        # any order is equivalent
        label += "(" + ",".join(extensions) + ")"
    if bass and bass != "1":
        label += "/" + bass
    if not recognise(label):
        raise InvalidChord("joined parts are not a chord label: %r" % (label,))
    return label


# --------------------------------------------------------------------------
# Vocabularies and comparison rules
# --------------------------------------------------------------------------
RULES = ("thirds", "thirds_inv", "triads", "triads_inv", "tetrads",
         "tetrads_inv", "root", "mirex", "majmin", "majmin_inv", "sevenths",
         "sevenths_inv")

_LOW = frozenset(range(8))                        # "through the #5th degree"
_MAJ, _MIN = QUALITY_SETS["maj"], QUALITY_SETS["min"]
_SEVENTHS_VOCAB = tuple(QUALITY_SETS[q] for q in ("maj", "min", "maj7", "7", "min7"))
_MIREX_MIN = 3


@lru_cache(maxsize=65536)
def _ref(label):
    return _encode_sets(label, False, False)


@lru_cache(maxsize=65536)
def _vocab_of(enc):
    """Read-only dict (shared through the cache: callers must not mutate)."""
    kind, root, tones, bass = enc
    if kind == "X":
        return dict(is_N=False, is_X=True, majmin=False, majmin_inv=False,
                    majmin_inv_as_coded=False, sevenths=False,
                    sevenths_inv=False, mirex=False)
    if kind == "N":
        return dict(is_N=True, is_X=False, majmin=True, majmin_inv=True,
                    majmin_inv_as_coded=True, sevenths=True,
                    sevenths_inv=True, mirex=True)
    low = tones & _LOW
    majmin = low == _MAJ or low == _MIN
    sevenths = tones in _SEVENTHS_VOCAB
    return dict(
        is_N=False, is_X=False,
        majmin=majmin,
        # documented: "the bass note must exist in the triad (bass in [1,3,5])"
        majmin_inv=majmin and bass in low,
        # summary given to me / what the library computes: bass in the encoded
        # pitch set, which contains the bass by construction (always true)
        majmin_inv_as_coded=majmin and bass in tones,
        sevenths=sevenths,
        sevenths_inv=sevenths and bass in tones,
        mirex=not (0 < len(tones) < _MIREX_MIN),
    )


def vocab(label):
    """Vocabulary membership of ``label`` taken as a REFERENCE chord."""
    return dict(_vocab_of(_ref(label)))


def compare(rule, ref_label, est_label, lenient_majmin_inv=False):
    """1.0 / 0.0 / -1.0 for one (reference, estimate) pair under ``rule``.

    ``lenient_majmin_inv=True`` replaces the documented majmin_inv bass clause
    (bass in the triad) by "bass in the encoded pitch set" (vacuous)."""
    if rule not in RULES:
        raise ValueError("unknown rule %r" % (rule,))
    r = _ref(ref_label)
    e = _ref(est_label)
    rk, rroot, rset, rbass = r
    ek, eroot, eset, ebass = e
    if rk == "X":
        return -1.0
    voc = _vocab_of(r)
    if rule in ("majmin", "sevenths", "sevenths_inv", "mirex"):
        if not voc[rule]:
            return -1.0
    elif rule == "majmin_inv":
        if not voc["majmin_inv_as_coded" if lenient_majmin_inv else "majmin_inv"]:
            return -1.0

    same_root = rroot == eroot                    # sentinel -1 for N and X
    if rule == "root":
        return 1.0 if same_root else 0.0

    if rule == "mirex":
        if rk == "N" and ek == "N":
            return 1.0
        if ek != "chord" or rk != "chord":
            return 0.0                            # N / X carry no pitch class
        ra = set((rroot + st) % 12 for st in rset)
        ea = set((eroot + st) % 12 for st in eset)
        return 1.0 if len(ra & ea) >= _MIREX_MIN else 0.0

    if ek == "X":
        return 0.0                                # unknown content agrees with nothing
    same_bass = rbass == ebass
    if rule in ("thirds", "thirds_inv"):
        ok = same_root and ((m3 in rset) == (m3 in eset))
    elif rule in ("triads", "triads_inv", "majmin", "majmin_inv"):
        ok = same_root and (rset & _LOW) == (eset & _LOW)
    else:                                         # tetrads*, sevenths*
        ok = same_root and rset == eset
    if rule.endswith("_inv"):
        ok = ok and same_bass
    return 1.0 if ok else 0.0


# --------------------------------------------------------------------------
# Findings of the self-test (vlib.oracles.selftest_chord)
# --------------------------------------------------------------------------
KNOWN_LIBRARY_DEVIATIONS = {
    "trailing_newline_accepted":
        "validate_chord_label (hence split, join, validate and every "
        "comparison function's input check) accepts any grammatical label "
        "followed by exactly one '\\n' (e.g. 'C\\n', 'N\\n', 'C:maj/5\\n'), "
        "because the regular expression ends in '$'.  split('C\\n') returns "
        "['C\\n','maj',set(),'1']; encode of such a label still raises "
        "InvalidChordException.  The grammar has no white space.",
    "majmin_inv_bass_outside_triad":
        "majmin_inv documents 'the bass note must exist in the triad (bass in "
        "[1, 3, 5])', but encode() inserts the bass into the bitmap before the "
        "inversion test, so the test is vacuous: a REFERENCE whose pitches "
        "below semitone 8 form a major/minor triad and whose bass semitone is "
        "8..11 (b6/#5, 6, b7, 7) is scored instead of returning -1.  Minimal: "
        "majmin_inv(['C:maj/7'], ['C:maj/7']) -> 1.0 and "
        "majmin_inv(['C:maj/b7'], ['C:maj']) -> 0.0; documented: -1.0.",
    "mirex_estimate_X_counts_as_every_pitch_class":
        "mirex rotates the estimate's bitmap with rotate_bitmaps_to_roots, "
        "which treats the twelve -1 markers of an 'X' estimate as twelve "
        "active pitch classes, so every comparable chord reference 'shares "
        ">= 3 pitch classes' with X: mirex(['C:maj'], ['X']) -> 1.0.  An "
        "unknown chord shares no known pitch class; documented rule gives 0.",
    "mirex_reference_N_estimate_X":
        "mirex's no-chord shortcut tests root == -1 on both sides, and X also "
        "encodes with root -1: mirex(['N'], ['X']) -> 1.0.  Only N vs N is a "
        "no-chord match; N and X share no pitch class, so the rule gives 0.",
    "split_X_is_a_major_chord":
        "split('X') returns ['X', 'maj', set(), '1'] (root 'X', quality "
        "'maj'), unlike split('N') = ['N', '', set(), '']; consequently "
        "join(*split('X')) builds 'X:maj' and raises InvalidChordException. "
        "LOW CONFIDENCE: the documentation of split does not mention X at "
        "all; the oracle mirrors the N case because X, like N, has no root.",
}

DOCUMENTATION_AMBIGUITIES = {
    "split_X":
        "split's docstring says nothing about 'N' or 'X'.  Oracle: both give "
        "(label, '', frozenset(), '').  Library: only 'N' does.",
    "degree_arithmetic":
        "No docstring states how additions and omissions combine.  Oracle "
        "follows the brief (+1/-1 per DISTINCT degree string on the quality's "
        "0/1 vector with the root forced to 1, present iff > 0).  'Distinct' "
        "because split documents the degrees as a set: 'C:(3,3,*3)' has the "
        "degrees {'3','*3'} and therefore no third, while 'C:(3,b4,*3)' has "
        "one (two spellings of semitone 4 count twice).",
    "negative_semitone":
        "scale_degree_to_bitmap documents discarding only for degrees that "
        "'exceed the length of the bit-vector'.  A degree below the root "
        "('b1' = -1, 'bb2' = 0 is fine, 'bb1' = -2) is folded mod 12 in both "
        "modes (pitch-class reading; matches the library).",
    "octave_degrees":
        "'8', '#7', 'bb9' (semitone exactly 12) are discarded when "
        "reduce_extended_chords=False although they name the root's pitch "
        "class; 'b8' (11) is kept.  This is the literal semitone rule.",
    "modulo_default":
        "scale_degree_to_bitmap documents 'modulo : bool, default=True' but "
        "its signature default is False; encode always passes the flag, so "
        "the oracle is unaffected.",
    "bass_in_bitmap":
        "encode documents strict_bass_intervals only as 'require that the bass "
        "is present'; that a non-strict encode ADDS the bass to the bitmap is "
        "not in any docstring.  Oracle follows the brief (adds it).  All "
        "vocabulary tests therefore see the bass as a chord tone: 'C:maj/2' "
        "is outside majmin, 'C:maj/7' is a maj7 for sevenths.",
    "root_rule_N_vs_X":
        "root(['N'], ['X']): both sentinels have root -1, so 'roots equal' "
        "gives 1.0 (oracle and library agree).  Whether an unknown chord has "
        "'the same root' as no chord is not documented.",
    "thirds_rule":
        "thirds is documented as comparing 'root and third'; the oracle, per "
        "the brief, tests only the presence of the MINOR third, so C:maj vs "
        "C:sus4 and C:maj vs C:5 score 1.0 (agrees with the library).",
    "non_str_input":
        "The oracle rejects non-str objects; split() coerces with str() first "
        "(undocumented).",
}
