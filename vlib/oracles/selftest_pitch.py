"""Differential self-test of the pitch oracles (melody_ref, multipitch_ref,
transcription_ref) against the installed mir_eval.

Run:  cd /verif && PYTHONPATH=/verif /venv/bin/python -m vlib.oracles.selftest_pitch

For every public oracle function >= 2000 random cases are generated on exact
lattices (times multiples of 1/64 s or of 5 ms; pitches 440*2**((m-69)/12) with
m on a 1/8-semitone grid; cent values multiples of 12.5; cent tolerances
50/25/100; windows 0.5/0.25/1), both implementations are called on private
copies of the inputs, and every disagreement > 1e-9 is reported for the cases
whose oracle margin is >= 1e-7 (NaN equals NaN; the library's Average Overlap
Ratio must lie inside the oracle's [lo, hi]).  A disagreement whose input
satisfies the structural predicate of an entry of KNOWN_LIBRARY_DEVIATIONS is
counted under that entry; anything else is UNEXPLAINED and makes the exit
status non-zero.
"""

import copy
import random
import sys
import time
import warnings
from collections import Counter, defaultdict

import numpy as np

from vlib.oracles import melody_ref as MEL
from vlib.oracles import multipitch_ref as MP
from vlib.oracles import transcription_ref as TR

MARGIN_MIN = 1e-7
TOL = 1e-9
N_CASES = 2000
# functions whose cases are often skipped (ties on the lattice, non-unique
# matchings) get proportionally more cases so that >= ~2000 are compared
MULTIPLIER = {
    "multipitch.metrics": 1.5,
    "transcription_velocity.precision_recall_f1_overlap": 2.0,
}

# name -> precise description (structural predicate on the input) of every class
# of input on which the LIBRARY, not the oracle, departs from the documented
# definition.  The predicates themselves are in _KNOWN_PREDICATES below.
KNOWN_LIBRARY_DEVIATIONS = {
    "melody.empty_series_IndexError": (
        "melody.to_cent_voicing / melody.evaluate with len(ref_time) == 0 (or "
        "len(est_time) == 0): the library raises IndexError (it reads time[0] "
        "unconditionally) although every measure documents the value 0 for "
        "empty input ('When input arrays are empty, return 0 by special "
        "case').  Oracle: an empty reference gives four empty arrays and all "
        "five scores 0.0 (margin inf).  For an empty estimate with a non-empty "
        "reference the oracle zero-pads the estimate to the reference length "
        "but reports margin 0, because the documentation supports two readings "
        "(zero-padded estimate vs. 'empty estimate -> every score 0')."),
    "melody.resample_empty_target_ValueError": (
        "melody.resample_melody_series with len(times_new) == 0 and "
        "len(times) > 0 (time bases of different length): the library raises "
        "ValueError('zero-size array to reduction operation maximum') from "
        "times_new.max(); resampling onto an empty time base has the obvious "
        "value (two empty arrays), which the oracle returns.  Not reachable "
        "from to_cent_voicing / evaluate except through the empty-reference "
        "case above."),
    "melody.voicing_array_modified_in_place": (
        "melody.freq_to_voicing(frequencies, voicing) with voicing given and "
        "some frequencies == 0 where voicing != 0 (reached from "
        "to_cent_voicing / evaluate through est_voicing or ref_reward whenever "
        "the corresponding time[0] == 0, i.e. no time-0 sample is inserted): "
        "the pinned snapshot overwrote the caller's voicing array with zeros; "
        "returned values agree with the oracle, only the side effect deviates. "
        "Repaired in /repo by commit 046c071; this self-test still checks every "
        "library call for modified inputs and lists them if it reappears."),
    "multipitch.negative_frequency_accepted": (
        "multipitch.metrics with a frequency f < 0 and 20 <= |f| <= 5000 in "
        "any frame: validate() documents allow_negatives=False but "
        "util.validate_frequencies tests |f| only, so the input is scored "
        "(log2 of a negative number -> NaN pitch that never matches) instead "
        "of raising ValueError as the oracle does."),
}


# ---------------------------------------------------------------------------
# comparison helpers
# ---------------------------------------------------------------------------

def _num_equal(a, b):
    a, b = float(a), float(b)
    if np.isnan(a) or np.isnan(b):
        return bool(np.isnan(a) and np.isnan(b))
    if np.isinf(a) or np.isinf(b):
        return a == b
    return abs(a - b) <= TOL


def same(lib, orc):
    """Structural comparison; returns None if equal else a short reason."""
    if isinstance(orc, dict):
        if not isinstance(lib, dict) or list(lib.keys()) != list(orc.keys()):
            return "dict keys differ"
        for k in orc:
            r = same(lib[k], orc[k])
            if r:
                return "%s: %s" % (k, r)
        return None
    if isinstance(orc, (tuple, list)):
        if not isinstance(lib, (tuple, list)) or len(lib) != len(orc):
            return "sequence length differs (%s vs %s)" % (
                len(lib) if hasattr(lib, "__len__") else "scalar", len(orc))
        for i, (x, y) in enumerate(zip(lib, orc)):
            r = same(x, y)
            if r:
                return "[%d] %s" % (i, r)
        return None
    if isinstance(orc, np.ndarray):
        la = np.asarray(lib, dtype=float)
        if la.shape != orc.shape:
            return "array shape %r vs %r" % (la.shape, orc.shape)
        for i, (x, y) in enumerate(zip(la.ravel().tolist(), orc.ravel().tolist())):
            if not _num_equal(x, y):
                return "element %d: lib %r oracle %r" % (i, x, y)
        return None
    if np.ndim(lib) != 0:
        return "lib returned non-scalar %r" % (type(lib),)
    if not _num_equal(lib, orc):
        return "lib %r oracle %r" % (float(lib), float(orc))
    return None


def same_prf_aor(lib, orc):
    """(P, R, F, AOR) against (P, R, F, (lo, hi))."""
    if not isinstance(lib, tuple) or len(lib) != 4:
        return "lib structure"
    r = same(tuple(lib[:3]), tuple(orc[:3]))
    if r:
        return r
    lo, hi = orc[3]
    if lo is None:
        return None
    a = float(lib[3])
    if np.isnan(lo) or np.isnan(a):
        return None if (np.isnan(lo) and np.isnan(a)) else "AOR nan mismatch"
    if not (lo - TOL <= a <= hi + TOL):
        return "AOR lib %r outside oracle range [%r, %r]" % (a, lo, hi)
    return None


def snapshot(x):
    return copy.deepcopy(x)


def unchanged(a, b):
    if isinstance(a, np.ndarray):
        return isinstance(b, np.ndarray) and a.shape == b.shape and a.dtype == b.dtype \
            and bool(np.array_equal(a, b, equal_nan=True))
    if isinstance(a, (list, tuple)):
        return len(a) == len(b) and all(unchanged(x, y) for x, y in zip(a, b))
    if isinstance(a, dict):
        return a.keys() == b.keys() and all(unchanged(a[k], b[k]) for k in a)
    return a == b or (a != a and b != b)


# ---------------------------------------------------------------------------
# lattices
# ---------------------------------------------------------------------------

def hz(m):
    return 440.0 * 2.0 ** ((m - 69.0) / 12.0)


def grid_midi(rng, lo=40, hi=90):
    return rng.randrange(lo * 8, hi * 8) / 8.0


CENT_TOLS = [50, 25, 100, 50.0]
WINDOWS = [0.5, 0.25, 1.0]
DEVIATIONS_8 = [0, 0, 0, 1, -1, 2, -2, 3, -3, 4, -4, 5, -5, 8, 96, -96, 97, 100, -92, 48]  # in 1/8 semitones


def time_grid(rng, n, start, step, mode=None):
    """n increasing times.  'dyadic': (start + i*step)/64, exact in floats;
    'decimal': (start + i*step)*0.01 as a float product (the usual 10 ms frame
    grid, not exact in binary); 'jitter': the dyadic grid plus a tiny random
    perturbation (stress test of the margins)."""
    if mode is None:
        mode = rng.choice(["dyadic"] * 7 + ["decimal"] * 2 + ["jitter"])
    if mode == "decimal":
        return np.array([(start + i * step) * 0.01 for i in range(n)], dtype=float)
    t = np.array([(start + i * step) / 64.0 for i in range(n)], dtype=float)
    if mode == "jitter":
        amp = rng.choice([1e-13, 1e-11, 1e-9, 1e-7, 1e-5])
        t = t + np.array([amp * rng.random() for _ in range(n)])
        if n and start == 0 and rng.random() < 0.7:
            t[0] = 0.0
    return t


def melody_series(rng, n, allow_negative, start=None, step=None, mode=None):
    """times on a grid (see time_grid), frequencies on the pitch lattice with
    unvoiced (0) and, for estimates, negative frames."""
    if start is None:
        start = rng.choice([0, 0, 0, 1, 2, 5])
    if step is None:
        step = rng.choice([1, 1, 2, 3, 4])
    times = time_grid(rng, n, start, step, mode)
    m = grid_midi(rng)
    freqs = []
    for _ in range(n):
        u = rng.random()
        if rng.random() < 0.3:
            m = min(95.0, max(30.0, m + rng.choice(DEVIATIONS_8) / 8.0))
        if u < 0.22:
            freqs.append(0.0)
        elif u < 0.37 and allow_negative:
            freqs.append(-hz(m))
        else:
            freqs.append(hz(m))
    return times, np.array(freqs)


def voicing_values(rng, n, binary=None):
    if binary is None:
        binary = rng.random() < 0.4
    if binary:
        return np.array([float(rng.random() < 0.6) for _ in range(n)])
    return np.array([rng.choice([0.0, 0.25, 0.5, 0.75, 1.0, round(rng.random(), 3)])
                     for _ in range(n)])


def cent_arrays(rng, n):
    """reference / estimate cents: multiples of 12.5 (exact ties with the
    tolerance are then exact in floats) or log2-derived values; zeros mark
    unvoiced frames."""
    ref, est = [], []
    exact = rng.random() < 0.6
    base = rng.randrange(200, 500)
    for _ in range(n):
        k = base + rng.randrange(-8, 9)
        dev = rng.choice(DEVIATIONS_8 + [4, -4, 2, -2, 92, 104])
        if exact:
            r, e = 12.5 * k, 12.5 * (k + dev)
        else:
            r = 1200 * np.log2(hz(k / 8.0 + 20) / 10.0)
            e = 1200 * np.log2(hz((k + dev) / 8.0 + 20) / 10.0)
        if rng.random() < 0.2:
            r = 0.0
        if rng.random() < 0.2:
            e = 0.0
        ref.append(r)
        est.append(e)
    return np.array(ref, dtype=float), np.array(est, dtype=float)


# ---------------------------------------------------------------------------
# case generators: each returns (args, kwargs)
# ---------------------------------------------------------------------------

def g_hz2cents(rng):
    n = rng.choice([0, 1, 2, 5, 9])
    _, f = melody_series(rng, n, True)
    if rng.random() < 0.5:
        return (f,), {}
    return (f,), {"base_frequency": rng.choice([10.0, 440.0, 55.0, 8.175798915643707])}


def g_freq_to_voicing(rng):
    n = rng.choice([0, 1, 2, 5, 9])
    _, f = melody_series(rng, n, True)
    if rng.random() < 0.5:
        return (f,), {}
    return (f, voicing_values(rng, n)), {}


def g_timebase(rng):
    u = rng.random()
    if u < 0.6:
        hop = rng.choice([1, 2, 3, 4, 5]) / rng.choice([64.0, 128.0, 32.0])
        end = rng.randrange(0, 300) / 64.0
    elif u < 0.8:
        hop = rng.choice([0.01, 0.005, 0.0058, 0.02, 0.1])
        end = rng.randrange(0, 400) / 100.0
    else:
        hop = rng.choice([0.01, 0.0029, 1 / 64.0, 0.256])
        end = round(rng.random() * 5, rng.choice([3, 6, 11, 14]))
    return (hop, end), {}


def g_resample_melody(rng):
    n = rng.choice([1, 2, 3, 6, 12])
    times, f = melody_series(rng, n, False, mode=rng.choice(["dyadic"] * 8 + ["jitter"] * 2))
    if rng.random() < 0.5:
        f = MEL.hz2cents(f)[0]
    v = voicing_values(rng, n)
    if rng.random() < 0.1:
        times = times + rng.choice([1000.0, 4096.0, 29000.0])  # late in a long recording
    u = rng.random()
    if u < 0.15:
        new = times.copy()
    elif u < 0.2:
        new = times + rng.choice([0.0, 1e-9, 1e-12])
    elif u < 0.25:
        new = times.copy()  # numerically close but not identical time bases
        new[1:] += rng.choice([1e-9, 1e-7, 3e-6])
    else:
        k = rng.choice([0, 1, 2, 4, 9, 15])
        start = int(np.ceil(times[0] * 64)) + rng.choice([0, 0, 1, 2])
        step = rng.choice([1, 2, 3, 5])
        new = np.array([(start + i * step) / 64.0 for i in range(k)])
        if rng.random() < 0.2 and k:
            new = new / 2.0 + times[0] / 2.0  # half-lattice points
    return (times, f, v, new), {}


def g_to_cent_voicing(rng, allow_empty=True):
    nr = rng.choice([0, 1, 2, 3, 6, 10, 16]) if allow_empty else rng.choice([1, 2, 3, 6, 10, 16])
    ne = rng.choice([0, 1, 2, 3, 6, 10, 16, 24]) if allow_empty else rng.choice([1, 2, 3, 6, 10, 24])
    if rng.random() < 0.93:
        nr = max(nr, 1)
        ne = max(ne, 1)
    mode = rng.choice(["dyadic"] * 7 + ["decimal"] * 2 + ["jitter"])
    unit = 0.01 if mode == "decimal" else 1 / 64.0
    rstart, rstep = rng.choice([0, 0, 0, 1, 2, 5]), rng.choice([1, 1, 2, 3, 4])
    rt, rf = melody_series(rng, nr, rng.random() < 0.1, rstart, rstep, mode)
    if rng.random() < 0.25 and nr:
        et, ef = melody_series(rng, nr, True, rstart, rstep,
                               "dyadic" if mode == "jitter" else mode)
        ne = nr
    else:
        et, ef = melody_series(rng, ne, True, mode=mode)
    kwargs = {}
    if rng.random() < 0.4:
        kwargs["est_voicing"] = voicing_values(rng, ne)
    if rng.random() < 0.4:
        kwargs["ref_reward"] = voicing_values(rng, nr)
    if rng.random() < 0.4:
        kwargs["hop"] = (rng.choice([1, 2, 3, 5]) / rng.choice([64.0, 128.0]) if unit != 0.01
                         else rng.choice([0.01, 0.02, 0.005, 0.0058, 0.03]))
    if rng.random() < 0.2:
        kwargs["base_frequency"] = rng.choice([10.0, 55.0, 440.0])
        if kwargs["base_frequency"] == 440.0 and rng.random() < 0.5:
            # a voiced frame exactly at the base frequency (0 cents)
            if len(rf):
                rf[rng.randrange(len(rf))] = 440.0
            if len(ef):
                ef[rng.randrange(len(ef))] = rng.choice([440.0, -440.0])
    return (rt, rf, et, ef), kwargs


def g_voicing(rng):
    n = rng.choice([0, 1, 2, 5, 9, 17])
    rv = voicing_values(rng, n)
    ev = voicing_values(rng, n)
    u = rng.random()
    if u < 0.08:
        rv = np.zeros(n)
    elif u < 0.16:
        rv = np.ones(n)
    elif u < 0.22:
        ev = np.zeros(n)
    return (rv, ev), {}


def g_accuracy(rng):
    (rv, ev), _ = g_voicing(rng)
    rc, ec = cent_arrays(rng, len(rv))
    u = rng.random()
    if u < 0.05:
        ec = np.zeros(len(rv))
    elif u < 0.1:
        rc = np.zeros(len(rv))
    if rng.random() < 0.5:
        return (rv, rc, ev, ec), {}
    return (rv, rc, ev, ec), {"cent_tolerance": rng.choice(CENT_TOLS)}


def g_melody_evaluate(rng):
    (rt, rf, et, ef), kw = g_to_cent_voicing(rng)
    if rng.random() < 0.5:
        kw["cent_tolerance"] = rng.choice(CENT_TOLS)
    return (rt, rf, et, ef), kw


def multipitch_frames(rng, n, base=None):
    frames = []
    for k in range(n):
        c = rng.choice([0, 1, 1, 2, 3, 4])
        ms = []
        for _ in range(c):
            if base is not None and k < len(base) and len(base[k]) and rng.random() < 0.8:
                m0 = 69 + 12 * np.log2(rng.choice(list(base[k])) / 440.0)
                m0 = round(m0 * 8) / 8.0
                ms.append(m0 + rng.choice(DEVIATIONS_8) / 8.0)
            else:
                ms.append(grid_midi(rng, 45, 85))
        if ms and rng.random() < 0.15:
            ms.append(ms[0])  # duplicated pitch
        frames.append(np.array([hz(m) for m in ms], dtype=float))
    return frames


def g_resample_multipitch(rng):
    n = rng.choice([0, 1, 2, 3, 6])
    start = rng.choice([0, 0, 3])
    step = rng.choice([1, 2, 3])
    times = time_grid(rng, n, start, step, rng.choice(["dyadic"] * 8 + ["jitter"] * 2))
    freqs = multipitch_frames(rng, n)
    k = rng.choice([0, 1, 3, 7])
    target = np.array(sorted(rng.randrange(0, 4 * 64) / 256.0 + rng.choice([0, 0, 1 / 1024.0])
                             for _ in range(k)))
    return (times, freqs, target), {}


def g_num_tp(rng):
    n = rng.choice([0, 1, 2, 5])
    ref, est = [], []
    chroma = rng.random() < 0.5
    for _ in range(n):
        r = [grid_midi(rng, 45, 85) for _ in range(rng.choice([0, 1, 2, 3, 4]))]
        e = []
        for x in r:
            if rng.random() < 0.8:
                e.append(x + rng.choice(DEVIATIONS_8) / 8.0)
        for _ in range(rng.choice([0, 0, 1, 2])):
            e.append(grid_midi(rng, 45, 85))
        rng.shuffle(e)
        if chroma and rng.random() < 0.7:
            r = [x % 12 for x in r]
            e = [x % 12 for x in e]
        ref.append(np.array(r, dtype=float))
        est.append(np.array(e, dtype=float))
    kw = {}
    if rng.random() < 0.6:
        kw["window"] = rng.choice(WINDOWS)
    if chroma:
        kw["chroma"] = True
    return (ref, est), kw


def g_counts(rng):
    n = rng.choice([0, 1, 2, 5, 12])
    nr = [rng.choice([0, 0, 1, 2, 3, 5]) for _ in range(n)]
    ne = [rng.choice([0, 0, 1, 2, 3, 5]) for _ in range(n)]
    u = rng.random()
    if u < 0.1:
        nr = [0] * n
    elif u < 0.2:
        ne = [0] * n
    tp = [float(rng.randint(0, min(a, b))) for a, b in zip(nr, ne)]
    return (np.array(tp, dtype=float), np.array(nr, dtype=int), np.array(ne, dtype=int)), {}


def g_multipitch_metrics(rng):
    nr = rng.choice([0, 1, 2, 4, 8])
    start = rng.choice([0, 0, 2])
    step = rng.choice([1, 2])
    mode = rng.choice(["dyadic"] * 7 + ["decimal"] * 2 + ["jitter"])
    rt = time_grid(rng, nr, start, step, mode)
    rf = multipitch_frames(rng, nr)
    u = rng.random()
    if u < 0.35:
        et = rt.copy()
    elif u < 0.45:
        et = rt + 1e-9
    elif mode == "decimal":
        ne = rng.choice([0, 1, 2, 4, 8, 12])
        et = time_grid(rng, ne, rng.choice([0, 0, 1, 3]), rng.choice([1, 2, 3]), mode)
    else:
        ne = rng.choice([0, 1, 2, 4, 8, 12])
        s2 = rng.choice([0, 0, 1, 2, 3])
        st2 = rng.choice([1, 2, 3])
        et = np.array([(4 * s2 + i * 4 * st2 + rng.choice([0, 0, 0, 1])) / 256.0 for i in range(ne)])
    ef = multipitch_frames(rng, len(et), base=rf)
    kw = {}
    if rng.random() < 0.5:
        kw["window"] = rng.choice(WINDOWS)
    if rng.random() < 0.02 and len(ef) and len(ef[0]):
        ef[0] = ef[0].copy()
        ef[0][0] = -ef[0][0]  # documented as invalid (allow_negatives=False)
    return (rt, rf, et, ef), kw


def notes(rng, big=False, spread=False):
    """reference and estimated notes.  Either the 1/64 s lattice or the 5 ms
    lattice (the latter produces distances that round to exactly 0.05)."""
    unit = rng.choice([1 / 64.0, 0.005])
    nr = rng.choice([0, 1, 2, 3, 4, 6, 8]) if not big else rng.choice([9, 12, 20])
    if rng.random() < 0.9:
        nr = max(nr, 1)
    span = rng.choice([4, 12, 40])
    if spread and not big:  # more notes, fewer collisions: more unique matchings
        nr = rng.choice([2, 3, 4, 6, 8])
        span = rng.choice([40, 80, 160, 400])
    ref_iv, ref_p, ref_v = [], [], []
    for _ in range(nr):
        on = rng.randrange(0, span)
        dur = rng.choice([1, 2, 4, 8, 16, 20, 48])
        ref_iv.append([on * unit, (on + dur) * unit])
        ref_p.append(grid_midi(rng, 50, 60) if rng.random() < 0.7 else 55.0)
        ref_v.append(float(rng.randrange(1, 128)))
    if nr > 1 and rng.random() < (0.04 if spread else 0.3):  # duplicated note
        k = rng.randrange(nr)
        ref_iv.append(list(ref_iv[k]))
        ref_p.append(ref_p[k])
        ref_v.append(ref_v[k])
    est_iv, est_p, est_v = [], [], []
    a, b = rng.choice([1.0, 0.5, 2.0]), rng.choice([0.0, 10.0, -5.0])
    d_on = [0, 0, 1, -1, 2, -2, 3, 4, 10, -10, 11, 9]
    d_off = [0, 0, 1, -1, 2, -3, 4, 10, -10, 16]
    d_pitch = DEVIATIONS_8 + [0, 0, 1, -1, 3, -3]
    copies = [0, 1, 1, 1, 2]
    if spread:  # estimates close to their reference note: most pairs match
        d_on, d_off = [0, 0, 1, -1, 2, -2, 3], [0, 0, 1, -1, 2, -3]
        d_pitch = [0, 0, 0, 1, -1, 2, -2, 3, -3, 5, 96]
        copies = [1] * 14 + [0, 0, 2]
    for k in range(len(ref_iv)):
        for _ in range(rng.choice(copies)):
            on = ref_iv[k][0] / unit + rng.choice(d_on)
            on = max(0, int(round(on)))
            off = ref_iv[k][1] / unit + rng.choice(d_off)
            off = max(on + 1, int(round(off)))
            est_iv.append([on * unit, off * unit])
            est_p.append(ref_p[k] + rng.choice(d_pitch) / 8.0)
            est_v.append(max(0.0, float(round(a * ref_v[k] + b + rng.choice([0, 0, 1, -3, 8, -15, 30])))))
    for _ in range(rng.choice([0, 0, 1, 2])):
        on = rng.randrange(0, span)
        est_iv.append([on * unit, (on + rng.choice([1, 4, 16])) * unit])
        est_p.append(grid_midi(rng, 50, 60))
        est_v.append(float(rng.randrange(0, 128)))
    if rng.random() < 0.05:
        est_iv, est_p, est_v = [], [], []
    if not big and len(est_iv) > 8 and rng.random() < 0.8:
        est_iv, est_p, est_v = est_iv[:8], est_p[:8], est_v[:8]
    if rng.random() < 0.12:  # stress: tiny perturbations of every time
        amp = rng.choice([1e-13, 1e-10, 1e-8, 1e-6, 3e-5])
        ref_iv = [[a + amp * rng.random(), b + amp * rng.random()] for a, b in ref_iv]
        est_iv = [[a + amp * rng.random(), b + amp * rng.random()] for a, b in est_iv]
    if rng.random() < 0.1:   # stress: pitches off the lattice
        est_p = [m + rng.choice([1e-9, 1e-6, 1e-3]) * (rng.random() - 0.5) for m in est_p]
    order = list(range(len(est_iv)))
    rng.shuffle(order)
    est_iv = [est_iv[i] for i in order]
    est_p = [est_p[i] for i in order]
    est_v = [est_v[i] for i in order]
    return (np.array(ref_iv, dtype=float).reshape(-1, 2), np.array([hz(m) for m in ref_p]),
            np.array(ref_v), np.array(est_iv, dtype=float).reshape(-1, 2),
            np.array([hz(m) for m in est_p]), np.array(est_v), unit)


def note_kwargs(rng, unit, onset=True, pitch=True, offset=True):
    kw = {}
    if onset and rng.random() < 0.6:
        kw["onset_tolerance"] = rng.choice(
            [0.05, 0.0469, 0.0312, 0.0313, 0.0625, 0.03125] if unit != 0.005
            else [0.05, 0.045, 0.01, 0.05005, 0.1])
    if pitch and rng.random() < 0.5:
        kw["pitch_tolerance"] = rng.choice([50.0, 25.0, 100.0])
    if offset:
        if rng.random() < 0.7:
            kw["offset_ratio"] = rng.choice([0.2, 0.25, 0.5, 0.2, None] if pitch else [0.2, 0.25, 0.5])
        if rng.random() < 0.4:
            kw["offset_min_tolerance"] = rng.choice([0.05, 0.03125, 0.0469, 0.01])
    if rng.random() < 0.5:
        kw["strict"] = rng.random() < 0.7
    if rng.random() < 0.3:
        kw["beta"] = rng.choice([1.0, 0.5, 2.0])
    return kw


def g_prf_overlap(rng):
    ri, rp, _, ei, ep, _, unit = notes(rng, big=rng.random() < 0.05)
    return (ri, rp, ei, ep), note_kwargs(rng, unit)


def g_onset_prf(rng):
    ri, _, _, ei, _, _, unit = notes(rng, big=rng.random() < 0.05)
    return (ri, ei), note_kwargs(rng, unit, pitch=False, offset=False)


def g_offset_prf(rng):
    ri, _, _, ei, _, _, unit = notes(rng, big=rng.random() < 0.05)
    return (ri, ei), note_kwargs(rng, unit, onset=False, pitch=False)


def g_aor(rng):
    ri, _, _, ei, _, _, _ = notes(rng)
    k = min(len(ri), len(ei), rng.choice([0, 1, 2, 5]))
    a = rng.sample(range(len(ri)), k)
    b = rng.sample(range(len(ei)), k)
    return (ri, ei, sorted(zip(a, b))), {}


def g_velocity(rng):
    ri, rp, rv, ei, ep, ev, unit = notes(rng, big=rng.random() < 0.05, spread=rng.random() < 0.8)
    kw = note_kwargs(rng, unit)
    if rng.random() < 0.5:
        kw["velocity_tolerance"] = rng.choice([0.1, 0.05, 0.2, 0.02])
    return (ri, rp, rv, ei, ep, ev), kw


# ---------------------------------------------------------------------------
# known-deviation predicates
# ---------------------------------------------------------------------------

def _p_melody_empty(name, args, kwargs, lib, orc):
    return (name in ("melody.to_cent_voicing", "melody.evaluate")
            and (len(args[0]) == 0 or len(args[2]) == 0)
            and lib[0] == "raise" and lib[1] == "IndexError" and orc[0] == "ok")


def _p_multipitch_negative(name, args, kwargs, lib, orc):
    return (name == "multipitch.metrics"
            and any((np.asarray(f) < 0).any() for f in list(args[1]) + list(args[3]))
            and lib[0] == "ok" and orc[0] == "raise" and orc[1] == "ValueError")


def _p_resample_empty_target(name, args, kwargs, lib, orc):
    return (name == "melody.resample_melody_series" and len(args[3]) == 0
            and len(args[0]) > 0 and lib[0] == "raise" and lib[1] == "ValueError"
            and orc[0] == "ok")


_KNOWN_PREDICATES = {
    "melody.resample_empty_target_ValueError": _p_resample_empty_target,
    "melody.empty_series_IndexError": _p_melody_empty,
    "multipitch.negative_frequency_accepted": _p_multipitch_negative,
}


# ---------------------------------------------------------------------------
# driver
# ---------------------------------------------------------------------------

def _call(fn, args, kwargs):
    try:
        with warnings.catch_warnings():
            warnings.simplefilter("ignore")
            with np.errstate(all="ignore"):
                return ("ok", fn(*args, **kwargs))
    except Exception as exc:  # noqa: BLE001 - outcome is data here
        return ("raise", type(exc).__name__, str(exc)[:80])


def build_table():
    import mir_eval
    lm, lp, lt, lv = (mir_eval.melody, mir_eval.multipitch, mir_eval.transcription,
                      mir_eval.transcription_velocity)
    return [
        ("melody.hz2cents", lm.hz2cents, MEL.hz2cents, g_hz2cents, same),
        ("melody.freq_to_voicing", lm.freq_to_voicing, MEL.freq_to_voicing, g_freq_to_voicing, same),
        ("melody.constant_hop_timebase", lm.constant_hop_timebase, MEL.constant_hop_timebase, g_timebase, same),
        ("melody.resample_melody_series", lm.resample_melody_series, MEL.resample_melody_series, g_resample_melody, same),
        ("melody.to_cent_voicing", lm.to_cent_voicing, MEL.to_cent_voicing, g_to_cent_voicing, same),
        ("melody.voicing_recall", lm.voicing_recall, MEL.voicing_recall, g_voicing, same),
        ("melody.voicing_false_alarm", lm.voicing_false_alarm, MEL.voicing_false_alarm, g_voicing, same),
        ("melody.voicing_measures", lm.voicing_measures, MEL.voicing_measures, g_voicing, same),
        ("melody.raw_pitch_accuracy", lm.raw_pitch_accuracy, MEL.raw_pitch_accuracy, g_accuracy, same),
        ("melody.raw_chroma_accuracy", lm.raw_chroma_accuracy, MEL.raw_chroma_accuracy, g_accuracy, same),
        ("melody.overall_accuracy", lm.overall_accuracy, MEL.overall_accuracy, g_accuracy, same),
        ("melody.evaluate", lm.evaluate, MEL.evaluate, g_melody_evaluate, same),
        ("multipitch.resample_multipitch", lp.resample_multipitch, MP.resample_multipitch, g_resample_multipitch, same),
        ("multipitch.compute_num_true_positives", lp.compute_num_true_positives, MP.compute_num_true_positives, g_num_tp, same),
        ("multipitch.compute_accuracy", lp.compute_accuracy, MP.compute_accuracy, g_counts, same),
        ("multipitch.compute_err_score", lp.compute_err_score, MP.compute_err_score, g_counts, same),
        ("multipitch.metrics", lp.metrics, MP.metrics, g_multipitch_metrics, same),
        ("transcription.precision_recall_f1_overlap", lt.precision_recall_f1_overlap, TR.precision_recall_f1_overlap, g_prf_overlap, same_prf_aor),
        ("transcription.onset_precision_recall_f1", lt.onset_precision_recall_f1, TR.onset_precision_recall_f1, g_onset_prf, same),
        ("transcription.offset_precision_recall_f1", lt.offset_precision_recall_f1, TR.offset_precision_recall_f1, g_offset_prf, same),
        ("transcription.average_overlap_ratio", lt.average_overlap_ratio, TR.average_overlap_ratio, g_aor, same),
        ("transcription_velocity.precision_recall_f1_overlap", lv.precision_recall_f1_overlap,
         TR.transcription_velocity.precision_recall_f1_overlap, g_velocity, same),
    ]


def internal_checks(n=3000, seed=7):
    """Consistency of the oracles' own matching machinery on random small
    bipartite graphs: Kuhn size (both modules) == brute-force maximum; the
    subset DP's size / number of maximum matchings == brute force; the
    edge-removal uniqueness test == (number of maximum matchings == 1)."""
    rng = random.Random(seed)
    bad = 0
    for _ in range(n):
        nl, nr = rng.randint(0, 6), rng.randint(0, 6)
        p = rng.choice([0.15, 0.3, 0.6])
        adj = [[j for j in range(nr) if rng.random() < p] for _ in range(nl)]
        sizes = Counter()

        def rec(i, used, k):
            if i == nl:
                sizes[k] += 1
                return
            rec(i + 1, used, k)
            for j in adj[i]:
                if j not in used:
                    rec(i + 1, used | {j}, k + 1)

        rec(0, frozenset(), 0)
        best = max(sizes)
        n_best = sizes[best]
        ml = TR._max_matching(adj, nr)
        k1 = sum(1 for v in ml if v >= 0)
        k2 = MP._max_matching_size(adj, nr)
        valid = all(v < 0 or v in adj[u] for u, v in enumerate(ml)) and \
            len({v for v in ml if v >= 0}) == k1
        sz, cnt, _, _ = TR._all_maximum_matchings(adj, nr, lambda i, j: 0)
        uniq = TR._is_unique(adj, nr, ml)
        if not (k1 == k2 == sz == best and cnt == n_best and valid and uniq == (n_best == 1)):
            bad += 1
            print("INTERNAL CHECK FAILED", adj, nr, k1, k2, sz, best, cnt, n_best, uniq)
    return bad


def _short(x, limit=400):
    with np.printoptions(precision=17, threshold=50, linewidth=10000):
        s = repr(x)
    return s if len(s) <= limit else s[:limit] + "..."


def run(n_cases=N_CASES, seed=20261003, verbose=True):
    t0 = time.time()
    table = build_table()
    unexplained_total = internal_checks()
    if verbose:
        print("internal matching checks: %s" % ("ok" if unexplained_total == 0 else
                                                 "%d FAILED" % unexplained_total))
    classes = defaultdict(list)      # (function, class) -> examples
    class_counts = Counter()
    lib_mutations = Counter()
    rows = []
    for name, lib_fn, orc_fn, gen, cmp_fn in table:
        rng = random.Random("%s/%d" % (name, seed))
        st = Counter()
        for _ in range(int(n_cases * MULTIPLIER.get(name, 1))):
            args, kwargs = gen(rng)
            st["cases"] += 1
            a_lib, k_lib = snapshot(args), snapshot(kwargs)
            a_orc, k_orc = snapshot(args), snapshot(kwargs)
            lib = _call(lib_fn, a_lib, k_lib)
            raw = _call(orc_fn, a_orc, k_orc)
            # purity of the oracle (a hard requirement)
            if not (unchanged(args, a_orc) and unchanged(kwargs, k_orc)):
                st["ORACLE-MUTATED-INPUT"] += 1
                classes[(name, "ORACLE-MUTATED-INPUT")].append((args, kwargs, "", ""))
                class_counts[(name, "ORACLE-MUTATED-INPUT")] += 1
                unexplained_total += 1
            if not (unchanged(args, a_lib) and unchanged(kwargs, k_lib)):
                lib_mutations[name] += 1
            if raw[0] == "ok":
                value, margin = raw[1]
                orc = ("ok", value)
                if not (isinstance(margin, float) and margin >= 0):
                    raise AssertionError("%s: bad margin %r" % (name, margin))
            else:
                orc, margin = raw, float("inf")
            if margin < MARGIN_MIN:
                st["skipped (margin)"] += 1
                continue
            if lib[0] == "raise" and orc[0] == "raise":
                st["both raise"] += 1
                if lib[1] != orc[1]:
                    st["both raise, different type"] += 1
                continue
            if lib[0] == "ok" and orc[0] == "ok":
                reason = cmp_fn(lib[1], orc[1])
                if reason is None:
                    st["agree"] += 1
                    continue
                kind = "value"
            elif lib[0] == "raise":
                reason = "library raised %s(%s), oracle returned" % (lib[1], lib[2])
                kind = "lib-raise:" + lib[1]
            else:
                reason = "oracle raised %s(%s), library returned" % (orc[1], orc[2])
                kind = "oracle-raise:" + orc[1]
            known = [k for k, p in _KNOWN_PREDICATES.items() if p(name, args, kwargs, lib, orc)]
            if known:
                st["known deviation"] += 1
                key = (name, "KNOWN " + known[0])
            else:
                st["UNEXPLAINED"] += 1
                unexplained_total += 1
                key = (name, "UNEXPLAINED " + kind)
            class_counts[key] += 1
            if len(classes[key]) < 3:
                classes[key].append((args, kwargs, reason, _short(lib[1:]) + " | " + _short(orc[1:])))
        rows.append((name, st))

    if verbose:
        hdr = "%-52s %6s %6s %6s %6s %6s %6s" % ("function", "cases", "cmp'd", "skip", "raise", "known", "UNEXP")
        print(hdr)
        print("-" * len(hdr))
        for name, st in rows:
            compared = st["agree"] + st["known deviation"] + st["UNEXPLAINED"]
            print("%-52s %6d %6d %6d %6d %6d %6d" % (
                name, st["cases"], compared, st["skipped (margin)"], st["both raise"],
                st["known deviation"], st["UNEXPLAINED"]))
        print()
        if lib_mutations:
            print("library modified its input arrays in place (see KNOWN "
                  "melody.voicing_array_modified_in_place):")
            for k, v in sorted(lib_mutations.items()):
                print("   %-50s %d cases" % (k, v))
            print()
        if class_counts:
            print("disagreement classes:")
            for key, cnt in sorted(class_counts.items()):
                print("  %s  --  %s : %d" % (key[0], key[1], cnt))
                for args, kwargs, reason, outs in classes[key][:2]:
                    print("      reason : %s" % reason)
                    print("      args   : %s" % _short(args, 900))
                    print("      kwargs : %s" % _short(kwargs))
                    print("      lib|orc: %s" % outs)
        else:
            print("no disagreements")
        print()
        print("KNOWN_LIBRARY_DEVIATIONS:")
        for k, v in KNOWN_LIBRARY_DEVIATIONS.items():
            print("  %s: %s" % (k, v))
        print()
        print("total unexplained disagreements: %d   (%.1f s)" % (unexplained_total, time.time() - t0))
    return unexplained_total, rows, class_counts, lib_mutations


if __name__ == "__main__":
    n = int(sys.argv[1]) if len(sys.argv) > 1 else N_CASES
    sys.exit(1 if run(n)[0] else 0)
