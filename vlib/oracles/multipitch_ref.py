"""Independent executable reference ("oracle") for mir_eval.multipitch.

Written from the module docstring and function docstrings of
mir_eval/multipitch.py (Poliner & Ellis 2007, Bay et al. 2009).  Nothing here
imports or calls mir_eval.  Algorithms differ from the library's on purpose:
nearest-neighbour resampling by ``bisect`` on exact rational times (no
scipy.interpolate), ``math.log2`` for MIDI
numbers, all-pairs feasibility and an own Kuhn augmenting-path maximum matching
per frame (no sorted windows, no Hopcroft-Karp), integer arithmetic for the
counts.

Interface: every function has the name / parameters / defaults of the library
function it models and returns ``(value, margin)``; see melody_ref for the
meaning of ``margin``.  Threshold comparisons of this module:

* nearest-frame resampling: a target time against the midpoint of the two
  nearest estimate times (an exact tie is NOT decided: margin 0, because the
  documentation does not say which neighbour wins), and against the first /
  last estimate time ("outside the range ... no pitch estimate"; a target
  exactly on the border is inside);
* the "time bases already equal" test of ``metrics`` (numpy ``allclose``);
* per pitch pair ``distance <= window`` (NON-strict).  In
  ``compute_num_true_positives`` the MIDI numbers are the inputs, so the
  distance is exact and ties are decided (hit).  In ``metrics`` the MIDI numbers
  come out of a logarithm, so a distance equal to the window is not trusted
  (margin 0) unless the two frequencies are identical.
"""

from fractions import Fraction
import bisect
import math

import numpy as np

INF = float("inf")

MAX_TIME = 30000.0  # "The maximum allowable time stamp (seconds)"
MAX_FREQ = 5000.0   # "The maximum allowable frequency (Hz)"
MIN_FREQ = 20.0     # "The minimum allowable frequency (Hz)"

_ATOL = Fraction(1e-8)   # numpy.allclose defaults
_RTOL = Fraction(1e-5)


def _fr(x):
    return Fraction(float(x))


def _is_float(q):
    return Fraction(float(q)) == q


def _floats(a):
    return [float(x) for x in np.asarray(a).ravel().tolist()]


def _allclose(a, b):
    """numpy.allclose(a, b) exactly, with margin (see melody_ref._allclose)."""
    passing, failing, any_fail = INF, 0.0, False
    for x, y in zip(a, b):
        fx, fy = _fr(x), _fr(y)
        d = abs(fx - fy)
        t = _ATOL + _RTOL * abs(fy)
        if d <= t:
            if d != 0 and d != t:
                passing = min(passing, float(t - d))
        else:
            any_fail = True
            failing = max(failing, float(d - t))
    return (False, failing) if any_fail else (True, passing)


# --------------------------------------------------------------------------
# maximum bipartite matching (Kuhn, iterative augmenting paths)
# --------------------------------------------------------------------------

def _max_matching_size(adj, n_right):
    """adj[u] = list of right vertices adjacent to left vertex u."""
    match_r = [-1] * n_right
    match_l = [-1] * len(adj)
    size = 0
    for root in range(len(adj)):
        seen = [False] * n_right
        came_from = {}          # right vertex -> left vertex it was reached from
        ptr = {root: 0}
        stack = [root]
        free = -1
        while stack and free < 0:
            u = stack[-1]
            pushed = False
            while ptr[u] < len(adj[u]):
                v = adj[u][ptr[u]]
                ptr[u] += 1
                if seen[v]:
                    continue
                seen[v] = True
                came_from[v] = u
                if match_r[v] < 0:
                    free = v
                else:
                    w = match_r[v]
                    ptr[w] = 0
                    stack.append(w)
                    pushed = True
                break
            if free < 0 and not pushed:
                stack.pop()
        if free >= 0:
            v = free
            while True:  # flip the alternating path back to the root
                u = came_from[v]
                prev = match_l[u]
                match_l[u], match_r[v] = v, u
                if u == root:
                    break
                v = prev
            size += 1
    return size


# --------------------------------------------------------------------------
# resampling
# --------------------------------------------------------------------------

def resample_multipitch(times, frequencies, target_times):
    """Documented: "Resamples multipitch time series to a new timescale using nearest
    neighbor interpolation.  Values in target_times outside the range of times
    return no pitch estimate."  Empty targets -> []; empty source -> an empty
    frame per target."""
    src = _floats(times)
    tgt = _floats(target_times)
    if len(tgt) == 0:
        return [], INF
    if len(src) == 0:
        return [np.array([]) for _ in tgt], INF
    if len(frequencies) != len(src):
        raise ValueError("times and frequencies have unequal lengths")
    S = [_fr(x) for x in src]
    lo, hi = S[0], S[-1]          # "the range of times" (times are ordered)
    margin = INF
    ordered = all(S[i + 1] >= S[i] for i in range(len(S) - 1))
    if not ordered:
        margin = 0.0              # documented precondition: increasing times
    out = []
    for x in tgt:
        q = _fr(x)
        # threshold: inside / outside the range (borders are inside)
        if q != lo:
            margin = min(margin, float(abs(q - lo)))
        if q != hi:
            margin = min(margin, float(abs(q - hi)))
        if q < lo or q > hi:
            out.append(np.array([]))
            continue
        # nearest neighbour and second-nearest (for the margin).  With ordered
        # times both lie among the samples adjacent to q; otherwise scan all.
        if ordered:
            pos = bisect.bisect_left(S, q)
            candidates = range(max(0, pos - 2), min(len(S), pos + 2))
        else:
            candidates = range(len(S))
        best, best_d, second_d = -1, None, None
        for i in candidates:
            d = abs(q - S[i])
            if best_d is None or d < best_d:
                best, second_d, best_d = i, best_d, d
            elif second_d is None or d < second_d:
                second_d = d
        if second_d is not None:
            # distance of q to the midpoint of the two nearest candidates
            margin = min(margin, float((second_d - best_d) / 2))  # 0 on a tie
        out.append(np.array(frequencies[best], dtype=float).copy())
    return out, margin


# --------------------------------------------------------------------------
# frame-level counting
# --------------------------------------------------------------------------

def _frame_true_positives(ref, est, window, chroma, exact_inputs, same=None):
    """Maximum number of one-to-one pairs with distance <= window.

    ``same[i][j]`` (optional) tells that ref i and est j stem from identical
    frequencies, so their distance is exactly 0 whatever the logarithm did."""
    w = _fr(window)
    adj = []
    margin = INF
    for i, r in enumerate(ref):
        row = []
        fr_ = _fr(r)
        for j, e in enumerate(est):
            fe = _fr(e)
            clean = exact_inputs
            if same is not None and same[i][j]:
                d = Fraction(0)
                clean = True
            elif chroma:
                # "taking the log-2 frequency values modulo 12"; circular
                # distance on the 12-semitone circle: d(11, 0) = 1
                a, b = fr_ % 12, fe % 12
                diff = abs(a - b)
                d = min(diff, 12 - diff)
                # a float implementation reproduces an exact tie only when
                # every intermediate value is an exact double
                clean = clean and all(_is_float(x) for x in (a, b, diff, 12 - diff))
            else:
                d = abs(fr_ - fe)
                # est -/+ window must be exact for a tie to be reproduced
                clean = clean and _is_float(fe - w) and _is_float(fe + w)
            if d <= w:            # NON-strict: "within 0.5 semitones"
                row.append(j)
            if d != w:
                margin = min(margin, float(abs(d - w)))
            elif not clean:
                margin = 0.0
        adj.append(row)
    return _max_matching_size(adj, len(est)), margin


def compute_num_true_positives(ref_freqs, est_freqs, window=0.5, chroma=False):
    """Documented: "Compute the number of true positives in an estimate given a reference.
    A frequency is correct if it is within a quartertone of the correct
    frequency."  Inputs are MIDI numbers; with chroma=True "computes distances
    modulo n".  Returns an array as long as ref_freqs (frames without an
    estimate frame count 0)."""
    n = len(ref_freqs)
    tp = [0.0] * n
    margin = INF
    for k in range(min(n, len(est_freqs))):
        c, m = _frame_true_positives(_floats(ref_freqs[k]), _floats(est_freqs[k]),
                                     window, chroma, True)
        tp[k] = float(c)
        margin = min(margin, m)
    return np.array(tp, dtype=float), margin


def _isum(a):
    """Exact sum of a count array."""
    return sum((_fr(x) for x in np.asarray(a).ravel().tolist()), Fraction(0))


def compute_accuracy(true_positives, n_ref, n_est):
    """precision = sum(TP)/sum(n_est), recall = sum(TP)/sum(n_ref),
    accuracy = sum(TP)/sum(n_est + n_ref - TP); each is 0 when its denominator
    is not positive."""
    tp, nr, ne = _isum(true_positives), _isum(n_ref), _isum(n_est)
    precision = float(tp / ne) if ne > 0 else 0.0
    recall = float(tp / nr) if nr > 0 else 0.0
    den = ne + nr - tp
    acc = float(tp / den) if den > 0 else 0.0
    return (precision, recall, acc), INF


def compute_err_score(true_positives, n_ref, n_est):
    """Poliner & Ellis error scores, all normalised by the total number of
    reference pitches (all 0 when there is none):
    E_sub = sum(min(n_ref, n_est) - TP), E_miss = sum(max(0, n_ref - n_est)),
    E_fa = sum(max(0, n_est - n_ref)), E_tot = sum(max(n_ref, n_est) - TP)."""
    tp = [_fr(x) for x in np.asarray(true_positives).ravel().tolist()]
    nr = [_fr(x) for x in np.asarray(n_ref).ravel().tolist()]
    ne = [_fr(x) for x in np.asarray(n_est).ravel().tolist()]
    if not (len(tp) == len(nr) == len(ne)):
        raise ValueError("count arrays differ in length")
    total = sum(nr, Fraction(0))
    if total == 0:
        return (0.0, 0.0, 0.0, 0.0), INF
    sub = miss = fa = tot = Fraction(0)
    for t, r, e in zip(tp, nr, ne):
        sub += min(r, e) - t
        miss += max(Fraction(0), r - e)
        fa += max(Fraction(0), e - r)
        tot += max(r, e) - t
    return (float(sub / total), float(miss / total), float(fa / total),
            float(tot / total)), INF


# --------------------------------------------------------------------------
# the metric
# --------------------------------------------------------------------------

def _validate(ref_time, ref_freqs, est_time, est_freqs):
    """The documented input contract (multipitch.validate)."""
    for name, t in (("Reference", ref_time), ("Estimated", est_time)):
        t = np.asarray(t)
        if t.ndim != 1:
            raise ValueError(name + " times have invalid dimension")
        tl = _floats(t)
        if any(x > MAX_TIME for x in tl):
            raise ValueError(name + " time exceeds the maximum allowable time")
        if any(tl[i + 1] < tl[i] for i in range(len(tl) - 1)):
            raise ValueError("Events should be in increasing order.")
    if len(_floats(ref_time)) != len(ref_freqs):
        raise ValueError("Reference times and frequencies have unequal lengths.")
    if len(_floats(est_time)) != len(est_freqs):
        raise ValueError("Estimate times and frequencies have unequal lengths.")
    for frames in (ref_freqs, est_freqs):
        for frame in frames:
            if np.asarray(frame).ndim != 1:
                raise ValueError("Frequencies should be 1-d")
            for f in _floats(frame):
                # allow_negatives=False, min_freq, max_freq
                if f < 0 or f > MAX_FREQ or f < MIN_FREQ:
                    raise ValueError("frequency %r outside [%g, %g] Hz" % (f, MIN_FREQ, MAX_FREQ))


def _midi(f):
    """Documented: "mapping them to log-2 semitone space": 69 + 12 log2(f / 440)."""
    return 69.0 + 12.0 * math.log2(f / 440.0)


def metrics(ref_time, ref_freqs, est_time, est_freqs, **kwargs):
    """The 14 scores (precision, recall, accuracy, E_sub, E_miss, E_fa, E_tot
    and the same seven on chroma), "computed at the 'macro' level such that the
    frame [counts] are summed across time".  Keyword ``window`` is routed to
    the true-positive count."""
    window = kwargs.get("window", 0.5)
    _validate(ref_time, ref_freqs, est_time, est_freqs)
    rt, et = _floats(ref_time), _floats(est_time)
    margin = INF

    # "if [the time bases do not match], the estimate time series is resampled
    # using a nearest neighbor interpolation"
    est_frames = [np.asarray(f, dtype=float) for f in est_freqs]
    resample = len(rt) != len(et)
    if not resample:
        close, m = _allclose(et, rt)
        margin = min(margin, m)
        resample = not close
    if resample:
        est_frames, m = resample_multipitch(np.array(et), est_frames, np.array(rt))
        margin = min(margin, m)

    tp_raw, tp_chroma, n_ref, n_est = [], [], [], []
    for k in range(len(rt)):
        r_hz = _floats(ref_freqs[k])
        e_hz = _floats(est_frames[k])
        n_ref.append(len(r_hz))
        n_est.append(len(e_hz))
        r_midi = [_midi(f) for f in r_hz]
        e_midi = [_midi(f) for f in e_hz]
        same = [[a == b for b in e_hz] for a in r_hz]
        c, m = _frame_true_positives(r_midi, e_midi, window, False, False, same)
        tp_raw.append(c)
        margin = min(margin, m)
        # "Chroma-wrapped frequency values are computed by taking the log-2
        # frequency values modulo 12"
        c, m = _frame_true_positives(r_midi, e_midi, window, True, False, same)
        tp_chroma.append(c)
        margin = min(margin, m)

    out = ()
    for tp in (tp_raw, tp_chroma):
        a, _ = compute_accuracy(np.array(tp, dtype=float), np.array(n_ref), np.array(n_est))
        e, _ = compute_err_score(np.array(tp, dtype=float), np.array(n_ref), np.array(n_est))
        out = out + a + e
    return out, margin
