"""Replay helpers shared by all properties."""

import importlib


def resolve(qual, mods):
    mname, fname = qual.split(".", 1)
    mod = mods.get(mname) or importlib.import_module("mir_eval." + mname)
    return getattr(mod, fname)


def call_again(case, mods):
    """Re-execute a recorded call through the (shimmed) public name so the
    same monitors observe it again. Exceptions are the monitors' business."""
    fn = resolve(case["fn"], mods)
    try:
        return fn(*case["args"], **case["kwargs"])
    except Exception:
        return None
