"""Python-level sanitizers (DESIGN §3.4): argument digests, write protection,
uninitialised-memory poisoning, module-state canary, FP-trap attribution."""

import hashlib
import struct
import sys
import traceback
import types

import numpy as np

from .ctx import digest

POISON_BITS = 0x7FF8DEAD0000BEEF
POISON_F64 = struct.unpack("<d", struct.pack("<Q", POISON_BITS))[0]
POISON_INT = 0x5EADBEEF


def arg_digest(obj):
    """Digest of value, dtype, shape and container structure (not identity)."""
    return digest(obj)


# ---- write protection ------------------------------------------------------

def protect(obj, _seen=None):
    """Set writeable=False on every ndarray reachable from obj (in place).
    Returns the list of arrays whose flag was changed."""
    changed = []
    _seen = _seen if _seen is not None else set()

    def walk(o):
        if id(o) in _seen:
            return
        _seen.add(id(o))
        if isinstance(o, np.ndarray):
            if o.flags.writeable:
                try:
                    o.flags.writeable = False
                    changed.append(o)
                except ValueError:
                    pass
            if o.dtype == object:
                for x in o.ravel():
                    walk(x)
        elif isinstance(o, (list, tuple)):
            for x in o:
                walk(x)
        elif isinstance(o, dict):
            for x in o.values():
                walk(x)
    walk(obj)
    return changed


def unprotect(arrays):
    for a in arrays:
        try:
            a.flags.writeable = True
        except ValueError:
            pass


def innermost_repo_frame(tb, repo_pkg_dir):
    """(filename, lineno, function, source line) of the innermost frame that
    belongs to the repository, and whether it is the innermost frame overall."""
    frames = traceback.extract_tb(tb)
    hit = None
    for fr in frames:
        if fr.filename.startswith(repo_pkg_dir):
            hit = fr
    if hit is None:
        return None, False
    return (hit.filename.rsplit("/", 1)[-1], hit.lineno, hit.name,
            (hit.line or "").strip()), frames[-1] is hit


# ---- uninitialised-memory poisoning ------------------------------------------

class _NpProxy(types.ModuleType):
    """Stands in for the ``np`` global of one mir_eval module: forwards
    everything except empty/empty_like, which return poison-filled buffers."""

    def __init__(self, real):
        super().__init__("numpy")
        self.__dict__["_real"] = real
        self.__dict__["poisoned_allocations"] = 0

    def __getattr__(self, name):
        return getattr(self.__dict__["_real"], name)

    def _fill(self, a):
        self.__dict__["poisoned_allocations"] += 1
        if a.dtype == np.float64:
            a.view(np.uint64)[...] = POISON_BITS
        elif a.dtype.kind == "f":
            a[...] = np.nan
        elif a.dtype.kind in "iu":
            a[...] = POISON_INT if a.dtype.itemsize >= 4 else 0x5E
        elif a.dtype.kind == "c":
            a[...] = complex(POISON_F64, POISON_F64)
        return a

    def empty(self, *a, **k):
        return self._fill(self.__dict__["_real"].empty(*a, **k))

    def empty_like(self, *a, **k):
        return self._fill(self.__dict__["_real"].empty_like(*a, **k))


def install_poison(mods, names=None):
    """Replace the ``np`` global of the given mir_eval modules. Returns
    {module name: proxy}."""
    out = {}
    for name, mod in mods.items():
        if names is not None and name not in names:
            continue
        real = mod.__dict__.get("np")
        if real is None or isinstance(real, _NpProxy):
            continue
        px = _NpProxy(real)
        mod.__dict__["np"] = px
        out[name] = px
    return out


def remove_poison(mods, proxies):
    for name, px in proxies.items():
        mods[name].__dict__["np"] = px.__dict__["_real"]


def count_poison(obj):
    """Number of elements carrying the poison payload anywhere in obj."""
    n = 0
    if isinstance(obj, np.ndarray):
        if obj.dtype == np.float64 and obj.size:
            n += int(np.count_nonzero(
                np.ascontiguousarray(obj).view(np.uint64) == POISON_BITS))
        elif obj.dtype.kind in "iu" and obj.dtype.itemsize >= 4 and obj.size:
            n += int(np.count_nonzero(obj == POISON_INT))
        elif obj.dtype == object:
            for x in obj.ravel():
                n += count_poison(x)
    elif isinstance(obj, float):
        if struct.pack("<d", obj) == struct.pack("<Q", POISON_BITS):
            n += 1
    elif isinstance(obj, np.floating) and obj.dtype == np.float64:
        if obj.tobytes() == struct.pack("<Q", POISON_BITS):
            n += 1
    elif isinstance(obj, (list, tuple)):
        for x in obj:
            n += count_poison(x)
    elif isinstance(obj, dict):
        for x in obj.values():
            n += count_poison(x)
    return n


# ---- module-state canary -----------------------------------------------------

def module_state_digest(mods):
    """Digest of every module-level mutable (dict/list/set/ndarray/tuple of
    those, numbers) of the mir_eval modules."""
    h = hashlib.sha256()
    for name in sorted(mods):
        mod = mods[name]
        for k in sorted(vars(mod)):
            if k.startswith("__"):
                continue
            v = vars(mod)[k]
            if isinstance(v, (dict, list, set, tuple, np.ndarray, int, float, str)) \
                    and not isinstance(v, bool):
                try:
                    h.update(("%s.%s=" % (name, k)).encode())
                    h.update(digest(v).encode())
                except Exception:
                    pass
    return h.hexdigest()[:16]


def module_state_items(mods):
    out = {}
    for name in sorted(mods):
        for k, v in vars(mods[name]).items():
            if k.startswith("__"):
                continue
            if isinstance(v, (dict, list, set, tuple, np.ndarray, int, float, str)) \
                    and not isinstance(v, bool):
                try:
                    out["%s.%s" % (name, k)] = digest(v)
                except Exception:
                    pass
    return out


# ---- floating-point exception trapping (diagnostic only) ----------------------

class FpTrap:
    def __init__(self, repo_pkg_dir):
        self.events = {}
        self.dir = repo_pkg_dir
        self._old = None

    def _handler(self, kind, flag):
        f = sys._getframe(1)
        where = "?"
        while f is not None:
            if f.f_code.co_filename.startswith(self.dir):
                where = "%s:%s:%d" % (f.f_code.co_filename.rsplit("/", 1)[-1],
                                      f.f_code.co_name, f.f_lineno)
                break
            f = f.f_back
        k = "%s@%s" % (kind, where)
        self.events[k] = self.events.get(k, 0) + 1

    def __enter__(self):
        self._old = np.seterr(all="call")
        self._oldcall = np.seterrcall(self._handler)
        return self

    def __exit__(self, *a):
        np.seterr(**self._old)
        np.seterrcall(self._oldcall)
        return False
