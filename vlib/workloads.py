"""Drivers that push valid workloads through the (shimmed) public API."""

import copy
import traceback
import warnings

from .replay import resolve
from .tasks import TASKS


def run_calls(ctx, mods, calls, on_exc=None, on_ret=None, cls=None):
    for fn, args, kw in calls:
        f = resolve(fn, mods)
        ctx.count("driver.calls")
        try:
            with warnings.catch_warnings():
                warnings.simplefilter("ignore")
                res = f(*args, **kw)
        except Exception as e:  # noqa: BLE001 - the outcome is the observation
            ctx.count("driver.raised")
            ctx.hist("driver.raised_by_fn", fn + ":" + type(e).__name__)
            if on_exc is not None:
                on_exc(fn, args, kw, e, cls)
            continue
        if on_ret is not None:
            on_ret(fn, args, kw, res, cls)


def run_valid(ctx, mods, n, r, tasks=None, on_exc=None, on_ret=None,
              evaluate=True, direct=True):
    names = list(tasks or TASKS)
    for i in range(n):
        name = names[i % len(names)]
        t = TASKS[name]
        if direct:
            inp = t.gen(r)
            ctx.hist("input_class." + name, inp.get("cls", "?"))
            run_calls(ctx, mods, t.calls(inp, r), on_exc, on_ret, inp.get("cls"))
        if evaluate:
            inp = t.gen_eval(r)
            ctx.hist("input_class.%s.evaluate" % name, inp.get("cls", "?"))
            args, kw = t.evaluate(inp, r)
            run_calls(ctx, mods, [(name + ".evaluate", args, kw)], on_exc, on_ret,
                      inp.get("cls"))
