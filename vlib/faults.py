"""Single-fault corruptions of valid inputs (C14, invalid half; DESIGN §5 C14).

Each fault is applied only at entry points whose validator documents the check.
``FAULTS`` maps a name to (expected exception kind, function(r, T) -> list of
(fn_qual, args, kwargs)), where ``T`` is :mod:`vlib.tasks`. Every returned call
is a *valid* call with exactly one named corruption.
"""

import copy

import numpy as np

Q = 64.0


def _unsorted(x):
    y = np.array(x, dtype=float)
    if y.size < 2 or y[0] == y[-1]:
        y = np.array([3.0, 1.0, 2.0]) + (y[0] if y.size else 0.0)
    else:
        y[0], y[-1] = y[-1], y[0]
    return y


def _two_d(x):
    y = np.array(x, dtype=float)
    if y.size < 2:
        y = np.array([5.0, 6.0, 7.0, 8.0])
    if y.size % 2:
        y = y[:-1]
    return y.reshape(2, -1)


def _huge(x):
    y = np.array(x, dtype=float)
    if y.size == 0:
        y = np.array([1.0])
    y = y.copy()
    y[-1] = 30001.0
    return y


def _events_tasks(r, T, corrupt, side=None):
    out = []
    b = T.gen_beat(r)
    o = T.gen_onset(r)
    side = side or r.choice(["ref", "est"])
    def sub(inp):
        d = dict(inp)
        d[side] = corrupt(inp[side])
        return d
    bb = sub(b)
    for fn in T.BEAT_PARAMS:
        out.append(("beat." + fn, (bb["ref"], bb["est"]), {}))
    out.append(("beat.evaluate", (bb["ref"], bb["est"]), {"min_beat_time": 0.0}))
    oo = sub(o)
    out.append(("onset.f_measure", (oo["ref"], oo["est"]), {}))
    out.append(("onset.evaluate", (oo["ref"], oo["est"]), {}))
    return out


def f_events_unsorted(r, T):
    return _events_tasks(r, T, _unsorted)


def f_events_2d(r, T):
    return _events_tasks(r, T, _two_d)


def f_events_huge(r, T):
    return _events_tasks(r, T, _huge)


def _bad_intervals(kind):
    def corrupt(iv):
        iv = np.array(iv, dtype=float).reshape(-1, 2)
        if len(iv) == 0:
            iv = np.array([[0.0, 1.0], [1.0, 2.0]])
        iv = iv.copy()
        if kind == "negative":
            iv = iv - (iv.min() + 1.0)
        elif kind == "zero-duration":
            iv[-1, 1] = iv[-1, 0]
        elif kind == "reversed":
            iv[-1] = iv[-1][::-1]
        elif kind == "flat":
            iv = iv.ravel()
        elif kind == "three-cols":
            iv = np.hstack([iv, iv[:, :1] + 0.5])
        return iv
    return corrupt


def _interval_calls(r, T, corrupt):
    out = []
    side = r.choice(["ref", "est"])
    s = T.gen_segment(r, allow_empty=False)
    key = side + "_iv"
    s2 = dict(s)
    s2[key] = corrupt(s[key])
    out.append(("segment.detection", (s2["ref_iv"], s2["est_iv"]), {}))
    out.append(("segment.deviation", (s2["ref_iv"], s2["est_iv"]), {}))
    four = (s2["ref_iv"], s2["ref_lab"], s2["est_iv"], s2["est_lab"])
    for fn in ("pairwise", "rand_index", "ari", "mutual_information", "nce", "vmeasure"):
        out.append(("segment." + fn, four, {"frame_size": 0.5}))
    out.append(("chord.overseg", (s2["ref_iv"], s2["est_iv"]), {}))
    out.append(("chord.underseg", (s2["ref_iv"], s2["est_iv"]), {}))
    out.append(("chord.seg", (s2["ref_iv"], s2["est_iv"]), {}))
    n = T.gen_transcription(r)
    while len(n["ref_iv"]) == 0 or len(n["est_iv"]) == 0:
        n = T.gen_transcription(r)
    n2 = dict(n)
    n2[key] = corrupt(n[key])
    if n2[key].ndim == 2 and len(n2[key]) == len(n[key]):
        a4 = (n2["ref_iv"], n2["ref_p"], n2["est_iv"], n2["est_p"])
        out.append(("transcription.precision_recall_f1_overlap", a4, {}))
        out.append(("transcription.evaluate", a4, {}))
        out.append(("transcription_velocity.precision_recall_f1_overlap",
                    (n2["ref_iv"], n2["ref_p"], n2["ref_v"], n2["est_iv"], n2["est_p"],
                     n2["est_v"]), {}))
    out.append(("transcription.onset_precision_recall_f1",
                (n2["ref_iv"], n2["est_iv"]), {}))
    out.append(("transcription.offset_precision_recall_f1",
                (n2["ref_iv"], n2["est_iv"]), {}))
    return out


def f_intervals_negative(r, T):
    return _interval_calls(r, T, _bad_intervals("negative"))


def f_intervals_zero_duration(r, T):
    return _interval_calls(r, T, _bad_intervals("zero-duration"))


def f_intervals_reversed(r, T):
    return _interval_calls(r, T, _bad_intervals("reversed"))


def f_intervals_not_nx2(r, T):
    return _interval_calls(r, T, _bad_intervals(r.choice(["flat", "three-cols"])))


def f_chord_overlap(r, T):
    s = T.gen_segment(r, allow_empty=False)
    while len(s["ref_iv"]) < 2 or len(s["est_iv"]) < 2:
        s = T.gen_segment(r, allow_empty=False)
    def overlap(iv):
        iv = iv.copy()
        k = r.randrange(0, len(iv) - 1)
        iv[k, 1] = iv[k, 1] + min(0.5, (iv[k + 1, 1] - iv[k + 1, 0]) / 2)
        return iv
    ro, eo = overlap(s["ref_iv"]), overlap(s["est_iv"])
    out = [
        ("chord.directional_hamming_distance", (ro, s["est_iv"]), {}),
        ("chord.overseg", (ro, s["est_iv"]), {}),
        ("chord.underseg", (s["ref_iv"], eo), {}),
        ("chord.seg", (ro, s["est_iv"]), {}),
        ("chord.seg", (s["ref_iv"], eo), {}),
    ]
    c = T.gen_chord(r)
    while len(c["ref_iv"]) < 2:
        c = T.gen_chord(r)
    iv = c["ref_iv"].copy()
    k = r.randrange(0, len(iv) - 1)
    iv[k, 1] += min(0.25, (iv[k + 1, 1] - iv[k + 1, 0]) / 2)
    # neighbouring labels must differ or the merged intervals hide the overlap
    labs = list(c["ref_lab"])
    labs[k], labs[k + 1] = "C:maj", "D:min"
    out.append(("chord.evaluate", (iv, labs, c["est_iv"], c["est_lab"]), {}))
    return out


def f_length_mismatch(r, T):
    out = []
    from . import chordgen
    a = [chordgen.random_label(r) for _ in range(r.randrange(1, 6))]
    b = a + [chordgen.random_label(r)]
    for f in T.CHORD_CMPS:
        out.append(("chord." + f, (a, b), {}))
    n = len(a)
    out.append(("chord.weighted_accuracy",
                (np.ones(n), np.ones(n + 1)), {}))
    rv, rc, evv, ec = T.gen_melody_frames(r)
    while len(rv) < 2:
        rv, rc, evv, ec = T.gen_melody_frames(r)
    out.append(("melody.voicing_measures", (rv, evv[:-1]), {}))
    out.append(("melody.raw_pitch_accuracy", (rv, rc, evv[:-1], ec[:-1]), {}))
    out.append(("melody.raw_chroma_accuracy", (rv, rc[:-1], evv, ec), {}))
    out.append(("melody.overall_accuracy", (rv, rc, evv, ec[:-1]), {}))
    t = T.gen_transcription(r)
    while len(t["ref_iv"]) < 2 or len(t["est_iv"]) < 2:
        t = T.gen_transcription(r)
    out.append(("transcription.precision_recall_f1_overlap",
                (t["ref_iv"], t["ref_p"][:-1], t["est_iv"], t["est_p"]), {}))
    out.append(("transcription.evaluate",
                (t["ref_iv"], t["ref_p"], t["est_iv"], t["est_p"][:-1]), {}))
    out.append(("transcription_velocity.precision_recall_f1_overlap",
                (t["ref_iv"], t["ref_p"], t["ref_v"][:-1], t["est_iv"], t["est_p"],
                 t["est_v"]), {}))
    out.append(("transcription_velocity.evaluate",
                (t["ref_iv"], t["ref_p"], t["ref_v"], t["est_iv"], t["est_p"],
                 t["est_v"][:-1]), {}))
    al = T.gen_alignment(r)
    out.append(("alignment.absolute_error", (al["ref"], np.append(al["est"], al["est"][-1] + 1)), {}))
    out.append(("alignment.percentage_correct", (al["ref"], np.append(al["est"], al["est"][-1] + 1)), {}))
    out.append(("alignment.evaluate", (al["ref"], np.append(al["est"], al["est"][-1] + 1)),
                {"duration": 100.0}))
    m = T.gen_multipitch(r)
    while m["ref_time"].size < 2 or m["est_time"].size < 2:
        m = T.gen_multipitch(r)
    out.append(("multipitch.metrics", (m["ref_time"], m["ref_freqs"][:-1],
                                       m["est_time"], m["est_freqs"]), {}))
    out.append(("multipitch.evaluate", (m["ref_time"], m["ref_freqs"],
                                        m["est_time"][:-1], m["est_freqs"]), {}))
    s = T.gen_segment(r, allow_empty=False)
    for fn in ("pairwise", "rand_index", "ari", "mutual_information", "nce", "vmeasure"):
        out.append(("segment." + fn, (s["ref_iv"], s["ref_lab"] + ["x"], s["est_iv"],
                                      s["est_lab"]), {"frame_size": 0.5}))
    return out


def f_nonpositive_pitch(r, T):
    t = T.gen_transcription(r)
    while len(t["ref_iv"]) < 1 or len(t["est_iv"]) < 1:
        t = T.gen_transcription(r)
    side = r.choice(["ref_p", "est_p"])
    t2 = dict(t)
    p = t[side].copy()
    p[r.randrange(len(p))] = r.choice([0.0, -440.0])
    t2[side] = p
    a4 = (t2["ref_iv"], t2["ref_p"], t2["est_iv"], t2["est_p"])
    a6 = (t2["ref_iv"], t2["ref_p"], t2["ref_v"], t2["est_iv"], t2["est_p"], t2["est_v"])
    return [("transcription.precision_recall_f1_overlap", a4, {}),
            ("transcription.evaluate", a4, {}),
            ("transcription_velocity.precision_recall_f1_overlap", a6, {}),
            ("transcription_velocity.evaluate", a6, {})]


def f_negative_velocity(r, T):
    t = T.gen_transcription(r)
    while len(t["ref_iv"]) < 1 or len(t["est_iv"]) < 1:
        t = T.gen_transcription(r)
    side = r.choice(["ref_v", "est_v"])
    t2 = dict(t)
    v = t[side].copy()
    v[r.randrange(len(v))] = -1.0
    t2[side] = v
    a6 = (t2["ref_iv"], t2["ref_p"], t2["ref_v"], t2["est_iv"], t2["est_p"], t2["est_v"])
    return [("transcription_velocity.precision_recall_f1_overlap", a6, {}),
            ("transcription_velocity.evaluate", a6, {})]


def _multipitch_fault(r, T, corrupt_freq=None, corrupt_time=None):
    m = T.gen_multipitch(r)
    while m["ref_time"].size < 2 or m["est_time"].size < 2 or \
            not any(f.size for f in m["ref_freqs"]) or not any(f.size for f in m["est_freqs"]):
        m = T.gen_multipitch(r)
    side = r.choice(["ref", "est"])
    m2 = dict(m)
    if corrupt_freq is not None:
        fr = [f.copy() for f in m[side + "_freqs"]]
        idx = [i for i, f in enumerate(fr) if f.size]
        i = r.choice(idx)
        fr[i][r.randrange(fr[i].size)] = corrupt_freq
        m2[side + "_freqs"] = fr
    if corrupt_time is not None:
        m2[side + "_time"] = corrupt_time(m[side + "_time"])
    a = (m2["ref_time"], m2["ref_freqs"], m2["est_time"], m2["est_freqs"])
    return [("multipitch.metrics", a, {}), ("multipitch.evaluate", a, {})]


def f_multipitch_time_2d(r, T):
    return _multipitch_fault(r, T, corrupt_time=lambda t: np.asarray(t).reshape(-1, 1))


def f_freq_too_low(r, T):
    return _multipitch_fault(r, T, corrupt_freq=r.choice([19.0, 1.0, 0.0]))


def f_freq_too_high(r, T):
    return _multipitch_fault(r, T, corrupt_freq=r.choice([5001.0, 44100.0]))


def f_freq_negative(r, T):
    return _multipitch_fault(r, T, corrupt_freq=-440.0)


def f_multipitch_time_unsorted(r, T):
    return _multipitch_fault(r, T, corrupt_time=_unsorted)


def f_multipitch_time_huge(r, T):
    return _multipitch_fault(r, T, corrupt_time=_huge)


def f_voicing_range(r, T):
    rv, rc, evv, ec = T.gen_melody_frames(r)
    while len(rv) < 1:
        rv, rc, evv, ec = T.gen_melody_frames(r)
    bad = r.choice([-0.5, 1.5, 2.0])
    if r.random() < 0.5:
        rv = rv.copy(); rv[r.randrange(len(rv))] = bad
    else:
        evv = evv.copy(); evv[r.randrange(len(evv))] = bad
    return [("melody.voicing_measures", (rv, evv), {}),
            ("melody.raw_pitch_accuracy", (rv, rc, evv, ec), {}),
            ("melody.raw_chroma_accuracy", (rv, rc, evv, ec), {}),
            ("melody.overall_accuracy", (rv, rc, evv, ec), {})]


def f_negative_weight(r, T):
    n = r.randrange(1, 6)
    c = np.array([float(r.choice([1, 0, -1])) for _ in range(n)])
    w = np.array([r.randrange(1, 9) / 8.0 for _ in range(n)])
    w[r.randrange(n)] = -0.5
    return [("chord.weighted_accuracy", (c, w), {})]


def f_tempo(r, T):
    t = T.gen_tempo(r)
    kind = r.choice(["weight-high", "weight-low", "three-tempi", "one-tempo",
                     "negative", "nan", "inf", "all-zero-ref", "tol-high", "tol-low"])
    ref, w, est, kw = t["ref"].copy(), t["w"], t["est"].copy(), {}
    if kind == "weight-high":
        w = 1.5
    elif kind == "weight-low":
        w = -0.1
    elif kind == "three-tempi":
        if r.random() < 0.5:
            ref = np.append(ref, 90.0)
        else:
            est = np.append(est, 90.0)
    elif kind == "one-tempo":
        if r.random() < 0.5:
            ref = ref[:1]
        else:
            est = est[:1]
    elif kind == "negative":
        (ref if r.random() < 0.5 else est)[0] = -60.0
    elif kind == "nan":
        (ref if r.random() < 0.5 else est)[0] = np.nan
    elif kind == "inf":
        (ref if r.random() < 0.5 else est)[1] = np.inf
    elif kind == "all-zero-ref":
        ref = np.zeros(2)
    elif kind == "tol-high":
        kw["tol"] = 1.5
    else:
        kw["tol"] = -0.01
    return [("tempo.detection", (ref, w, est), kw), ("tempo.evaluate", (ref, w, est), kw)]


def f_hier_frame(r, T):
    h = T.gen_hierarchy(r)
    kind = r.choice(["zero", "negative", "exceeds-window"])
    if kind == "exceeds-window":
        kw = {"frame_size": 2.0, "window": 1.0}
    else:
        kw = {"frame_size": 0.0 if kind == "zero" else -0.5}
    out = [("hierarchy.tmeasure", (h["ref_ivs"], h["est_ivs"]), kw),
           ("hierarchy.evaluate", (h["ref_ivs"], h["ref_labs"], h["est_ivs"],
                                   h["est_labs"]), kw)]
    if kind != "exceeds-window":
        out.append(("hierarchy.lmeasure", (h["ref_ivs"], h["ref_labs"], h["est_ivs"],
                                          h["est_labs"]), kw))
    return out


def f_bad_chord_label(r, T):
    from . import chordgen
    bad = r.choice(["H:maj", "C:foo", "C:maj(", "C::min", "", "C/x", "c:maj", "N:maj",
                    "C:maj/", "C:(3,)", "Cb#", "C:maj7(*)", "C maj", "C(*3)"])
    n = r.randrange(1, 5)
    a = [chordgen.random_label(r) for _ in range(n)]
    b = list(a)
    k = r.randrange(n)
    if r.random() < 0.5:
        a[k] = bad
    else:
        b[k] = bad
    out = [("chord." + f, (a, b), {}) for f in T.CHORD_CMPS]
    c = T.gen_chord(r)
    labs = list(c["ref_lab"]); labs[r.randrange(len(labs))] = bad
    out.append(("chord.evaluate", (c["ref_iv"], labs, c["est_iv"], c["est_lab"]), {}))
    return out


def f_bad_key(r, T):
    bad = r.choice(["H major", "C", "C# lydian", "major C", "X major", "", "C  ",
                    "C major extra", "c# Major"])
    good = "C major"
    pair = (bad, good) if r.random() < 0.5 else (good, bad)
    return [("key.weighted_score", pair, {}), ("key.evaluate", pair, {})]


def f_bad_pattern(r, T):
    p = T.gen_pattern(r)
    while not p["ref"] or not p["est"]:
        p = T.gen_pattern(r)
    kind = r.choice(["no-occurrence", "triple"])
    side = r.choice(["ref", "est"])
    pats = copy.deepcopy(p[side])
    if kind == "no-occurrence":
        pats[r.randrange(len(pats))] = []
    else:
        pats[0][0][0] = (1.0, 60.0, 3.0)
    a = (pats, p["est"]) if side == "ref" else (p["ref"], pats)
    fns = ["standard_FPR", "establishment_FPR", "occurrence_FPR", "three_layer_FPR",
           "first_n_three_layer_P", "first_n_target_proportion_R", "evaluate"]
    return [("pattern." + f, a, {}) for f in fns]


def f_structure_span(r, T):
    s = T.gen_segment(r, allow_empty=False)
    kind = r.choice(["not-from-zero", "ends-differ"])
    s2 = dict(s)
    if kind == "not-from-zero":
        side = r.choice(["ref_iv", "est_iv"])
        iv = s[side].copy()
        iv[0, 0] = min(iv[0, 1] / 2, 0.25)
        s2[side] = iv
    else:
        iv = s["est_iv"].copy()
        iv[-1, 1] += 1.0
        s2["est_iv"] = iv
    four = (s2["ref_iv"], s2["ref_lab"], s2["est_iv"], s2["est_lab"])
    out = [("segment." + fn, four, {"frame_size": 0.5}) for fn in
           ("pairwise", "rand_index", "ari", "mutual_information", "nce", "vmeasure")]
    # multi-level hierarchies: lower levels must span the same range as the top
    h = T.gen_hierarchy(r)
    tries = 0
    while (len(h["ref_ivs"]) < 2) and tries < 50:
        h = T.gen_hierarchy(r)
        tries += 1
    if len(h["ref_ivs"]) >= 2:
        ivs = [iv.copy() for iv in h["ref_ivs"]]
        if kind == "not-from-zero":
            ivs[1][0, 0] = min(ivs[1][0, 1] / 2, 0.25)
        else:
            ivs[1][-1, 1] += 1.0
        out.append(("hierarchy.tmeasure", (ivs, h["est_ivs"]), {"frame_size": 0.5}))
        out.append(("hierarchy.lmeasure", (ivs, h["ref_labs"], h["est_ivs"],
                                          h["est_labs"]), {"frame_size": 0.5}))
    return out


def f_alignment(r, T):
    a = T.gen_alignment(r)
    while a["ref"].size < 2:
        a = T.gen_alignment(r)
    kind = r.choice(["unsorted", "2d", "negative", "empty", "list", "est-2d", "ref-2d",
                     "est-list", "ref-negative", "duration", "duration", "identical"])
    ref, est = a["ref"].copy(), a["est"].copy()
    if kind in ("duration", "identical"):
        # faults of percentage_correct_segments' own arguments
        if kind == "identical":
            ref = np.full(ref.size, float(ref[0]))
            kw = {}
        else:
            top = float(max(ref.max(), est.max()))
            kw = {"duration": r.choice([0.0, -1.0, top - 1 / 64.0,
                                        float(min(ref.max(), est.max())) - 1 / 64.0])}
        return [("alignment.percentage_correct_segments", (ref, est), kw)]
    if kind == "unsorted":
        if r.random() < 0.5:
            ref = _unsorted(ref)
        else:
            est = _unsorted(est)
    elif kind == "2d":
        ref, est = ref.reshape(1, -1), est.reshape(1, -1)
    elif kind == "negative":
        est = est - (est.max() + 1.0)
        est.sort()
    elif kind == "empty":
        ref, est = np.array([]), np.array([])
    elif kind == "est-2d":
        est = est.reshape(-1, 1)
    elif kind == "ref-2d":
        ref = ref.reshape(-1, 1)
    elif kind == "est-list":
        est = list(est)
    elif kind == "ref-negative":
        ref = ref - (ref.max() + 1.0)
    else:
        ref = list(ref)
    fns = ["absolute_error", "percentage_correct", "percentage_correct_segments",
           "karaoke_perceptual_metric", "evaluate"]
    return [("alignment." + f, (ref, est), {}) for f in fns]


def f_separation(r, T):
    rng = np.random.default_rng(r.randrange(2 ** 31))
    nsrc, n = 2, 64
    ref = rng.standard_normal((nsrc, n))
    est = rng.standard_normal((nsrc, n))
    kind = r.choice(["silent-ref", "silent-est", "shape", "4d", "too-many"])
    if kind == "silent-ref":
        ref[r.randrange(nsrc)] = 0.0
    elif kind == "silent-est":
        est[r.randrange(nsrc)] = 0.0
    elif kind == "shape":
        est = est[:, :-1]
    elif kind == "4d":
        ref = ref.reshape(nsrc, n // 4, 2, 2)
        est = est.reshape(nsrc, n // 4, 2, 2)
    else:
        ref = rng.standard_normal((101, 8))
        est = rng.standard_normal((101, 8))
    fns = ["bss_eval_sources", "bss_eval_sources_framewise", "bss_eval_images",
           "bss_eval_images_framewise"]
    if kind == "4d":
        fns = ["bss_eval_images", "bss_eval_images_framewise"]
    return [("separation." + f, (ref, est), {}) for f in fns]


VALUE = "ValueError"
CHORD = "InvalidChordException"

FAULTS = {
    "events-unsorted": (VALUE, f_events_unsorted),
    "events-multidimensional": (VALUE, f_events_2d),
    "events-beyond-30000s": (VALUE, f_events_huge),
    "intervals-negative": (VALUE, f_intervals_negative),
    "intervals-zero-duration": (VALUE, f_intervals_zero_duration),
    "intervals-reversed": (VALUE, f_intervals_reversed),
    "intervals-not-nx2": (VALUE, f_intervals_not_nx2),
    "chord-intervals-overlap": (VALUE, f_chord_overlap),
    "unequal-lengths": (VALUE, f_length_mismatch),
    "non-positive-pitch": (VALUE, f_nonpositive_pitch),
    "negative-velocity": (VALUE, f_negative_velocity),
    "frequency-below-20Hz": (VALUE, f_freq_too_low),
    "frequency-above-5000Hz": (VALUE, f_freq_too_high),
    "frequency-negative": (VALUE, f_freq_negative),
    "multipitch-times-unsorted": (VALUE, f_multipitch_time_unsorted),
    "multipitch-times-beyond-30000s": (VALUE, f_multipitch_time_huge),
    "multipitch-times-not-1d": (VALUE, f_multipitch_time_2d),
    "voicing-outside-0-1": (VALUE, f_voicing_range),
    "negative-weight": (VALUE, f_negative_weight),
    "tempo-malformed": (VALUE, f_tempo),
    "hierarchy-frame-size": (VALUE, f_hier_frame),
    "chord-label-malformed": (CHORD, f_bad_chord_label),
    "key-malformed": (VALUE, f_bad_key),
    "pattern-malformed": (VALUE, f_bad_pattern),
    "structure-span": (VALUE, f_structure_span),
    "alignment-timestamps": (VALUE, f_alignment),
    "separation-sources": (VALUE, f_separation),
}
