"""Per-shard recorder: what the monitors observed, in mergeable form."""

import base64
import hashlib
import json
import pickle
import time

import numpy as np

from . import env

MAX_SAMPLES = 6
MAX_CASES_PER_KEY = 3


def digest(obj):
    """Stable 12-hex digest of a (nested) python/numpy value."""
    h = hashlib.sha256()
    _feed(h, obj)
    return h.hexdigest()[:12]


def _feed(h, o):
    if isinstance(o, np.ndarray):
        h.update(b"nd")
        h.update(str(o.dtype).encode())
        h.update(repr(o.shape).encode())
        if o.dtype == object:
            for x in o.ravel():
                _feed(h, x)
        else:
            h.update(np.ascontiguousarray(o).tobytes())
    elif isinstance(o, (list, tuple)):
        h.update(b"l" if isinstance(o, list) else b"t")
        h.update(str(len(o)).encode())
        for x in o:
            _feed(h, x)
    elif isinstance(o, dict):
        h.update(b"d")
        for k in sorted(o, key=repr):
            _feed(h, k)
            _feed(h, o[k])
    elif isinstance(o, (set, frozenset)):
        h.update(b"s")
        for k in sorted(o, key=repr):
            _feed(h, k)
    elif isinstance(o, float):
        h.update(b"f" + np.float64(o).tobytes())
    elif isinstance(o, np.generic):
        h.update(b"g" + str(o.dtype).encode() + o.tobytes())
    else:
        h.update(type(o).__name__.encode())
        h.update(repr(o).encode())


def short(o, limit=400):
    """Human-readable, bounded rendering for samples / witnesses."""
    return _short(o, limit)


def _short(o, limit):
    if isinstance(o, np.ndarray):
        if o.size <= 24:
            s = "array(%s)" % (o.tolist(),)
        else:
            s = "array(shape=%s, head=%s...)" % (o.shape, o.ravel()[:8].tolist())
    elif isinstance(o, dict):
        s = "{" + ", ".join("%s: %s" % (_short(k, 60), _short(v, 160))
                            for k, v in list(o.items())[:12]) + (
            ", ..." if len(o) > 12 else "") + "}"
    elif isinstance(o, (list, tuple)):
        body = ", ".join(_short(x, 160) for x in list(o)[:12])
        if len(o) > 12:
            body += ", ...(%d)" % len(o)
        s = ("[%s]" if isinstance(o, list) else "(%s)") % body
    elif isinstance(o, (float, np.floating)):
        s = repr(float(o))
    elif isinstance(o, np.generic):
        s = repr(o.item())
    else:
        s = repr(o)
    if len(s) > limit:
        s = s[: limit - 3] + "..."
    return s


def pack(obj):
    return base64.b64encode(pickle.dumps(obj, protocol=4)).decode()


def unpack(s):
    return pickle.loads(base64.b64decode(s))


class Ctx:
    def __init__(self, prop, tier, seed, shard):
        self.prop = prop
        self.tier = tier
        self.seed = seed
        self.shard = shard
        self.evaluations = 0
        self.nt = set()
        self.nt_disjoint = 0  # counted without digests (domain partitioned)
        self.counters = {}
        self.hists = {}
        self.samples = []
        self.violations = {}  # key -> {count, clause, site, what, cases: []}
        self.inconclusive = []
        self.notes = []
        self.t0 = time.time()
        self.replaying = False

    # -- randomness ---------------------------------------------------
    def rng(self, *path):
        return env.rng(self.seed, self.prop, self.shard, *path)

    def nprng(self, *path):
        return env.nprng(self.seed, self.prop, self.shard, *path)

    # -- observations -------------------------------------------------
    def ev(self, n=1):
        self.evaluations += n

    def nontrivial(self, *objs):
        self.nt.add(digest(objs))

    def count(self, name, n=1):
        self.counters[name] = self.counters.get(name, 0) + n

    def hist(self, name, key, n=1):
        d = self.hists.setdefault(name, {})
        key = str(key)
        d[key] = d.get(key, 0) + n

    def sample(self, obj, force=False):
        if len(self.samples) < MAX_SAMPLES or force:
            self.samples.append(obj)

    def want_sample(self):
        return len(self.samples) < MAX_SAMPLES

    def violation(self, key, clause, site, what, case, witness=None):
        """Record a violation. ``key`` is the *mechanism key* used for the
        known-findings lookup; ``case`` is a picklable replay payload."""
        v = self.violations.get(key)
        if v is None:
            v = self.violations[key] = {
                "key": key, "clause": clause, "site": site, "what": what,
                "count": 0, "cases": [],
            }
        v["count"] += 1
        if len(v["cases"]) < MAX_CASES_PER_KEY:
            v["cases"].append({
                "case": pack(case),
                "witness": short(witness if witness is not None else case, 1500),
            })

    def mark_inconclusive(self, reason):
        self.inconclusive.append(reason)

    # -- output -------------------------------------------------------
    def summary(self):
        return {
            "shard": self.shard,
            "evaluations": self.evaluations,
            "nt": sorted(self.nt),
            "nt_disjoint": self.nt_disjoint,
            "counters": self.counters,
            "hists": self.hists,
            "samples": self.samples,
            "violations": list(self.violations.values()),
            "inconclusive": self.inconclusive,
            "notes": self.notes,
            "wall_s": round(time.time() - self.t0, 3),
        }


def to_jsonable(o):
    if isinstance(o, np.ndarray):
        return o.tolist()
    if isinstance(o, np.generic):
        return o.item()
    if isinstance(o, dict):
        return {str(k): to_jsonable(v) for k, v in o.items()}
    if isinstance(o, (list, tuple)):
        return [to_jsonable(x) for x in o]
    if isinstance(o, (set, frozenset)):
        return sorted((to_jsonable(x) for x in o), key=repr)
    if isinstance(o, float):
        if o != o or o in (float("inf"), float("-inf")):
            return repr(o)
        return o
    if isinstance(o, (str, int, bool)) or o is None:
        return o
    return repr(o)


def dump_json(obj, path):
    with open(path, "w") as f:
        json.dump(to_jsonable(obj), f, indent=1, sort_keys=False)
        f.write("\n")
