"""Score-kind table (C01): what range each documented return value must lie in.

Written from the "Returns" sections of the module docstrings.

kinds: prop (finite, in [0,1] to 1e-9) | binary (exactly 0 or 1) | adjusted
(<= 1; NaN counted, not judged) | error (finite, >= 0) | deviation (>= 0, NaN
iff one side has no boundaries) | pscore (prop only when beats are well
separated, else finite >= 0) | aor (<= 1 only) | unbounded (finite, >= 0) |
skip (not a score of this property).
"""

import numbers

import numpy as np

EPS = 1e-9

FN_KINDS = {
    "beat.f_measure": ["prop"],
    "beat.cemgil": ["cemgil", "cemgil"],
    "beat.goto": ["binary"],
    "beat.p_score": ["pscore"],
    "beat.continuity": ["prop"] * 4,
    "beat.information_gain": ["infogain"],
    "onset.f_measure": ["prop"] * 3,
    "segment.detection": ["prop"] * 3,
    "segment.deviation": ["deviation"] * 2,
    "segment.pairwise": ["pairwise"] * 3,
    "segment.rand_index": ["rand"],
    "segment.ari": ["adjusted"],
    "segment.mutual_information": ["unbounded", "adjusted", "nmi"],
    "segment.nce": ["prop"] * 3,
    "segment.vmeasure": ["prop"] * 3,
    "chord.weighted_accuracy": ["prop"],
    "chord.overseg": ["prop"],
    "chord.underseg": ["prop"],
    "chord.seg": ["prop"],
    "melody.voicing_measures": ["prop", "prop"],
    "melody.voicing_recall": ["prop"],
    "melody.voicing_false_alarm": ["prop"],
    "melody.raw_pitch_accuracy": ["prop"],
    "melody.raw_chroma_accuracy": ["prop"],
    "melody.overall_accuracy": ["prop"],
    "multipitch.metrics": ["prop"] * 3 + ["error"] * 4 + ["prop"] * 3 + ["error"] * 4,
    "multipitch.compute_accuracy": ["prop"] * 3,
    "multipitch.compute_err_score": ["error"] * 4,
    "transcription.precision_recall_f1_overlap": ["prop", "prop", "prop", "aor"],
    "transcription.onset_precision_recall_f1": ["prop"] * 3,
    "transcription.offset_precision_recall_f1": ["prop"] * 3,
    "transcription_velocity.precision_recall_f1_overlap":
        ["prop", "prop", "prop", "aor"],
    "tempo.detection": ["prop", "binary", "binary"],
    "key.weighted_score": ["prop"],
    "pattern.standard_FPR": ["stdpattern"] * 3,
    "pattern.establishment_FPR": ["prop"] * 3,
    "pattern.occurrence_FPR": ["prop"] * 3,
    "pattern.three_layer_FPR": ["prop"] * 3,
    "pattern.first_n_three_layer_P": ["prop"],
    "pattern.first_n_target_proportion_R": ["prop"],
    "hierarchy.tmeasure": ["prop"] * 3,
    "hierarchy.lmeasure": ["prop"] * 3,
    "alignment.absolute_error": ["error", "error"],
    "alignment.percentage_correct": ["prop"],
    "alignment.percentage_correct_segments": ["prop"],
    "alignment.karaoke_perceptual_metric": ["unbounded"],
}

EVAL_KINDS = {
    "beat": {"F-measure": "prop", "Cemgil": "cemgil",
             "Cemgil Best Metric Level": "cemgil", "Goto": "binary",
             "P-score": "pscore", "Correct Metric Level Continuous": "prop",
             "Correct Metric Level Total": "prop",
             "Any Metric Level Continuous": "prop", "Any Metric Level Total": "prop",
             "Information gain": "infogain"},
    "onset": {"F-measure": "prop", "Precision": "prop", "Recall": "prop"},
    "segment": {"Precision@0.5": "prop", "Recall@0.5": "prop",
                "F-measure@0.5": "prop", "Precision@3.0": "prop",
                "Recall@3.0": "prop", "F-measure@3.0": "prop",
                "Ref-to-est deviation": "deviation",
                "Est-to-ref deviation": "deviation",
                "Pairwise Precision": "pairwise", "Pairwise Recall": "pairwise",
                "Pairwise F-measure": "pairwise", "Rand Index": "rand",
                "Adjusted Rand Index": "adjusted", "Mutual Information": "unbounded",
                "Adjusted Mutual Information": "adjusted",
                "Normalized Mutual Information": "nmi", "NCE Over": "prop",
                "NCE Under": "prop", "NCE F-measure": "prop", "V Precision": "prop",
                "V Recall": "prop", "V-measure": "prop"},
    "chord": {k: "prop" for k in [
        "thirds", "thirds_inv", "triads", "triads_inv", "tetrads", "tetrads_inv",
        "root", "mirex", "majmin", "majmin_inv", "sevenths", "sevenths_inv",
        "underseg", "overseg", "seg"]},
    "melody": {"Voicing Recall": "prop", "Voicing False Alarm": "prop",
               "Raw Pitch Accuracy": "prop", "Raw Chroma Accuracy": "prop",
               "Overall Accuracy": "prop"},
    "multipitch": {"Precision": "prop", "Recall": "prop", "Accuracy": "prop",
                   "Substitution Error": "error", "Miss Error": "error",
                   "False Alarm Error": "error", "Total Error": "error",
                   "Chroma Precision": "prop", "Chroma Recall": "prop",
                   "Chroma Accuracy": "prop", "Chroma Substitution Error": "error",
                   "Chroma Miss Error": "error", "Chroma False Alarm Error": "error",
                   "Chroma Total Error": "error"},
    "transcription": {"Precision": "prop", "Recall": "prop", "F-measure": "prop",
                      "Average_Overlap_Ratio": "aor",
                      "Precision_no_offset": "prop", "Recall_no_offset": "prop",
                      "F-measure_no_offset": "prop",
                      "Average_Overlap_Ratio_no_offset": "aor",
                      "Onset_Precision": "prop", "Onset_Recall": "prop",
                      "Onset_F-measure": "prop", "Offset_Precision": "prop",
                      "Offset_Recall": "prop", "Offset_F-measure": "prop"},
    "transcription_velocity": {"Precision": "prop", "Recall": "prop",
                               "F-measure": "prop", "Average_Overlap_Ratio": "aor",
                               "Precision_no_offset": "prop",
                               "Recall_no_offset": "prop",
                               "F-measure_no_offset": "prop",
                               "Average_Overlap_Ratio_no_offset": "aor"},
    "tempo": {"P-score": "prop", "One-correct": "binary", "Both-correct": "binary"},
    "key": {"Weighted Score": "prop"},
    "pattern": {"F": "stdpattern", "P": "stdpattern", "R": "stdpattern",
                "F_est": "prop", "P_est": "prop", "R_est": "prop",
                "F_occ.5": "prop", "P_occ.5": "prop", "R_occ.5": "prop",
                "F_occ.75": "prop", "P_occ.75": "prop", "R_occ.75": "prop",
                "F_3": "prop", "P_3": "prop", "R_3": "prop", "FFP": "prop",
                "FFTP_est": "prop"},
    "hierarchy": {k: "prop" for k in [
        "T-Precision reduced", "T-Recall reduced", "T-Measure reduced",
        "T-Precision full", "T-Recall full", "T-Measure full", "L-Precision",
        "L-Recall", "L-Measure"]},
    "alignment": {"pc": "prop", "mae": "error", "aae": "error", "pcs": "prop",
                  "perceptual": "unbounded"},
}


def is_real_scalar(v):
    if isinstance(v, (bool, np.bool_)):
        return True
    if isinstance(v, numbers.Real):
        return True
    if isinstance(v, np.generic) and np.issubdtype(v.dtype, np.number):
        return True
    if isinstance(v, np.ndarray) and v.ndim == 0 and np.issubdtype(v.dtype, np.number):
        return True
    return False


def range_clause(kind, v):
    """Returns None if v satisfies the *unconditional* part of its kind, else a
    clause name. Conditional kinds are refined by the caller."""
    if not is_real_scalar(v):
        return "not-a-real-scalar"
    x = float(v)
    if kind in ("prop", "cemgil", "infogain", "pairwise", "rand", "nmi",
                "stdpattern"):
        if x != x:
            return "nan"
        if x in (float("inf"), float("-inf")):
            return "infinite"
        if x < -EPS:
            return "below-0"
        if x > 1 + EPS:
            return "above-1"
        return None
    if kind == "binary":
        return None if (x == 0.0 or x == 1.0) else "not-0-or-1"
    if kind == "adjusted":
        if x != x:
            return None  # counted by the caller, not judged (0/0 cases)
        return "above-1" if x > 1 + EPS else None
    if kind in ("error", "unbounded"):
        if x != x:
            return "nan"
        if x in (float("inf"), float("-inf")):
            return "infinite"
        return "below-0" if x < -EPS else None
    if kind == "aor":
        if x != x:
            return "nan"
        return "above-1" if x > 1 + EPS else None
    if kind == "pscore":
        if x != x:
            return "nan"
        if x in (float("inf"), float("-inf")):
            return "infinite"
        return "below-0" if x < -EPS else None
    if kind == "deviation":
        if x != x:
            return None  # NaN admissibility decided by the caller
        if x in (float("inf"), float("-inf")):
            return "infinite"
        return "below-0" if x < -EPS else None
    return None
