"""What each built check claims (source of MANIFEST.json via tools/mkmanifest.py)."""

_NOTE = ("Trusted: CPython 3.12, NumPy/SciPy as shipped in /venv, the reference "
         "models / validity models under /verif/vlib (independent of mir_eval, "
         "validated by seeded mutants), exactness of binary64 on the dyadic "
         "lattices. Held on the executions listed in the evidence file only.")

CHECKS = {
    "C05": {
        "design_ref": "DESIGN.md section 5 C05",
        "technique": "runtime post-condition monitors on every matching "
                     "(validity + maximality vs brute-force graph and Kuhn), "
                     "exhaustive small-graph workload",
        "text": "Every matching the real code produced in the run (client and "
                "internal calls) was one-to-one, used only feasible pairs and had "
                "maximum size; all bipartite graphs up to 3x4 (quick) / 4x5 "
                "(thorough) are enumerated, larger ones sampled with planted "
                "augmenting structures. Exploration: nothing is claimed beyond "
                "the executions observed.",
        "note": _NOTE,
    },
}
