"""What each built check claims (source of MANIFEST.json via tools/mkmanifest.py)."""

_NOTE = ("Trusted: CPython 3.12, NumPy/SciPy as shipped in /venv, the reference "
         "models / validity models under /verif/vlib (independent of mir_eval, "
         "validated by seeded mutants), exactness of binary64 on the dyadic "
         "lattices. Held on the executions listed in the evidence file only.")

CHECKS = {
    "C05": {
        "design_ref": "DESIGN.md section 5 C05",
        "technique": "runtime post-condition monitors on every matching "
                     "(validity + maximality vs brute-force graph and Kuhn), "
                     "exhaustive small-graph workload",
        "text": "Every matching the real code produced in the run (client and "
                "internal calls) was one-to-one, used only feasible pairs and had "
                "maximum size; all bipartite graphs up to 3x4 (quick) / 4x5 "
                "(thorough) are enumerated, larger ones sampled with planted "
                "augmenting structures. Exploration: nothing is claimed beyond "
                "the executions observed.",
        "note": _NOTE,
    },
}

CHECKS["C01"] = {
    "design_ref": "DESIGN.md section 5 C01",
    "technique": "runtime range/type post-condition monitors on every public "
                 "metric function and evaluate(), seeded valid-input workloads + "
                 "repository tests as workload",
    "text": "Every value returned by the 46 public metric functions and 13 "
            "evaluate() functions during the run satisfied the range its "
            "docstring documents (kinds table in vlib/kinds.py); violations are "
            "reduced to mechanism keys and compared with known_findings.json. "
            "Exploration over seeded valid inputs incl. degenerate shapes.",
    "note": _NOTE,
}
CHECKS["C13"] = {
    "design_ref": "DESIGN.md section 5 C13",
    "technique": "runtime post-condition monitors on util interval helpers vs a "
                 "piecewise-constant-function reference model (all client and "
                 "internal calls)",
    "text": "Every observed call of adjust_intervals, adjust_events, "
            "merge_labeled_intervals, interpolate_intervals, intervals_to_samples, "
            "boundaries_to_intervals, intervals_to_boundaries on time-ordered "
            "input satisfied its post-condition, probed at the mid-point of every "
            "elementary interval; limits drawn in every relation to the data.",
    "note": _NOTE,
}

CHECKS["C14"] = {
    "category": "fault_enumeration",
    "design_ref": "DESIGN.md section 5 C14",
    "technique": "runtime outcome monitor at every public entry point: seeded "
                 "valid inputs must return; each single named fault of the "
                 "documented catalogue must raise ValueError / "
                 "InvalidChordException",
    "text": "Fault enumeration: 26 named single-fault classes from the statement's "
            "catalogue are applied to valid inputs at every entry point whose "
            "validator documents the check, and the exception type (or its "
            "absence) is observed; the valid half observes that every metric "
            "function and evaluate() returns on all generated valid shapes. The "
            "evidence lists the full (fault x entry point x outcome) matrix.",
    "note": _NOTE,
}
CHECKS["C15"] = {
    "design_ref": "DESIGN.md section 5 C15",
    "technique": "runtime argument-digest purity monitor on all public functions, "
                 "write-protected-buffer pass, np.empty poisoning, module-state "
                 "canary, offline checker over a recorded multi-schedule history",
    "text": "Every argument of every observed call of the public functions of 16 "
            "modules had the same digest after the call as before (return or "
            "raise); a write-protected pass pins any in-place write to its line; "
            "one operation pool executed in several schedules in one interpreter "
            "gave bit-identical result digests at every position, with no "
            "uninitialised (poisoned) element in any result.",
    "note": _NOTE,
}

CHECKS["C03"] = {
    "design_ref": "DESIGN.md section 5 C03",
    "technique": "runtime trace monitor of the keyword values each metric "
                 "function receives while evaluate() runs + differential monitor "
                 "against direct calls on independently pre-processed inputs",
    "text": "For every observed evaluate() call of the 13 tasks: the key set was "
            "the documented one, every value a real scalar, every value "
            "bit-identical to the public metric function called directly with the "
            "documented parameter on inputs pre-processed by an independent "
            "implementation, the recorded call trace carried the documented forced "
            "parameters, and a junk keyword changed nothing.",
    "note": _NOTE,
}

CHECKS["C02"] = {
    "design_ref": "DESIGN.md section 5 C02",
    "technique": "runtime execution of every metric on (x, deepcopy(x)) recorded "
                 "in an event log; offline checker compares each recorded value "
                 "with the optimum table",
    "text": "Every recorded execution of every metric function and evaluate() on a "
            "valid non-degenerate annotation scored against a deep copy of itself "
            "returned the optimum (1 / 0 / H(x) / documented-0 conventions) under "
            "all parameter settings drawn; exploration over seeded inputs.",
    "note": _NOTE,
}
CHECKS["C06"] = {
    "design_ref": "DESIGN.md section 5 C06",
    "technique": "offline relation checker over a recorded event log of "
                 "metric(a,b) / metric(b,a) executions (swap table)",
    "text": "For every recorded pair of executions with reference and estimate "
            "exchanged, precision and recall (over/under-segmentation, ref-to-est/"
            "est-to-ref deviation) were exchanged and the symmetric scores equal "
            "to 1e-9, on pairs of deliberately unequal size.",
    "note": _NOTE,
}

CHECKS["C07"] = {
    "design_ref": "DESIGN.md section 5 C07",
    "technique": "offline monotone-chain and nesting checker over a recorded event "
                 "log of executions differing in one tolerance / of evaluate() "
                 "results",
    "text": "Along every recorded chain of executions of one function on one input "
            "with one tolerance increasing (incl. values equal to an existing "
            "distance, strict vs non-strict), no hit-derived score decreased; every "
            "recorded evaluate() result satisfied the documented nesting "
            "inequalities.",
    "note": _NOTE,
}
CHECKS["C08"] = {
    "design_ref": "DESIGN.md section 5 C08",
    "technique": "offline invariance checker over a recorded event log of "
                 "metric(x,y) / metric(T(x),T(y)) executions (time shift, "
                 "permutation, label bijection)",
    "text": "Every recorded pair of executions related by a common exact time "
            "shift, a permutation of an unordered collection or an independent "
            "label bijection returned equal scores (1e-9); one origin-dependence "
            "of multipitch (np.allclose relative tolerance) is a listed finding.",
    "note": _NOTE,
}

CHECKS["C09"] = {
    "design_ref": "DESIGN.md section 5 C09",
    "technique": "offline invariance checker over a recorded event log "
                 "(respelling, joint transposition, frequency factor, octave shift, "
                 "sign flip); key-pair domain enumerated exhaustively",
    "text": "Every recorded pair of executions related by enharmonic respelling, "
            "joint transposition, a common frequency factor, an estimate-only "
            "octave shift or negated estimate frequencies returned identical "
            "comparison vectors / scores; all ordered key pairs x 12 transpositions "
            "were enumerated.",
    "note": _NOTE,
}
CHECKS["C12"] = {
    "design_ref": "DESIGN.md section 5 C12",
    "technique": "offline refinement-invariance checker over a recorded event log + "
                 "runtime exact-rational post-condition on every "
                 "chord.weighted_accuracy and chord.directional_hamming_distance call",
    "text": "Every recorded (annotation, refinement) pair gave equal chord.evaluate, "
            "frame-based segment and L-measure scores; every observed "
            "weighted_accuracy call (incl. those made by chord.evaluate) equalled "
            "the exact duration-weighted mean over comparable items and was "
            "invariant to weight rescaling.",
    "note": _NOTE,
}

CHECKS["C10"] = {
    "design_ref": "DESIGN.md section 5 C10",
    "technique": "runtime differential monitor of validate_chord_label / split / "
                 "join / encode / encode_many against a recursive-descent "
                 "recogniser and interval-set encoder; exhaustive bounded grammar + "
                 "mutation fuzzing",
    "text": "For every string executed: only InvalidChordException was raised, "
            "acceptance coincided with the documented grammar, every accepted "
            "encodable label had a sound encoding equal to the reference encoder "
            "under all four flag combinations, join(*split) round-tripped, N/X "
            "mapped to their sentinels. The bounded grammar slice is enumerated "
            "completely; beyond it, seeded mutations and random strings.",
    "note": _NOTE,
}
CHECKS["C11"] = {
    "design_ref": "DESIGN.md section 5 C11",
    "technique": "runtime post-conditions on the 12 comparison functions + "
                 "vocabulary oracle; exhaustive ordered pairs of a fixed label "
                 "universe for the implication lattice",
    "text": "All ordered pairs of the fixed label universe were executed through "
            "all 12 rules: values in {1,0,-1}, -1 exactly where the reference is "
            "outside the documented vocabulary, no f(l,l)=0, all documented "
            "implications hold; internal calls from chord.evaluate are checked by "
            "the same post-conditions.",
    "note": _NOTE,
}

CHECKS["C16"] = {
    "design_ref": "DESIGN.md section 5 C16",
    "technique": "runtime reference-model monitor on the six segment labelling "
                 "functions (independent frame sampler + exact-integer contingency "
                 "table + textbook indices) and client-boundary identity checks",
    "text": "Every observed call of pairwise, rand_index, ari, mutual_information, "
            "nce, vmeasure (client and from segment.evaluate) agreed to 1e-9 with "
            "the textbook formulas evaluated on the frame contingency table by an "
            "independent exact implementation; vmeasure == nce(marginal), case "
            "folding, MI symmetry, V = F(P,R) and ARI=1 on coinciding partitions "
            "held on every generated pair.",
    "note": _NOTE,
}
CHECKS["C17"] = {
    "design_ref": "DESIGN.md section 5 C17",
    "technique": "runtime reference-model monitor on hierarchy.tmeasure / lmeasure "
                 "(O(n^3) brute-force triplet definition) incl. calls made by "
                 "hierarchy.evaluate; parameter-fault outcomes",
    "text": "Every observed tmeasure / lmeasure call within the size bound agreed to "
            "1e-9 with the brute-force frame-triple definition (1-4 levels, nested "
            "or not, window None or a lattice value incl. window == frame_size, "
            "both transitive settings), scores were in [0,1], and frame_size <= 0 / "
            "> window raised ValueError.",
    "note": _NOTE,
}

CHECKS["C18"] = {
    "design_ref": "DESIGN.md section 5 C18",
    "technique": "runtime post-conditions on multipitch.metrics / evaluate / "
                 "compute_num_true_positives / compute_accuracy / "
                 "compute_err_score / resample_multipitch, incl. that metrics() resamples "
                 "the caller's estimate onto the reference times whenever the time "
                 "bases differ",
    "text": "Every observed multipitch result satisfied E_tot = E_sub + E_miss + "
            "E_fa, non-negative errors, accuracy <= min(P, R) (raw and chroma), "
            "per-frame TP <= min(#ref, #est), chroma TP >= raw TP, and every "
            "resampled frame was the nearest estimate frame (empty outside the "
            "estimate's range).",
    "note": _NOTE,
}
CHECKS["C19"] = {
    "design_ref": "DESIGN.md section 5 C19",
    "technique": "runtime post-conditions on the inner BSS-eval functions "
                 "(decomposition sum, permutation optimality from captured SIR "
                 "matrices), client-boundary relations (scaling, reordering, "
                 "no-permutation scores, 1-d single source, framewise vs direct incl. the "
                 "single-window branch), np.empty poisoning",
    "text": "For every generated source set: decomposition components summed to "
            "the estimate, the permutation was an optimal permutation and followed "
            "a reordering of the estimates, bss_eval_sources metrics were scale "
            "invariant, perfect estimates mapped to the identity with SDR > 60 dB, "
            "every framewise column equalled the direct call bit for bit, silent "
            "windows were NaN in every metric, no output carried uninitialised "
            "memory, arities were as documented incl. empty input.",
    "note": _NOTE,
}

CHECKS["C20"] = {
    "design_ref": "DESIGN.md section 5 C20",
    "technique": "runtime round-trip monitor at the client boundary of every "
                 "mir_eval.io loader (own writer; temp path, StringIO and duck-typed "
                 "file object), "
                 "single-fault corruptions, shim on io.load_delimited",
    "text": "Every generated annotation file (10 formats, 6 delimiter styles, "
            "comment lines, repr floats incl. denormals/exponents, Unicode labels "
            "with internal delimiters) loaded back bit-identically from a path and "
            "from a StringIO; every single-fault corruption raised ValueError "
            "naming the row; convention-violating content warned without raising.",
    "note": _NOTE,
}

CHECKS["C04"] = {
    "design_ref": "DESIGN.md section 5 C04",
    "technique": "runtime reference-model monitors: every observed call of 30 "
                 "metric functions is recomputed by an independent executable "
                 "specification (exact rationals / brute force) with "
                 "near-threshold margin skipping; key and tempo-flag domains "
                 "enumerated",
    "text": "Every observed call (client and internal) of the listed beat, onset, "
            "boundary, melody, multipitch, transcription(+velocity), tempo, key, "
            "alignment and pattern functions whose input was not within 1e-7 of a "
            "threshold agreed to 1e-9 with an independent restatement of the "
            "documented definition; the key-pair table and the tempo hit-flag "
            "domain were enumerated completely; the information-gain if/elif slip "
            "is a listed finding.",
    "note": _NOTE,
}
