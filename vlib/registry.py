"""What each built check claims (source of MANIFEST.json via tools/mkmanifest.py)."""

_NOTE = ("Trusted: CPython 3.12, NumPy/SciPy as shipped in /venv, the reference "
         "models / validity models under /verif/vlib (independent of mir_eval, "
         "validated by seeded mutants), exactness of binary64 on the dyadic "
         "lattices. Held on the executions listed in the evidence file only.")

CHECKS = {
    "C05": {
        "design_ref": "DESIGN.md section 5 C05",
        "technique": "runtime post-condition monitors on every matching "
                     "(validity + maximality vs brute-force graph and Kuhn), "
                     "exhaustive small-graph workload",
        "text": "Every matching the real code produced in the run (client and "
                "internal calls) was one-to-one, used only feasible pairs and had "
                "maximum size; all bipartite graphs up to 3x4 (quick) / 4x5 "
                "(thorough) are enumerated, larger ones sampled with planted "
                "augmenting structures. Exploration: nothing is claimed beyond "
                "the executions observed.",
        "note": _NOTE,
    },
}

CHECKS["C01"] = {
    "design_ref": "DESIGN.md section 5 C01",
    "technique": "runtime range/type post-condition monitors on every public "
                 "metric function and evaluate(), seeded valid-input workloads + "
                 "repository tests as workload",
    "text": "Every value returned by the 46 public metric functions and 13 "
            "evaluate() functions during the run satisfied the range its "
            "docstring documents (kinds table in vlib/kinds.py); violations are "
            "reduced to mechanism keys and compared with known_findings.json. "
            "Exploration over seeded valid inputs incl. degenerate shapes.",
    "note": _NOTE,
}
CHECKS["C13"] = {
    "design_ref": "DESIGN.md section 5 C13",
    "technique": "runtime post-condition monitors on util interval helpers vs a "
                 "piecewise-constant-function reference model (all client and "
                 "internal calls)",
    "text": "Every observed call of adjust_intervals, adjust_events, "
            "merge_labeled_intervals, interpolate_intervals, intervals_to_samples, "
            "boundaries_to_intervals, intervals_to_boundaries on time-ordered "
            "input satisfied its post-condition, probed at the mid-point of every "
            "elementary interval; limits drawn in every relation to the data.",
    "note": _NOTE,
}
