"""C09 -- pitch spelling, joint transposition and octave are handled as
documented."""

import numpy as np

from .. import env, gen, tasks, chordgen
from ..evlog import Relations, close_enough, flat

Q = gen.Q
LEVEL = "exploration"
TOL = 1e-9
RULE = ("Executions related by (a) enharmonic respelling of chord roots / key "
        "tonics from my own pitch-class arithmetic, (b) joint transposition of "
        "reference and estimate by 0-11 semitones, (c) a common frequency factor "
        "2^k (exact) or 2^(j/12) (pitch deviations kept >= 25 cents away from every "
        "tolerance), (d) an estimate-only whole-octave shift (chroma scores), (e) "
        "negating estimated melody frequencies (raw pitch / raw chroma) are logged "
        "and an offline checker requires identical comparison vectors and scores. "
        "Key pairs are enumerated exhaustively (all admitted key strings x 12 "
        "transpositions). Non-trivial = instance whose base score is strictly "
        "between 0 and 1 (or, for keys/chords, a pair of distinct labels).")
ASSUMPTIONS = [
    "pitch deviations are drawn from {0, .25, .75, 1, 7, 11.75, 12, 12.25} "
    "semitones so that no pair sits on a 50-cent / 0.5-semitone threshold",
    "melody inputs share one time base (no interpolation) so cents stay exact",
]
EXHAUSTIVE = {"quick": False, "thorough": False}
EXHAUSTIVE_DOMAIN = {
    "quick": "key sub-domain exhaustive: all ordered pairs of the 35 major/minor/X "
             "key strings x 12 transpositions",
    "thorough": "key sub-domain exhaustive: all ordered pairs of the 52 key strings "
                "(incl. mode 'other') x 12 transpositions x all tonic spellings",
}

NAT = {"C": 0, "D": 2, "E": 4, "F": 5, "G": 7, "A": 9, "B": 11}
SPELL = {}
for _n, _pc in NAT.items():
    for _k in range(-2, 3):
        _s = _n + ("b" * -_k if _k < 0 else "#" * _k)
        SPELL.setdefault((_pc + _k) % 12, []).append(_s)

KEY_SPELL = {}
for _t in tasks.KEY_TONICS:
    _pc = (NAT[_t[0].upper()] + (1 if _t.endswith("#") else -1 if _t.endswith("b") and
                                 len(_t) > 1 else 0)) % 12
    KEY_SPELL.setdefault(_pc, []).append(_t)


def plan(tier, seed):
    n = 160 if tier == "quick" else 3000
    shards = [{"name": "pitch-%d" % p, "kind": "pitch", "n": n}
              for p in range(12)]
    parts = 4 if tier == "quick" else 12
    shards += [{"name": "keys-%d" % p, "kind": "keys", "part": p, "parts": parts,
                "modes": ["major", "minor"] if tier == "quick" else
                ["major", "minor", "other"], "all_spellings": tier != "quick"}
               for p in range(parts)]
    return shards


def root_pc(root):
    pc = NAT[root[0]]
    for ch in root[1:]:
        pc += 1 if ch == "#" else -1
    return pc % 12


def split_root(label):
    """(root, rest) of a grammar-valid label; (None, label) for N / X."""
    if label in ("N", "X"):
        return None, label
    i = 1
    while i < len(label) and label[i] in "b#":
        i += 1
    return label[:i], label[i:]


def transform(r, label, k=0, respell=True):
    root, rest = split_root(label)
    if root is None:
        return label
    pc = (root_pc(root) + k) % 12
    if respell or k:
        return r.choice(SPELL[pc]) + rest
    return label


def check_same(ev, meta):
    a, b = ev["base"]["value"], ev["T"]["value"]
    only = meta.get("only")
    fa, fb = dict(flat(a)), dict(flat(b))
    if set(fa) != set(fb):
        return [("structure", "different result structure")]
    nt = False
    for p, x in fa.items():
        if only is not None and not (p in only or (len(p) and p[-1] in only)):
            continue
        y = fb[p]
        if isinstance(x, (int, float)) and 0 < float(x) < 1:
            nt = True
        if not close_enough(x, y, TOL):
            meta["nt"] = nt
            return [("changed", "%s: component %s is %r before and %r after %s" % (
                meta["fn"], list(p), x, y, meta["T"]))]
    meta["nt"] = nt or meta.get("force_nt", False)
    return []


CHECKERS = {k: check_same for k in ("respell", "transpose", "key", "factor", "octave",
                                    "sign")}


def pair(kind, fn, a, b, kw, T, nt, only=None, force_nt=False):
    return {"kind": kind, "site": fn,
            "calls": [("base", fn, a, kw), ("T", fn, b, kw)],
            "meta": {"fn": fn, "T": T, "only": only, "force_nt": force_nt}, "nt": nt}


# incl. deviations 0.05 cent either side of the default 50-cent / half-semitone
# thresholds: far outside binary64 rounding, inside any coarser rounding of pitch
DEVS = [0, 0, 0, 0.25, -0.25, 0.4995, -0.4995, 0.5005, 0.75, -0.75, 1, -1, 7, 11.75, 12,
        -12, 12.25]


def pitch_instances(r):
    out = []
    # ---- chords ----
    c = tasks.gen_chord(r)
    k = r.randrange(0, 12)
    rl, el = c["ref_lab"], c["est_lab"]
    rl2 = [transform(r, l) for l in rl]
    el2 = [transform(r, l) for l in el]
    rl3 = [transform(r, l, k) for l in rl]
    el3 = [transform(r, l, k) for l in el]
    distinct = len(set(rl) | set(el)) >= 2
    ntc = ("chord", tuple(rl), tuple(el))
    out.append(pair("respell", "chord.evaluate",
                    (c["ref_iv"], rl, c["est_iv"], el),
                    (c["ref_iv"], rl2, c["est_iv"], el2), {}, "respelling",
                    ntc + ("respell", tuple(rl2)), force_nt=distinct))
    out.append(pair("transpose", "chord.evaluate",
                    (c["ref_iv"], rl, c["est_iv"], el),
                    (c["ref_iv"], rl3, c["est_iv"], el3), {}, "transposition by %d" % k,
                    ntc + ("tr", k), force_nt=distinct))
    n = r.randrange(1, 8)
    a = [chordgen.random_label(r) for _ in range(n)]
    b = [x if r.random() < 0.4 else chordgen.random_label(r) for x in a]
    a2, b2 = [transform(r, l) for l in a], [transform(r, l) for l in b]
    a3, b3 = [transform(r, l, k) for l in a], [transform(r, l, k) for l in b]
    for f in tasks.CHORD_CMPS:
        out.append(pair("respell", "chord." + f, (a, b), (a2, b2), {}, "respelling",
                        ("cmp", f, tuple(a), tuple(b), tuple(a2)), force_nt=True))
        out.append(pair("transpose", "chord." + f, (a, b), (a3, b3), {},
                        "transposition by %d" % k, ("cmpT", f, tuple(a), tuple(b), k),
                        force_nt=True))
    # ---- melody (shared time base) ----
    nfr = r.randrange(3, 25)
    t = r.choice([0.0, 1 / 64]) + np.arange(nfr) / 64.0
    midi = [r.randrange(45 * 8, 75 * 8) / 8.0 for _ in range(nfr)]
    rf, ef = [], []
    for mm in midi:
        u = r.random()
        f = float(gen.midi_to_hz(mm))
        rf.append(0.0 if u < 0.15 else (-f if u < 0.25 else f))
        g = float(gen.midi_to_hz(mm + r.choice(DEVS)))
        u = r.random()
        ef.append(0.0 if u < 0.1 else (-g if u < 0.2 else g))
    rf, ef = np.array(rf), np.array(ef)
    fac = r.choice([2.0, 0.5, 4.0, 2.0 ** (1 / 12), 2.0 ** (5 / 12), 2.0 ** (-7 / 12)])
    ntm = ("mel", t, rf, ef)
    # the common factor applies to every frequency of the problem, so a
    # non-default base_frequency (also above the pitch range) scales with it
    base = r.choice([10.0, 10.0, 100.0, 300.0, 1000.0])
    out.append(pair("factor", "melody.evaluate", (t, rf, t.copy(), ef),
                    (t, rf * fac, t.copy(), ef * fac), {}, "frequency factor %r" % fac,
                    ntm + (fac,)))
    out[-1]["calls"][0] = ("base", "melody.evaluate", (t, rf, t.copy(), ef),
                           {"base_frequency": base})
    out[-1]["calls"][1] = ("T", "melody.evaluate", (t, rf * fac, t.copy(), ef * fac),
                           {"base_frequency": base})
    # different time bases: the estimate is resampled (cent scale) with the
    # requested interpolation kind; un-voiced zeros must stay out of the curve
    if nfr >= 5:
        knd = r.choice(["linear", "nearest", "zero", "slinear", "quadratic", "cubic"])
        m2 = r.randrange(5, 30)
        t2 = r.choice([0.0, 1 / 128]) + np.arange(m2) * r.choice([1 / 64, 3 / 128, 1 / 32])
        # generic (off-lattice) pitches here: after resampling a reference frame
        # meets estimates derived from *other* frames, and on the 12.5-cent lattice
        # such cross differences hit the 50-cent tolerance exactly
        rf = np.array([0.0 if f == 0 else np.sign(f) * float(gen.midi_to_hz(r.uniform(45, 75)))
                       for f in rf])
        ef2 = []
        for tt in t2:
            i = int(np.argmin(np.abs(t - tt)))
            base_f = abs(rf[i]) if rf[i] != 0 else float(gen.midi_to_hz(60.0))
            # generic deviations as well: interpolating between lattice deviations
            # at rational positions lands on the tolerance (2/3 of 75 cents = 50)
            dv = r.choice([0.0, r.uniform(-0.9, 0.9), r.uniform(-0.9, 0.9),
                           12.0 + r.uniform(-0.3, 0.3), -12.0, 7.0 + r.uniform(-0.2, 0.2)])
            g = base_f * 2.0 ** (dv / 12.0)
            u = r.random()
            ef2.append(0.0 if u < 0.15 else (-g if u < 0.25 else g))
        ef2 = np.array(ef2)
        fac2 = r.choice([2.0, 0.5, 4.0, 2.0 ** (1 / 12), 2.0 ** (-7 / 12)])
        out.append(pair("factor", "melody.evaluate", (t, rf, t2, ef2),
                        (t, rf * fac2, t2, ef2 * fac2), {"kind": knd},
                        "frequency factor %r, kind=%s" % (fac2, knd), ("mel-kind", t, rf, t2, ef2, fac2, knd)))
    octv = r.choice([2.0, 0.5, 4.0])
    out.append(pair("octave", "melody.evaluate", (t, rf, t.copy(), ef),
                    (t, rf, t.copy(), ef * octv),
                    # (no value that a deviation of DEVS hits exactly: 25, 75, 100 cents are ties)
                    tasks.draw_params(r, {"cent_tolerance": [80, 130, 50, 160]}),
                    "estimate x %r" % octv,
                    ntm + ("oct", octv), only=["Raw Chroma Accuracy"]))
    out.append(pair("sign", "melody.evaluate", (t, rf, t.copy(), ef),
                    (t, rf, t.copy(), -np.abs(ef)), {}, "estimate frequencies negated",
                    ntm + ("neg",), only=["Raw Pitch Accuracy", "Raw Chroma Accuracy"]))
    # ---- multipitch ----
    nfr = r.randrange(2, 12)
    tm = np.arange(nfr) / 16.0
    rfr, efr = [], []
    # a common tuning offset keeps every pair distance the same (cross pairs stay
    # integer +- deviation) while moving the references off the A440 grid
    tuning = r.choice([0.0, 0.0, 0.3, 0.4, 0.17])
    for _ in range(nfr):
        # integer-semitone reference pitches: with deviations from DEVS no cross
        # pair inside a frame can sit exactly on the 0.5-semitone window
        ms = [float(r.randrange(50, 80)) + tuning
              for _ in range(r.choice([0, 1, 2, 3]))]
        rfr.append(gen.midi_to_hz(ms) if ms else np.array([]))
        es = [mm + r.choice(DEVS[:-4] + [12, -12]) for mm in ms if r.random() < 0.8]
        if r.random() < 0.3:
            es.append(float(r.randrange(50, 80)) + 0.0625 + tuning)
        efr.append(gen.midi_to_hz(es) if es else np.array([]))
    facm = r.choice([2.0, 0.5, 2.0 ** (1 / 12), 2.0 ** (-5 / 12), 2.0 ** (0.3 / 12), 1.37])
    ntp = ("mp", rfr, efr)
    out.append(pair("factor", "multipitch.metrics", (tm, rfr, tm.copy(), efr),
                    (tm, [f * facm for f in rfr], tm.copy(), [f * facm for f in efr]), {},
                    "frequency factor %r" % facm, ntp + (facm,)))
    om = r.choice([2.0, 0.5])
    out.append(pair("octave", "multipitch.metrics", (tm, rfr, tm.copy(), efr),
                    (tm, rfr, tm.copy(), [f * om for f in efr]), {}, "estimate x %r" % om,
                    ntp + ("oct", om), only=[(i,) for i in range(7, 14)]))
    # ---- notes ----
    iv, _, vel = gen.notes(r, n=r.randrange(1, 9))
    hz = gen.midi_to_hz([float(r.randrange(40, 90)) for _ in range(len(iv))])
    ehz = hz * np.array([2.0 ** (r.choice(DEVS) / 12.0) for _ in hz])
    eiv = iv + np.array([[r.choice([0, 1, -1, 2]) / Q] * 2 for _ in iv]).reshape(-1, 2)
    eiv = np.maximum(eiv, 0.0)
    eiv[:, 1] = np.maximum(eiv[:, 1], eiv[:, 0] + 1 / Q)
    facn = r.choice([2.0, 0.5, 2.0 ** (3 / 12), 2.0 ** (2 / 12), 2.0 ** (-1 / 12), 1.2345,
                     1.37])
    kw = tasks.draw_params(r, {"offset_ratio": [0.2, None], "strict": [False, True]})
    out.append(pair("factor", "transcription.precision_recall_f1_overlap",
                    (iv, hz, eiv, ehz), (iv, hz * facn, eiv, ehz * facn), kw,
                    "frequency factor %r" % facn, ("notes", iv, hz, ehz, facn)))
    return out


def key_instances(spec, r):
    keys = tasks.all_keys(tuple(spec["modes"]))
    out = []
    idx = 0
    for a in keys:
        for b in keys:
            for k in range(12):
                idx += 1
                if idx % spec["parts"] != spec["part"]:
                    continue
                def tr(key, all_sp):
                    if key.lower() == "x":
                        return [key]
                    tonic, mode = key.split()
                    pc = [p for p, ts in KEY_SPELL.items() if tonic in ts][0]
                    sp = KEY_SPELL[(pc + k) % 12]
                    if not all_sp:
                        sp = [r.choice(sp)]
                    return ["%s %s" % (r.choice([s, s.capitalize()]), mode) for s in sp]
                for a2 in tr(a, spec["all_spellings"]):
                    for b2 in tr(b, spec["all_spellings"]):
                        out.append(pair("key", "key.weighted_score", (a, b), (a2, b2), {},
                                        "transposition by %d / respelling" % k,
                                        ("key", a, b, a2, b2), force_nt=(a != b)))
    return out


OPTIONAL_TONICS = {"b#": "c", "cb": "b", "e#": "f", "fb": "e"}


def optional_spellings(ctx, mods):
    """Spellings the key table may or may not know (the module docstring mentions
    'Fb minor'): a library that accepts one must score it like the pitch class it
    names; one that rejects it with ValueError is not judged."""
    ws = mods["key"].weighted_score
    others = tasks.all_keys(("major", "minor"))
    for odd, plain in OPTIONAL_TONICS.items():
        for mode in ("major", "minor"):
            for cap in (False, True):
                k_odd = "%s %s" % (odd.capitalize() if cap else odd, mode)
                k_plain = "%s %s" % (plain, mode)
                for other in others + [k_odd]:
                    for role in (0, 1):
                        a = (k_odd, other) if role == 0 else (other, k_odd)
                        b = (k_plain, other if other != k_odd else k_plain) if role == 0 \
                            else (other if other != k_odd else k_plain, k_plain)
                        try:
                            got = ws(*a)
                        except ValueError:
                            ctx.count("optional_key_spelling.rejected(not judged)")
                            continue
                        want = ws(*b)
                        ctx.ev()
                        ctx.count("optional_key_spelling.accepted")
                        if got != want:
                            ctx.violation(
                                "C09/key.weighted_score/optional-spelling/changed", "changed",
                                "key.weighted_score",
                                "weighted_score%r = %r but the same keys spelled %r score "
                                "%r" % (a, got, b, want),
                                {"kind": "call", "fn": "key.weighted_score", "args": a,
                                 "kwargs": {}},
                                witness={"odd": a, "plain": b, "got": got, "want": want})


def run_shard(spec, ctx):
    mods = env.load_repo()
    r = ctx.rng(spec["kind"])
    rel = Relations(ctx, mods, "C09")
    if spec["kind"] == "keys" and spec.get("part", 0) == 0:
        optional_spellings(ctx, mods)
    if spec["kind"] == "pitch":
        for _ in range(spec["n"]):
            for inst in pitch_instances(r):
                rel.run(inst)
    else:
        for inst in key_instances(spec, r):
            rel.run(inst)
        ctx.count("key_pairs_x_transpositions_enumerated", rel.k)
    keep = {}
    for k, inst in rel.inst.items():
        keep[k] = inst.get("nt")
        inst["nt"] = None
    rel.check(CHECKERS)
    for k, inst in rel.inst.items():
        if keep[k] is not None and inst["meta"].get("nt"):
            ctx.nontrivial(inst["kind"], inst["site"], keep[k])
            ctx.count("nontrivial." + inst["kind"])


def replay(case, ctx):
    mods = env.load_repo()
    if case.get("kind") == "call":
        optional_spellings(ctx, mods)
        return
    rel = Relations(ctx, mods, "C09")
    rel.run(case["inst"])
    rel.check(CHECKERS)


def finalize(m, tier):
    c = m["counters"]
    for k in CHECKERS:
        if c.get("nontrivial." + k, 0) == 0:
            m["inconclusive"].append("no non-trivial %s instance" % k)
