"""C20 -- annotation files load back to exactly what they encode."""

import io as _io
import os
import struct
import warnings

import numpy as np

from .. import env, shim, tasks
from ..ctx import short

LEVEL = "exploration"
RULE = ("My own writer emits known values in every documented text format (events, "
        "labelled events, intervals, labelled intervals, valued intervals, time "
        "series, ragged time series, MIREX patterns, key, tempo) with whitespace "
        "(spaces, tabs, mixed runs), ',', tab or ';' delimiters, comment lines at "
        "any position, repr(float) incl. exponents / negatives / denormals / "
        "17-digit values and arbitrary Unicode labels (no newline, no leading/"
        "trailing whitespace, possibly containing the delimiter and '#'); each file "
        "is loaded by the real loader from a temp path, a StringIO and a duck-typed (non-IOBase) file object; the "
        "results must equal the written values bit for bit, in order, and agree "
        "with each other. Single-fault corruptions (column removed / added, number "
        "replaced by junk, extra line in key/tempo files, tempo weight outside "
        "[0,1]) must raise ValueError naming the row; convention-violating but "
        "parseable content must warn, not raise. A shim on io.load_delimited "
        "counts rows. Non-trivial = distinct file with >= 2 rows, >= 1 comment line "
        "and (where the format has labels) a label containing whitespace.")
ASSUMPTIONS = [
    "labels never contain \\n or \\r and never start or end with (Unicode) "
    "whitespace; with a non-whitespace delimiter, fields are written without "
    "padding",
    "header=True of load_ragged_time_series is not exercised",
]

DELIMS = [(" ", r"\s+"), ("\t", r"\s+"), ("  \t ", r"\s+"), (",", ","), ("\t", "\t"),
          (";", ";")]
LABEL_CHARS = list("abcXYZ019_-:()/#,;.'\"!?*%") + ["é", "ß", "日", "本", "♯", "𝄞", "λ", "ё",
                                                    " ", "  ", "\t",
                                                    # separators that str.splitlines()
                                                    # breaks at but file iteration
                                                    # does not
                                                    "\x0b", "\x0c", "\x1c", "\x1e",
                                                    "\x85", "\u2028", "\u2029"]


def plan(tier, seed):
    n = 200 if tier == "quick" else 3000
    return [{"name": "io-%d" % p, "n": n} for p in range(16)]


def rfloat(r, nonneg=False):
    k = r.random()
    if k < 0.35:
        v = r.randrange(0, 64 * 600) / 64.0
    elif k < 0.55:
        v = round(r.uniform(0, 600), r.choice([1, 2, 3, 6]))
    elif k < 0.7:
        v = r.uniform(0, 1000)  # 17 significant digits
    elif k < 0.8:
        v = r.choice([1e-7, 2.5e-12, 1e21, 6.02e23, 5e-324, 2.2250738585072014e-308,
                      1.7976931348623157e308, 0.1 + 0.2])
    elif k < 0.9:
        v = float(r.randrange(0, 1000))
    else:
        v = -r.uniform(0, 50)
    if nonneg:
        v = abs(v)
    return v


def rlabel(r, delim_text):
    n = r.randrange(1, 12)
    while True:
        s = "".join(r.choice(LABEL_CHARS) for _ in range(n))
        if r.random() < 0.3:
            s = s + delim_text.strip() + r.choice(["x", "#y", "z z"])
        s = s.strip()
        s = s.strip("\x1c\x1d\x1e\x1f\x85  ")
        if s and "\n" not in s and "\r" not in s and s == s.strip():
            if delim_text in (",", ";") and r.random() < 0.15:
                # "a, b" style: after a non-whitespace delimiter the blanks belong
                # to the label (only the line as a whole is stripped)
                s = r.choice([" ", "  "]) + s
            return s


def bits(x):
    return struct.pack("<d", float(x))


def same_floats(a, b):
    a = np.asarray(a, dtype=float).ravel()
    b = np.asarray(b, dtype=float).ravel()
    return a.shape == b.shape and a.tobytes() == b.tobytes()


def comment_line(r, marker="#"):
    return marker + r.choice(["", " comment", " 1.0 2.0 x", "#", "\tnote"])


def write_rows(r, rows, sep, marker="#"):
    """rows: list of lists of field strings -> (text, [physical line no. of each
    data row, 1-based], n_comments)."""
    lines = []
    linenos = []
    ncom = 0
    for row in rows:
        while r.random() < 0.2:
            lines.append(comment_line(r, marker))
            ncom += 1
        lines.append(sep.join(row))
        linenos.append(len(lines))
    while r.random() < 0.2:
        lines.append(comment_line(r, marker))
        ncom += 1
    text = "\n".join(lines) + ("\n" if lines and r.random() < 0.8 else "")
    return text, linenos, ncom


FORMATS = ["events", "labeled_events", "intervals", "labeled_intervals",
           "valued_intervals", "time_series", "ragged", "patterns", "key", "tempo"]


def make_file(r, fmt):
    sep, dre = r.choice(DELIMS)
    nrows = r.choice([0, 1, 2, 3, 5, 9]) if fmt not in ("key", "tempo") else 1
    rows, expect = [], None
    kw = {} if dre == r"\s+" and r.random() < 0.5 else {"delimiter": dre}
    if fmt == "events":
        v = [rfloat(r) for _ in range(nrows)]
        rows = [[repr(x)] for x in v]
        expect = ("array", v)
        kw = {}
    elif fmt == "labeled_events":
        v = [rfloat(r) for _ in range(nrows)]
        l = [rlabel(r, sep) for _ in range(nrows)]
        rows = [[repr(x), y] for x, y in zip(v, l)]
        expect = ("array+list", v, l)
    elif fmt == "intervals":
        v = [(rfloat(r), rfloat(r)) for _ in range(nrows)]
        rows = [[repr(a), repr(b)] for a, b in v]
        expect = ("array2", v)
    elif fmt == "labeled_intervals":
        v = [(rfloat(r), rfloat(r)) for _ in range(nrows)]
        l = [rlabel(r, sep) for _ in range(nrows)]
        rows = [[repr(a), repr(b), y] for (a, b), y in zip(v, l)]
        expect = ("array2+list", v, l)
    elif fmt == "valued_intervals":
        v = [(rfloat(r), rfloat(r)) for _ in range(nrows)]
        w = [rfloat(r) for _ in range(nrows)]
        rows = [[repr(a), repr(b), repr(c)] for (a, b), c in zip(v, w)]
        expect = ("array2+array", v, w)
    elif fmt == "time_series":
        v = [rfloat(r) for _ in range(nrows)]
        w = [rfloat(r) for _ in range(nrows)]
        rows = [[repr(a), repr(b)] for a, b in zip(v, w)]
        expect = ("array+array", v, w)
    elif fmt == "ragged":
        v = [rfloat(r) for _ in range(nrows)]
        if r.random() < 0.3:
            # documented dtype=int (e.g. MIDI numbers), incl. integers that a
            # detour through float would round
            w = [[r.choice([r.randrange(0, 128), 2 ** 53 + 1, -7, 9007199254740993])
                  for _ in range(r.choice([0, 1, 2, 4]))] for _ in range(nrows)]
            rows = [[repr(a)] + [str(x) for x in ws] for a, ws in zip(v, w)]
            expect = ("ragged-int", v, w)
            kw = dict(kw, dtype=int)
        else:
            w = [[rfloat(r) for _ in range(r.choice([0, 0, 1, 2, 4]))]
                 for _ in range(nrows)]
            rows = [[repr(a)] + [repr(x) for x in ws] for a, ws in zip(v, w)]
            expect = ("ragged", v, w)
    elif fmt == "key":
        tonic = r.choice(tasks.KEY_TONICS)
        tonic = r.choice([tonic, tonic.capitalize()])
        mode = r.choice(["major", "minor", "other"])
        rows = [[tonic, mode]]
        expect = ("key", "%s %s" % (tonic, mode))
    elif fmt == "tempo":
        t1, t2 = rfloat(r, True) + 1.0, rfloat(r, True) + 1.0
        w = r.choice([0.0, 1.0, 0.5, r.random()])
        rows = [[repr(t1), repr(t2), repr(w)]]
        expect = ("tempo", [t1, t2], w)
    cm = "#"
    if fmt not in ("key",) and r.random() < 0.25:
        # the comment marker is documented as a regular expression
        cm, pat = r.choice([("%", "%"), ("%", r"[#%]"), ("#", r"#|%"), ("//", "//"),
                            ("%", r"[#%]")])
        kw = dict(kw, comment=pat)
    text, linenos, ncom = write_rows(r, rows, sep, cm)
    if fmt == "ragged" and r.random() < 0.2:
        # header=True with the header written as a comment line (as the files that
        # ship with the library do): every data row must still be returned
        kw = dict(kw, header=True)
        text = cm + " time values\n" + text
        linenos = [n + 1 for n in linenos]
        ncom += 1
    return {"fmt": fmt, "text": text, "kw": kw, "expect": expect, "sep": sep,
            "linenos": linenos, "ncom": ncom, "rows": rows, "marker": cm}


def make_pattern_file(r):
    pats = []
    lines = []
    for p in range(r.randrange(1, 4)):
        lines.append("pattern%d" % (p + 1))
        occs = []
        for o in range(r.randrange(1, 4)):
            lines.append("occurrence%d" % (o + 1))
            occ = []
            for _ in range(r.randrange(1, 5)):
                on, mi = rfloat(r), float(r.randrange(30, 100))
                occ.append((on, mi))
                lines.append("%s, %s" % (repr(on), repr(mi)))
            occs.append(occ)
        pats.append(occs)
    return {"fmt": "patterns", "text": "\n".join(lines) + "\n", "kw": {},
            "expect": ("patterns", pats), "linenos": [], "ncom": 0, "rows": lines}


LOADER = {"events": "load_events", "labeled_events": "load_labeled_events",
          "intervals": "load_intervals", "labeled_intervals": "load_labeled_intervals",
          "valued_intervals": "load_valued_intervals", "time_series": "load_time_series",
          "ragged": "load_ragged_time_series", "patterns": "load_patterns",
          "key": "load_key", "tempo": "load_tempo"}


def matches(expect, got):
    k = expect[0]
    try:
        if k == "array":
            return isinstance(got, np.ndarray) and same_floats(got, expect[1])
        if k == "array+list":
            return same_floats(got[0], expect[1]) and list(got[1]) == expect[2]
        if k == "array2":
            return np.shape(got) == (len(expect[1]), 2) and \
                same_floats(got, [x for p in expect[1] for x in p])
        if k == "array2+list":
            return np.shape(got[0]) == (len(expect[1]), 2) and \
                same_floats(got[0], [x for p in expect[1] for x in p]) and \
                list(got[1]) == expect[2]
        if k == "array2+array":
            return np.shape(got[0]) == (len(expect[1]), 2) and \
                same_floats(got[0], [x for p in expect[1] for x in p]) and \
                same_floats(got[1], expect[2])
        if k == "array+array":
            return same_floats(got[0], expect[1]) and same_floats(got[1], expect[2])
        if k == "ragged":
            return same_floats(got[0], expect[1]) and len(got[1]) == len(expect[2]) and \
                all(same_floats(a, b) for a, b in zip(got[1], expect[2]))
        if k == "ragged-int":
            return same_floats(got[0], expect[1]) and len(got[1]) == len(expect[2]) and \
                all(np.asarray(a).dtype.kind == "i" and
                    [int(x) for x in np.asarray(a).tolist()] == list(b)
                    for a, b in zip(got[1], expect[2]))
        if k == "key":
            return got == expect[1]
        if k == "tempo":
            return same_floats(got[0], expect[1]) and bits(got[1]) == bits(expect[2])
        if k == "patterns":
            return len(got) == len(expect[1]) and all(
                len(gp) == len(ep) and all(
                    len(go) == len(eo) and all(
                        bits(a[0]) == bits(b[0]) and bits(a[1]) == bits(b[1])
                        for a, b in zip(go, eo)) for go, eo in zip(gp, ep))
                for gp, ep in zip(got, expect[1]))
    except Exception:
        return False
    return False


class _Duck:
    """An open 'file object' by duck typing only (not an io.IOBase subclass), like a
    codecs stream or a tempfile wrapper."""

    def __init__(self, text):
        self._s = _io.StringIO(text)

    def read(self, *a):
        return self._s.read(*a)

    def readline(self, *a):
        return self._s.readline(*a)

    def readlines(self, *a):
        return self._s.readlines(*a)

    def __iter__(self):
        return iter(self._s)


def load_both(mods, f, scratch, k):
    """Load from a temp path and from a StringIO; returns [(how, outcome, value)]."""
    io_mod = mods["io"]
    fn = getattr(io_mod, LOADER[f["fmt"]])
    path = os.path.join(scratch, "f-%s.txt" % k)
    with open(path, "w", encoding="utf-8", newline="\n") as fh:
        fh.write(f["text"])
    out = []
    for how, src in (("path", path), ("stringio", _io.StringIO(f["text"])),
                     ("file-like", _Duck(f["text"]))):
        try:
            with warnings.catch_warnings(record=True) as wl:
                warnings.simplefilter("always")
                val = fn(src, **f["kw"])
            out.append((how, "ret", val, len(wl)))
        except Exception as e:  # noqa: BLE001
            out.append((how, "raise", e, 0))
    os.unlink(path)
    return out


def _viol(ctx, f, site, clause, what, mech=""):
    ctx.violation("C20/%s/%s%s" % (site, clause, ("/" + mech) if mech else ""), clause,
                  site, what, {"kind": "file", "file": f},
                  witness={"format": f["fmt"], "text": f["text"][:600], "kwargs": f["kw"],
                           "what": what})


def check_roundtrip(ctx, mods, f, scratch, k):
    site = "io." + LOADER[f["fmt"]]
    res = load_both(mods, f, scratch, k)
    ctx.ev(3)
    ctx.hist("roundtrip", f["fmt"])
    vals = []
    for how, outcome, val, nwarn in res:
        if outcome == "raise":
            if f["fmt"] == "tempo" and not f["rows"]:
                continue
            _viol(ctx, f, site, "raises-on-well-formed-file",
                  "%s (%s) raised %s: %s" % (site, how, type(val).__name__,
                                             str(val)[:120]))
            return
        vals.append(val)
        if not matches(f["expect"], val):
            _viol(ctx, f, site, "roundtrip",
                  "%s (%s) returned %s, file encodes %s" % (
                      site, how, short(val, 200), short(f["expect"][1:], 200)))
            return
    nrows = len(f["rows"])
    has_ws_label = any(" " in x or "\t" in x for x in (f["expect"][2] if
                       f["expect"][0] in ("array+list", "array2+list") else []))
    if nrows >= 2 and f["ncom"] >= 1 and (has_ws_label or f["expect"][0] not in
                                          ("array+list", "array2+list")):
        ctx.nontrivial(f["fmt"], f["text"])
    if ctx.want_sample() and nrows >= 2 and f["ncom"] and ctx.evaluations % 31 < 2:
        ctx.sample({"format": f["fmt"], "text": f["text"][:300], "kwargs": f["kw"],
                    "loaded": short(vals[0], 200)})


def check_fault(ctx, mods, r, f, scratch, k):
    """Single-fault corruption of a well-formed delimited file."""
    fmt = f["fmt"]
    if fmt in ("patterns",) or not f["rows"]:
        return
    site = "io." + LOADER[fmt]
    rows = [list(x) for x in f["rows"]]
    ncols = len(rows[0]) if fmt != "ragged" else None
    i = r.randrange(len(rows))
    numeric_cols = {"events": [0], "labeled_events": [0], "intervals": [0, 1],
                    "labeled_intervals": [0, 1], "valued_intervals": [0, 1, 2],
                    "time_series": [0, 1], "ragged": [0], "key": [], "tempo": [0, 1, 2]}[fmt]
    faults = []
    if numeric_cols:
        faults.append("junk")
    if fmt not in ("events", "ragged", "key"):
        faults.append("column-removed")
    if fmt in ("intervals", "valued_intervals", "time_series", "tempo"):
        faults.append("column-added")
    if f["sep"] in (",", ";") and fmt in ("events", "intervals", "valued_intervals",
                                          "time_series", "tempo", "ragged"):
        faults.append("trailing-delimiter")
    if fmt in ("key", "tempo"):
        faults += ["extra-line"]
    if fmt == "tempo":
        faults.append("weight-range")
    if fmt == "key":
        faults.append("column-removed")
    fault = r.choice(faults)
    want_row = True
    if fault == "junk":
        c = r.choice(numeric_cols)
        if fmt == "ragged" and len(rows[i]) > 1 and r.random() < 0.5:
            c = r.randrange(1, len(rows[i]))
        rows[i][c] = r.choice(["abc", "1.0.0", "--1", "1,5" if f["sep"] != "," else "x",
                               "0x1p", "１２"])
        if f["expect"][0] == "ragged-int" and c >= 1:
            rows[i][c] = r.choice(["60.7", "abc", "1e3", "6 0" if False else "7.0"])
        if rows[i][c] == "１２":
            rows[i][c] = "1e"  # fullwidth digits parse as floats in Python
    elif fault == "column-removed":
        if len(rows[i]) < 2:
            return
        del rows[i][r.randrange(len(rows[i]) - (1 if fmt in ("labeled_events",
                                                             "labeled_intervals") else 0))]
        lab = rows[i][-1]
        import re as _re
        if fmt in ("labeled_events", "labeled_intervals") and (
                _re.search(r"\s", lab) or (f["sep"].strip() and
                                           f["sep"].strip() in lab)):
            return  # the label's own separators refill the columns: not a fault
        if f["sep"].join(rows[i]).startswith(("#", "%", "//")):
            return  # the remaining text is a comment line: not a fault
    elif fault == "column-added":
        rows[i].insert(r.randrange(len(rows[i]) + 1), "3.5")
    elif fault == "trailing-delimiter":
        rows[i].append("")  # "1.0,2.0," : an empty last field
    elif fault == "extra-line":
        rows.append(list(rows[0]))
        want_row = False
    elif fault == "weight-range":
        rows[0][2] = r.choice(["1.5", "-0.25", "2"])
        want_row = False
    lines = []
    lineno = None
    for j, row in enumerate(rows):
        if r.random() < 0.2:
            lines.append(comment_line(r, f.get("marker", "#")))
        lines.append(f["sep"].join(row))
        if j == i:
            lineno = len(lines)
    g = dict(f, text="\n".join(lines) + "\n", rows=rows)
    res = load_both(mods, g, scratch, k)
    ctx.ev(3)
    ctx.hist("faults", "%s/%s" % (fmt, fault))
    for how, outcome, val, _ in res:
        if outcome != "raise" or not isinstance(val, ValueError):
            _viol(ctx, g, site, "fault-not-rejected/" + fault,
                  "%s (%s) with fault '%s' %s; documented: ValueError" % (
                      site, how, fault, "returned " + short(val, 120) if outcome == "ret"
                      else "raised " + type(val).__name__))
            return
        if want_row:
            # the ragged loader numbers rows from 0, or from 1 with header=True
            idx = lineno if fmt != "ragged" or f["kw"].get("header") else lineno - 1
            if (":%d:" % idx) not in str(val):
                _viol(ctx, g, site, "error-does-not-name-row/" + fault,
                      "%s (%s): ValueError message %r does not name row %d" % (
                          site, how, str(val)[:160], idx))
                return
    ctx.nontrivial("fault", fmt, fault, g["text"])


def check_convention(ctx, mods, r, scratch, k):
    """Parseable content that violates a convention must warn, not raise."""
    kind = r.choice(["events-unsorted", "intervals-negative-duration", "key-invalid",
                     "tempo-negative", "events-huge", "tempo-both-zero", "tempo-infinite",
                     "key-mode-capitalised", "intervals-negative-time",
                     "labeled-events-unsorted", "valued-intervals-negative-duration"])
    simple = {
        "tempo-both-zero": ("tempo", "0.0 0.0 0.5\n"),
        "tempo-infinite": ("tempo", "inf 120.0 0.5\n"),
        "key-mode-capitalised": ("key", r.choice(["C Major\n", "eb\tMINOR\n",
                                                  "F# Other\n"])),
        "intervals-negative-time": ("intervals", "-1.0 1.0\n1.0 2.0\n"),
        "labeled-events-unsorted": ("labeled_events", "3.0 a\n1.0 b\n"),
        "valued-intervals-negative-duration": ("valued_intervals",
                                               "0.0 1.0 3\n2.0 1.5 4\n"),
    }
    if kind in simple:
        f = {"fmt": simple[kind][0], "text": simple[kind][1], "kw": {}}
    elif kind == "events-unsorted":
        f = {"fmt": "events", "text": "3.0\n1.0\n2.0\n", "kw": {}}
    elif kind == "events-huge":
        f = {"fmt": "events", "text": "1.0\n40000.0\n", "kw": {}}
    elif kind == "intervals-negative-duration":
        f = {"fmt": r.choice(["intervals", "labeled_intervals"]), "kw": {},
             "text": "0.0 1.0 a\n2.0 1.5 b\n"}
        if f["fmt"] == "intervals":
            f["text"] = "0.0 1.0\n2.0 1.5\n"
    elif kind == "key-invalid":
        f = {"fmt": "key", "text": "H major\n", "kw": {}}
    else:
        f = {"fmt": "tempo", "text": "-60.0 120.0 0.5\n", "kw": {}}
    f.update(rows=[["x"]], expect=None, ncom=0, linenos=[])
    site = "io." + LOADER[f["fmt"]]
    res = load_both(mods, f, scratch, k)
    ctx.ev(3)
    ctx.hist("conventions", kind)
    for how, outcome, val, nwarn in res:
        if outcome == "raise":
            _viol(ctx, f, site, "convention-raises/" + kind,
                  "%s (%s) raised %s for parseable content that only violates a "
                  "convention" % (site, how, type(val).__name__))
        elif nwarn == 0:
            _viol(ctx, f, site, "convention-no-warning/" + kind,
                  "%s (%s) returned without a warning" % (site, how))


def install(ctx, mods):
    def post(call):
        if call.exc is None:
            ctx.count("contract.load_delimited")
            res = call.result
            cols = res if isinstance(res, tuple) else (res,)
            ctx.count("load_delimited.rows_seen", len(cols[0]) if cols else 0)
    shim.install(mods["io"], "load_delimited", post=post, snapshot=False)


def run_shard(spec, ctx):
    mods = env.load_repo()
    install(ctx, mods)
    r = ctx.rng("io")
    scratch = os.getcwd()
    for i in range(spec["n"]):
        for fmt in FORMATS:
            f = make_pattern_file(r) if fmt == "patterns" else make_file(r, fmt)
            check_roundtrip(ctx, mods, f, scratch, "%s-%d" % (ctx.shard, i))
            if fmt != "patterns" and r.random() < 0.6:
                check_fault(ctx, mods, r, f, scratch, "%s-%d" % (ctx.shard, i))
        check_convention(ctx, mods, r, scratch, "%s-%d" % (ctx.shard, i))


def replay(case, ctx):
    mods = env.load_repo()
    install(ctx, mods)
    f = case["file"]
    scratch = os.getcwd()
    if f.get("expect") is not None:
        check_roundtrip(ctx, mods, f, scratch, 0)
    else:
        res = load_both(mods, f, scratch, 0)
        for how, outcome, val, nwarn in res:
            if outcome == "raise":
                _viol(ctx, f, "io." + LOADER[f["fmt"]], "convention-raises/replay",
                      "raised %s" % type(val).__name__)


def finalize(m, tier):
    h = m["hists"]
    for fmt in FORMATS:
        if h.get("roundtrip", {}).get(fmt, 0) == 0:
            m["inconclusive"].append("format never exercised: %s" % fmt)
    if not h.get("faults"):
        m["inconclusive"].append("no fault exercised")
