"""C19 -- BSS-eval decomposition, invariances and framewise consistency."""

import itertools
import warnings

import numpy as np

from .. import env, shim, san
from ..ctx import short

LEVEL = "exploration"
RULE = ("Seeded source sets (white / low-pass noise references; estimates = mixing "
        "matrix x references + noise, FIR-filtered, permuted, rescaled, perfect; "
        "nsrc 1-3, nchan 1-2, lengths from 2*nsrc*512; windows with a silent source; "
        "empty input) drive bss_eval_sources / bss_eval_images / *_framewise / "
        "evaluate with np.empty poisoned. Post-conditions on the inner plain "
        "functions: the four components of _bss_decomp_mtifilt(_images) sum to the "
        "zero-padded estimate (relative 1e-8); the returned permutation is a "
        "permutation maximising mean SIR over the SIR matrix captured from "
        "_bss_source_crit / _bss_image_crit. Client-boundary relations: SDR/SIR/SAR "
        "(/ISR) unchanged under scaling a source or an estimate by c != 0; the "
        "permutation follows a reordering of the estimates; perfect estimate -> "
        "identity and SDR > 60 dB; every framewise column equals the non-framewise "
        "call on that window bit for bit; silent windows are NaN in every metric; no "
        "poison in any output; documented arity for all inputs incl. empty. "
        "Non-trivial = distinct case with nsrc >= 2 and a non-identity optimal "
        "permutation or >= 1 silent window.")
ASSUMPTIONS = [
    "references are noise-like so the Gram solve is well conditioned; tolerances "
    "1e-6 dB absolute + 1e-7 relative for invariances",
    "the public bss_eval_* functions are opaque deprecated wrappers and are "
    "observed at the client boundary only (not shimmed)",
]

TOL_DB = 1e-6


def plan(tier, seed):
    n = 5 if tier == "quick" else 150
    k = 16
    return [{"name": "bss-%d" % p, "n": n, "part": p} for p in range(k)]


def _close_db(a, b):
    a, b = np.asarray(a, dtype=float), np.asarray(b, dtype=float)
    if a.shape != b.shape:
        return False
    both_nan = np.isnan(a) & np.isnan(b)
    both_inf = np.isinf(a) & np.isinf(b) & (np.sign(a) == np.sign(b))
    # ratios above 150 dB are rounding noise of a numerically perfect estimate
    both_perfect = (a > 150) & (b > 150)
    ok = both_nan | both_inf | both_perfect | (np.abs(a - b) <= TOL_DB + 1e-7 * np.abs(a))
    return bool(np.all(ok))


class Capture:
    """Collects the criteria computed by the inner functions during one public
    call so the permutation can be audited."""

    def __init__(self):
        self.crit = []


def install(ctx, mods, cap):
    sep = mods["separation"]

    def post_decomp(images):
        def post(call):
            if call.exc is not None:
                return
            c = call.case()
            est = np.asarray(c["args"][1], dtype=float)
            flen = c["args"][3]
            res = call.result
            parts = res[:4]
            ctx.ev()
            ctx.count("contract.decomposition")
            total = parts[0] + parts[1] + parts[2] + parts[3]
            if images:
                want = np.zeros_like(total)
                want[:, : est.shape[0]] = est.T
            else:
                want = np.zeros_like(total)
                want[: est.size] = est
            scale = max(1e-300, float(np.max(np.abs(want))))
            err = float(np.max(np.abs(total - want))) / scale
            if not err <= 1e-8:
                ctx.violation("C19/separation.%s/components-do-not-sum" % call.spec.name,
                              "components-do-not-sum", "separation." + call.spec.name,
                              "s_true + e_spat + e_interf + e_artif differs from the "
                              "zero-padded estimate by %.3g (relative)" % err,
                              {"kind": "case", "note": "decomposition"})
            if san.count_poison(list(parts)):
                ctx.violation("C19/separation.%s/uninitialised" % call.spec.name,
                              "uninitialised", "separation." + call.spec.name,
                              "poison pattern in a decomposition component",
                              {"kind": "case", "note": "decomposition"})
        return post

    def post_crit(call):
        if call.exc is None:
            cap.crit.append(tuple(float(x) for x in call.result))

    shim.install(sep, "_bss_decomp_mtifilt", post=post_decomp(False), snapshot=True)
    shim.install(sep, "_bss_decomp_mtifilt_images", post=post_decomp(True), snapshot=True)
    shim.install(sep, "_bss_source_crit", post=post_crit, snapshot=False)
    shim.install(sep, "_bss_image_crit", post=post_crit, snapshot=False)


def make_case(rng, r):
    nsrc = r.choice([1, 2, 2, 3])
    nchan = r.choice([1, 1, 2])
    if nsrc == 3 and nchan == 2:
        nchan = 1
    L = 2 * nsrc * 512 + r.choice([0, 64, 500])
    shape = (nsrc, L) if nchan == 1 else (nsrc, L, nchan)
    ref = rng.standard_normal(shape)
    if r.random() < 0.3:  # coloured references
        k = np.array([0.5, 0.3, 0.2])
        ref = np.apply_along_axis(lambda x: np.convolve(x, k, mode="same"), 1, ref)
    kind = r.choice(["mix", "mix", "perfect", "filtered", "permuted", "noise"])
    if kind == "perfect":
        est = ref.copy()
    elif kind == "noise":
        est = rng.standard_normal(shape)
    elif kind == "filtered":
        h = np.array([1.0, 0.4, -0.2])
        est = np.apply_along_axis(lambda x: np.convolve(x, h)[: L], 1, ref)
        est = est + 0.05 * rng.standard_normal(shape)
    else:
        A = np.eye(nsrc) + 0.3 * rng.standard_normal((nsrc, nsrc))
        est = np.tensordot(A, ref, axes=(1, 0)) + 0.05 * rng.standard_normal(shape)
        if kind == "permuted" and nsrc > 1:
            p = list(range(nsrc))
            while p == list(range(nsrc)):
                r.shuffle(p)
            est = est[p]
    x256 = r.random() < 0.08
    if x256 or r.random() < 0.15:
        # integer PCM (as read from a wav file) incl. negative full scale
        dt = np.int16 if x256 else r.choice([np.int16, np.int16, np.uint8, np.int32])
        if dt == np.uint8:
            ref = np.clip(np.round(ref * 40 + 128), 0, 255).astype(dt)
            est = np.clip(np.round(est * 40 + 128), 0, 255).astype(dt)
        else:
            ref = np.clip(np.round(ref * 9000), -32768, 32767).astype(dt)
            est = np.clip(np.round(est * 9000), -32768, 32767).astype(dt)
            ref.flat[0] = -32768
        if x256:
            # 8-bit material left-justified in int16: every sample a multiple of 256
            # (a +256 offset keeps every sum away from zero)
            ref = ((ref.astype(np.int32) // 256 + 1) * 256).clip(-32768, 32512).astype(dt)
            est = ((est.astype(np.int32) // 256 + 1) * 256).clip(-32768, 32512).astype(dt)
            kind += "/x256"
        if kind.startswith("perfect"):
            est = ref.copy()
        kind += "/" + np.dtype(dt).name
    return {"ref": ref, "est": est, "nsrc": nsrc, "nchan": nchan, "L": L, "kind": kind}


def _perm_check(ctx, cap, nsrc, perm, which, case, images):
    perm = np.asarray(perm)
    if sorted(perm.astype(int).tolist()) != list(range(nsrc)):
        ctx.violation("C19/separation.%s/not-a-permutation" % which, "not-a-permutation",
                      "separation." + which, "perm = %r" % perm.tolist(), case)
        return
    if len(cap.crit) != nsrc * nsrc:
        ctx.count("perm.crit_capture_mismatch")
        return
    idx = 2 if images else 1
    sir = np.array([c[idx] for c in cap.crit]).reshape(nsrc, nsrc)  # [jest, jtrue]
    best = max(np.mean(sir[list(p), np.arange(nsrc)])
               for p in itertools.permutations(range(nsrc)))
    got = np.mean(sir[perm.astype(int), np.arange(nsrc)])
    ctx.count("contract.permutation_maximises_mean_sir")
    if np.isinf(best) and np.isinf(got) and got > 0:
        return
    if not got >= best - 1e-9 * max(1.0, abs(best)):
        ctx.violation("C19/separation.%s/permutation-not-optimal" % which,
                      "permutation-not-optimal", "separation." + which,
                      "returned permutation has mean SIR %r, the best is %r" % (got, best),
                      case, witness={"sir": sir, "perm": perm})


def run_case(ctx, mods, cap, cs, r):
    sep = mods["separation"]
    ref, est, nsrc, nchan = cs["ref"], cs["est"], cs["nsrc"], cs["nchan"]
    case = {"kind": "case", "ref": ref, "est": est}
    images = nchan > 1 or r.random() < 0.4
    fn = "bss_eval_images" if images else "bss_eval_sources"
    f = getattr(sep, fn)
    nmet = 4 if images else 3
    cap.crit = []
    res = f(ref, est)
    ctx.ev()
    ctx.count("public." + fn)
    if len(res) != nmet + 1:
        ctx.violation("C19/separation.%s/arity" % fn, "arity", "separation." + fn,
                      "returned %d arrays, documented %d" % (len(res), nmet + 1), case)
        return
    metrics, perm = res[:nmet], res[nmet]
    if san.count_poison(list(res)):
        ctx.violation("C19/separation.%s/uninitialised" % fn, "uninitialised",
                      "separation." + fn, "poison pattern in the result", case)
    _perm_check(ctx, cap, nsrc, perm, fn, case, images)
    nontrivial = nsrc >= 2 and perm.astype(int).tolist() != list(range(nsrc))
    # perfect estimate
    if cs["kind"].startswith("perfect"):
        ctx.count("relation.perfect")
        if perm.astype(int).tolist() != list(range(nsrc)) or np.any(metrics[0] < 60):
            ctx.violation("C19/separation.%s/perfect-estimate" % fn, "perfect-estimate",
                          "separation." + fn, "perfect estimate gives perm %r, SDR %r" % (
                              perm.tolist(), metrics[0].tolist()), case)
    # scaling invariance (a reference source, an estimate)
    # incl. gains of 100-120 dB: the projections are scale-equivariant, no source may
    # drop out of them because it is much quieter or louder than the others
    c = r.choice([2.0, -1.0, 0.5, -3.0, 10.0, 1e-6, 1e5])
    j = r.randrange(nsrc)
    for side in ("est", "ref"):
        a, b = ref.astype(float), est.astype(float)
        (b if side == "est" else a)[j] *= c
        res2 = f(a, b)
        ctx.ev()
        ctx.count("relation.scale_" + side)
        names = ["SDR", "ISR", "SIR", "SAR"] if images else ["SDR", "SIR", "SAR"]
        changed = [nm for nm, x, y in zip(names, res[:nmet], res2[:nmet])
                   if not _close_db(x, y)]
        if changed or res2[nmet].tolist() != perm.tolist():
            mech = ""
            if images and set(changed) <= {"SDR", "ISR"} and \
                    res2[nmet].tolist() == perm.tolist():
                # bss_eval_images measures the distortion of the *image*: its
                # target is the reference itself, not its projection
                mech = "/image-criteria-SDR-ISR-depend-on-gain"
            ctx.violation("C19/separation.%s/scale-%s%s" % (fn, side, mech),
                          "scale-invariance", "separation." + fn,
                          "scaling %s source %d by %r changes the metrics: %s -> %s" % (
                              side, j, c, short([m.tolist() for m in res[:nmet]], 200),
                              short([m.tolist() for m in res2[:nmet]], 200)), case)
    # reordering of the estimates
    if nsrc >= 2:
        q = list(range(nsrc))
        r.shuffle(q)
        res3 = f(ref, est[q])
        ctx.ev()
        ctx.count("relation.reorder")
        inv = [q.index(int(p)) for p in perm]
        if res3[nmet].astype(int).tolist() != inv or \
                not all(_close_db(x, y) for x, y in zip(res[:nmet], res3[:nmet])):
            ctx.violation("C19/separation.%s/reorder" % fn, "permutation-follows-reorder",
                          "separation." + fn,
                          "estimates reordered by %r: perm %r -> %r (expected %r)" % (
                              q, perm.tolist(), res3[nmet].tolist(), inv), case)
    # compute_permutation=False
    resn = f(ref, est, False)
    ctx.ev()
    if resn[nmet].astype(int).tolist() != list(range(nsrc)) or len(resn) != nmet + 1:
        ctx.violation("C19/separation.%s/no-permutation" % fn, "no-permutation",
                      "separation." + fn, "compute_permutation=False returns perm %r"
                      % resn[nmet].tolist(), case)
    # evaluate() reports the four families with their own defaults
    # (compute_permutation True for the plain, False for the framewise calls)
    if r.random() < 0.35:
        ev = sep.evaluate(ref, est)
        ctx.ev()
        ctx.count("relation.evaluate_vs_direct")
        want = {}
        if images:
            names = ["Source to Distortion", "Image to Spatial", "Source to Interference",
                     "Source to Artifact", "Source permutation"]
            for pre, fun in (("Images - ", sep.bss_eval_images),
                             ("Images Frames - ", sep.bss_eval_images_framewise)):
                for nm, v in zip(names, fun(ref, est)):
                    want[pre + nm] = v
        else:
            names = ["Source to Distortion", "Source to Interference",
                     "Source to Artifact", "Source permutation"]
            for pre, fun in (("Sources - ", sep.bss_eval_sources),
                             ("Sources Frames - ", sep.bss_eval_sources_framewise)):
                for nm, v in zip(names, fun(ref, est)):
                    want[pre + nm] = v
        for k2, v in want.items():
            if k2 not in ev or not np.array_equal(np.asarray(ev[k2], dtype=float),
                                                  np.asarray(v, dtype=float), equal_nan=True):
                ctx.violation("C19/separation.evaluate/differs-from-direct-call",
                              "differs-from-direct-call", "separation.evaluate",
                              "evaluate()[%r] = %s, the direct call gives %s" % (
                                  k2, short(ev.get(k2), 100), short(np.asarray(v).tolist(), 100)),
                              case)
                break
    # a single source may be given as a 1-d signal
    if nsrc == 1 and not images and ref.ndim == 2:
        res1 = f(ref[0], est[0])
        ctx.ev()
        ctx.count("relation.one_source_as_1d")
        if not all(np.array_equal(np.asarray(a), np.asarray(b), equal_nan=True)
                   for a, b in zip(res, res1)):
            ctx.violation("C19/separation.%s/one-source-1d" % fn, "one-source-1d",
                          "separation." + fn, "a 1-d signal scores %s, the same signal as "
                          "a (1, n) array %s" % (short([np.asarray(x).tolist() for x in res1], 120),
                                                 short([np.asarray(x).tolist() for x in res], 120)),
                          case)
    # ... and scores estimate j against reference j: on the estimates put in
    # the optimal order it must reproduce the scores of the permuted call
    pi = perm.astype(int)
    if sorted(pi.tolist()) == list(range(nsrc)):
        resp = f(ref, est[pi], False)
        ctx.ev()
        ctx.count("relation.no_permutation_on_ordered_estimates")
        bad = [nm for nm, x, y in zip(["SDR", "ISR", "SIR", "SAR"] if images else
                                      ["SDR", "SIR", "SAR"], res[:nmet], resp[:nmet])
               if not _close_db(x, y)]
        if bad:
            ctx.violation("C19/separation.%s/no-permutation-scores" % fn,
                          "no-permutation-scores", "separation." + fn,
                          "compute_permutation=False on the optimally ordered estimates "
                          "gives different %s: %s vs %s" % (
                              bad, short([m.tolist() for m in resp[:nmet]], 200),
                              short([m.tolist() for m in res[:nmet]], 200)), case)
    # framewise consistency
    ff = getattr(sep, fn + "_framewise")
    L = cs["L"]
    window = r.choice([L // 2, L // 2 + 100, 2 * nsrc * 256 + 512, L, 2 * L])
    window = max(window, nsrc * 512 + 100)
    hop = r.choice([window // 2, window, window // 3])
    cperm = r.random() < 0.5
    silent_k = None
    ref_f = ref
    nwin = int(np.floor((L - window + hop) / hop))
    if nwin >= 2 and r.random() < 0.5:
        ref_f = ref.copy()
        silent_k = r.randrange(nwin)
        ref_f[r.randrange(nsrc), silent_k * hop: silent_k * hop + window] = 0.0
    try:
        fw = ff(ref_f, est, window=window, hop=hop, compute_permutation=cperm)
    except ValueError as e:
        # only one window of one source was silenced, so the input as a whole is
        # valid: a ValueError here means a silent window was not handled
        ctx.violation("C19/separation.%s_framewise/raises-on-silent-window" % fn,
                      "raises-on-silent-window", "separation.%s_framewise" % fn,
                      "framewise call raised ValueError(%s) instead of returning NaN "
                      "for the silent window" % str(e)[:80],
                      {"kind": "case", "ref": ref_f, "est": est})
        fw = None
    if fw is not None:
        ctx.ev()
        ctx.count("public." + fn + "_framewise")
        if len(fw) != nmet + 1:
            ctx.violation("C19/separation.%s_framewise/arity" % fn, "arity",
                          "separation.%s_framewise" % fn,
                          "returned %d arrays, documented %d" % (len(fw), nmet + 1), case)
        else:
            if san.count_poison(list(fw)):
                ctx.violation("C19/separation.%s_framewise/uninitialised" % fn,
                              "uninitialised", "separation.%s_framewise" % fn,
                              "poison pattern in a framewise result", case)
            if nwin < 2:
                # fewer than two windows fit: one column holding the plain result
                one = f(ref_f, est, cperm)
                ctx.ev()
                ctx.count("relation.framewise_single_window")
                for a, b in zip(one, fw):
                    a, b = np.asarray(a, dtype=float), np.asarray(b, dtype=float)
                    if b.shape != (nsrc, 1) or not np.array_equal(a, b[:, 0],
                                                                  equal_nan=True):
                        ctx.violation("C19/separation.%s_framewise/single-window" % fn,
                                      "single-window", "separation.%s_framewise" % fn,
                                      "signal shorter than window + hop: expected one "
                                      "column (%d, 1) equal to the plain call %s, got "
                                      "shape %r %s" % (nsrc, short(a.tolist(), 80),
                                                       b.shape, short(b.tolist(), 80)),
                                      case)
                        break
            if nwin >= 2:
                for k in range(nwin):
                    sl = slice(k * hop, k * hop + window)
                    rs = ref_f[:, sl] if ref_f.ndim == 2 else ref_f[:, sl, :]
                    es = est[:, sl] if est.ndim == 2 else est[:, sl, :]
                    silent = bool(np.any(np.all(rs.reshape(nsrc, -1) == 0, axis=1)))
                    col = [np.asarray(m)[:, k] for m in fw]
                    if silent:
                        ctx.count("framewise.silent_windows")
                        nontrivial = nontrivial or nsrc >= 2
                        if not all(np.all(np.isnan(x)) for x in col):
                            ctx.violation(
                                "C19/separation.%s_framewise/silent-window-not-nan" % fn,
                                "silent-window-not-nan", "separation.%s_framewise" % fn,
                                "window %d has a silent source but the column is %s" % (
                                    k, short([x.tolist() for x in col], 200)), case)
                        continue
                    one = f(rs, es, cperm)
                    ctx.ev()
                    ctx.count("relation.framewise_column")
                    same = all(np.array_equal(np.asarray(a, dtype=float),
                                              np.asarray(b, dtype=float), equal_nan=True)
                               for a, b in zip(one, col))
                    if not same:
                        ctx.violation("C19/separation.%s_framewise/column-differs" % fn,
                                      "column-differs", "separation.%s_framewise" % fn,
                                      "window %d: framewise column %s != direct call %s"
                                      % (k, short([x.tolist() for x in col], 160),
                                         short([np.asarray(x).tolist() for x in one], 160)),
                                      case)
                        break
    if nontrivial:
        ctx.nontrivial("bss", ref, est)
    if ctx.want_sample():
        ctx.sample({"fn": fn, "nsrc": nsrc, "nchan": nchan, "length": L,
                    "estimate_kind": cs["kind"],
                    "metrics_dB": [np.round(m, 3).tolist() for m in metrics],
                    "perm": perm.tolist()})


def run_empty(ctx, mods):
    sep = mods["separation"]
    e2 = np.zeros((0, 0))
    case = {"kind": "empty"}
    for fn, n in (("bss_eval_sources", 4), ("bss_eval_sources_framewise", 4),
                  ("bss_eval_images", 5), ("bss_eval_images_framewise", 5)):
        try:
            res = getattr(sep, fn)(e2, e2)
            ctx.ev()
            if len(res) != n:
                ctx.violation("C19/separation.%s/arity/empty-input" % fn, "arity",
                              "separation." + fn, "empty input returns %d arrays, "
                              "documented %d" % (len(res), n), case)
        except Exception as e:  # noqa: BLE001
            ctx.violation("C19/separation.%s/raises-on-empty" % fn, "raises-on-empty",
                          "separation." + fn, "empty input raises %s" % type(e).__name__,
                          case)
    try:
        d = sep.evaluate(e2, e2)
        ctx.ev()
        ctx.count("public.evaluate_empty")
    except Exception as e:  # noqa: BLE001
        ctx.violation("C19/separation.evaluate/raises-on-empty", "raises-on-empty",
                      "separation.evaluate", "evaluate on empty sources raises %s: %s"
                      % (type(e).__name__, str(e)[:80]), case)


def run_shard(spec, ctx):
    mods = env.load_repo()
    cap = Capture()
    proxies = san.install_poison(mods, names=["separation"])
    install(ctx, mods, cap)
    r = ctx.rng("bss")
    rng = ctx.nprng("bss")
    with warnings.catch_warnings():
        warnings.simplefilter("ignore")
        if spec["part"] == 0:
            run_empty(ctx, mods)
        for _ in range(spec["n"]):
            cs = make_case(rng, r)
            ctx.hist("cases", "nsrc=%d nchan=%d %s" % (cs["nsrc"], cs["nchan"], cs["kind"]))
            try:
                run_case(ctx, mods, cap, cs, r)
            except Exception as e:  # noqa: BLE001
                # every generated case is a valid, non-silent source set: nothing may
                # be raised on it (the monitors' own code is outside this call)
                ctx.count("driver.raised")
                ctx.hist("driver.raised", "%s: %s" % (type(e).__name__, str(e)[:80]))
                import traceback
                tb = traceback.extract_tb(e.__traceback__)
                where = tb[-1].filename if tb else ""
                if "mir_eval" in where or "numpy" in where or "scipy" in where:
                    ctx.violation("C19/separation/raises-on-valid-input/%s" % type(e).__name__,
                                  "raises-on-valid-input", "separation.bss_eval",
                                  "%s: %s on a valid source set (%s)" % (
                                      type(e).__name__, str(e)[:120], cs["kind"]),
                                  {"kind": "case", "ref": cs["ref"], "est": cs["est"]})
                else:
                    ctx.mark_inconclusive("driver error: %s: %s" % (type(e).__name__,
                                                                    str(e)[:200]))
    ctx.count("poisoned_allocations", sum(p.__dict__["poisoned_allocations"]
                                          for p in proxies.values()))


def replay(case, ctx):
    mods = env.load_repo()
    cap = Capture()
    san.install_poison(mods, names=["separation"])
    install(ctx, mods, cap)
    with warnings.catch_warnings():
        warnings.simplefilter("ignore")
        if case.get("kind") == "empty":
            run_empty(ctx, mods)
        elif "ref" in case:
            ref, est = case["ref"], case["est"]
            cs = {"ref": ref, "est": est, "nsrc": ref.shape[0],
                  "nchan": 1 if ref.ndim == 2 else ref.shape[2], "L": ref.shape[1],
                  "kind": "replay"}
            for s in range(4):
                run_case(ctx, mods, cap, cs, ctx.rng("replay", s))


def finalize(m, tier):
    c = m["counters"]
    for k in ("contract.decomposition", "contract.permutation_maximises_mean_sir",
              "relation.framewise_column", "framewise.silent_windows",
              "relation.reorder", "poisoned_allocations", "public.evaluate_empty"):
        if c.get(k, 0) == 0:
            m["inconclusive"].append("never observed: %s" % k)
