"""C13 -- interval pre-processing preserves the annotation it re-expresses."""

import numpy as np

from .. import env, shim, gen, workloads
from ..ctx import short
from ..monitors import interval_mon
from ..tasks import TASKS

Q = gen.Q
LEVEL = "exploration"
RULE = ("Post-conditions on util.adjust_intervals / adjust_events / "
        "merge_labeled_intervals / interpolate_intervals / intervals_to_samples / "
        "boundaries_to_intervals / intervals_to_boundaries (client calls and every "
        "internal call from segment, chord, hierarchy evaluate()) against a "
        "piecewise-constant partial-function model probed at the mid-point of "
        "every elementary interval. Inputs: time-ordered, possibly non-contiguous "
        "lattice intervals; t_min/t_max in every relation to the data (None, "
        "before, after, on a boundary, inside an interval, inside a gap); empty "
        "inputs; labels=None; sample grids with points on boundaries. Non-trivial "
        "= distinct call in which cropping/padding/refinement actually happens.")
ASSUMPTIONS = [
    "precondition exactly as stated: time-ordered (sorted, non-overlapping, "
    "positive-duration) input; merge is checked on contiguous aligned inputs",
    "lattice (k/64 s) inputs make all comparisons exact",
]


def plan(tier, seed):
    n = 4000 if tier == "quick" else 60000
    k = 12 if tier == "quick" else 16
    shards = [{"name": "util-%d" % p, "kind": "util", "n": n} for p in range(k)]
    shards += [{"name": "tasks-%d" % p, "kind": "tasks",
                "n": 400 if tier == "quick" else 6000} for p in range(4)]
    from . import w7
    shards += w7.plan(tier, modules=["test_util.py", "test_segment.py", "test_chord.py"]
                      + (["test_sonify.py"] if tier == "thorough" else []))
    return shards


def gappy_intervals(r):
    """Time-ordered, possibly non-contiguous intervals on the lattice."""
    n = r.randrange(1, 8)
    t = r.choice([0, 0, 8, 64, 100])
    iv = []
    for _ in range(n):
        if r.random() < 0.3:
            t += r.randrange(1, 40)  # gap
        d = r.randrange(1, 120)
        iv.append([t / Q, (t + d) / Q])
        t += d
    return np.array(iv, dtype=float)


def pick_limit(r, iv, which):
    """A limit in one of the relations to the data the statement lists."""
    kinds = ["None", "boundary", "boundary", "inside", "gap", "before", "after",
             "first" if which == "min" else "last"]
    k = r.choice(kinds)
    flat = sorted(set(iv.ravel().tolist()))
    if k == "None":
        return None
    if k == "boundary":
        return r.choice(flat)
    if k == "inside":
        a, b = iv[r.randrange(len(iv))]
        if (b - a) * Q >= 2:
            return a + r.randrange(1, int((b - a) * Q)) / Q
        return (a + b) / 2
    if k == "gap":
        gaps = [(iv[i, 1], iv[i + 1, 0]) for i in range(len(iv) - 1)
                if iv[i + 1, 0] > iv[i, 1]]
        if gaps:
            a, b = r.choice(gaps)
            return (a + b) / 2
        return r.choice(flat)
    if k == "before":
        return max(0.0, iv.min() - r.randrange(0, 40) / Q)
    if k == "after":
        return iv.max() + r.randrange(0, 40) / Q
    if k == "first":
        return float(iv.min())
    return float(iv.max())


def wl_util(spec, ctx, mods):
    r = ctx.rng("util")
    u = mods["util"]
    for i in range(spec["n"]):
        op = r.choice(["adjust", "adjust", "adjust", "events", "merge", "interp",
                       "samples", "roundtrip"])
        try:
            if op == "adjust":
                iv = gappy_intervals(r) if r.random() < 0.93 else np.zeros((0, 2))
                labels = None if r.random() < 0.25 else gen.labels(r, len(iv))
                if len(iv):
                    t_min = pick_limit(r, iv, "min")
                    t_max = pick_limit(r, iv, "max")
                else:
                    t_min, t_max = r.choice([(0.0, 2.0), (None, 2.0), (0.0, None),
                                             (1.0, 3.5)])
                if t_min is not None and t_max is not None and not t_min < t_max:
                    t_max = t_min + r.randrange(1, 100) / Q
                kw = {}
                if r.random() < 0.3:
                    kw = {"start_label": "N", "end_label": "N"}
                if len(iv) and r.random() < 0.08:
                    # integer-typed intervals (whole seconds), fractional limits
                    tot = r.randrange(2, 14)
                    cuts = sorted(r.sample(range(1, tot), min(tot - 1, r.randrange(0, 4))))
                    bx = [0] + cuts + [tot]
                    iv = np.array([[a, b_] for a, b_ in zip(bx[:-1], bx[1:])],
                                  dtype=r.choice([np.int64, np.int32]))
                    labels = gen.labels(r, len(iv))
                    t_min = r.choice([None, r.randrange(0, tot * 4) / 4.0])
                    t_max = r.choice([None, (t_min or 0.0) + r.randrange(1, tot * 4) / 4.0])
                res = u.adjust_intervals(iv, labels, t_min, t_max, **kw)
                if ctx.want_sample() and r.random() < 0.05:
                    ctx.sample({"fn": "util.adjust_intervals", "intervals": iv.tolist(),
                                "t_min": t_min, "t_max": t_max,
                                "result": short(res, 300)})
            elif op == "events":
                ev = gen.events(r, kind=r.choice(["regular", "jitter", "random",
                                                  "dups", "two", "single"]))
                labels = None if r.random() < 0.4 else ["e%d" % k for k in range(len(ev))]
                lo = r.choice([None, 0.0, float(ev[0]), float(ev[len(ev) // 2]),
                               float(ev[0]) + 1 / 128])
                hi = r.choice([None, float(ev[-1]), float(ev[-1]) + 1.0,
                               float(ev[len(ev) // 2]) + 1 / 128])
                if lo is not None and hi is not None and not lo < hi:
                    hi = lo + 1.0
                u.adjust_events(ev, labels, lo, hi)
            elif op == "merge":
                total = r.randrange(16, 64 * 10)
                start = r.choice([0, 0, 32])
                xi, xl = gen.segmentation(r, start=start, total=total)
                yi, yl = gen.segmentation(r, start=start, total=total)
                if r.random() < 0.1:
                    yi = yi.copy()
                    yi[-1, 1] += 1 / Q  # unaligned: must raise
                elif r.random() < 0.2:
                    # integer-typed first annotation (whole seconds) against a
                    # float one with fractional boundaries
                    tot = r.randrange(2, 12)
                    cuts = sorted(r.sample(range(1, tot), min(tot - 1, r.randrange(0, 4))))
                    bx = [0] + cuts + [tot]
                    xi = np.array([[a, b_] for a, b_ in zip(bx[:-1], bx[1:])],
                                  dtype=r.choice([np.int64, np.int32, np.float32]))
                    xl = gen.labels(r, len(xi))
                    yi, yl = gen.segmentation(r, start=0, total=tot * 64)
                    if r.random() < 0.5:
                        xi, xl, yi, yl = yi, yl, xi, xl
                elif r.random() < 0.12 and len(xi) >= 3:
                    # an un-annotated gap inside one annotation
                    k = r.randrange(1, len(xi) - 1)
                    xi = np.delete(xi, k, axis=0)
                    xl = [l for j, l in enumerate(xl) if j != k]
                    if r.random() < 0.5:
                        xi, xl, yi, yl = yi, yl, xi, xl
                elif r.random() < 0.15 and len(xi) >= 2:
                    # the second annotation shares the first one's boundaries up to
                    # one ulp (0.3 typed vs 0.1 + 0.2 computed): slivers, not merges
                    bs = [xi[0, 0]] + [b_ for _, b_ in xi]
                    keep = [bs[0]] + [np.nextafter(b_, r.choice([np.inf, -np.inf]))
                                      if r.random() < 0.7 else b_
                                      for b_ in bs[1:-1] if r.random() < 0.8] + [bs[-1]]
                    yi = np.array([[a, b_] for a, b_ in zip(keep[:-1], keep[1:])])
                    yl = gen.labels(r, len(yi))
                u.merge_labeled_intervals(xi, xl, yi, yl)
            elif op == "interp":
                iv = gappy_intervals(r)
                if r.random() < 0.12:
                    # integer-typed intervals (whole seconds) with gaps; the time
                    # points stay fractional
                    iv = np.unique(np.round(iv * 2).astype(np.int64), axis=0)
                    iv = iv[iv[:, 1] > iv[:, 0]]
                    keep = [0]
                    for j in range(1, len(iv)):
                        if iv[j, 0] >= iv[keep[-1], 1]:
                            keep.append(j)
                    iv = iv[keep] if len(iv) else np.array([[0, 2], [3, 5]])
                labels = gen.labels(r, len(iv))
                pts = sorted([r.choice(iv.ravel().tolist()) if r.random() < 0.4 else
                              r.randrange(0, int(iv.max() * Q) + 40) / Q
                              for _ in range(r.randrange(0, 15))])
                if r.random() < 0.05 and len(pts) > 1:
                    pts[0], pts[-1] = pts[-1], pts[0]
                u.interpolate_intervals(iv, labels, pts,
                                        r.choice([None, "FILL", -1]))
            elif op == "samples":
                iv = gappy_intervals(r)
                labels = gen.labels(r, len(iv))
                kw = {"sample_size": r.choice([0.5, 0.25, 0.125, 1.0, 0.1, 1 / 64])}
                if r.random() < 0.3:
                    kw["offset"] = r.choice([0.0, 1 / 64, 0.25])
                if r.random() < 0.3:
                    kw["fill_value"] = "FILL"
                u.intervals_to_samples(iv, labels, **kw)
            else:
                # the boundary extraction alone is also observed on gapped input
                u.intervals_to_boundaries(gen.gapped_intervals(r))
                iv, _ = gen.segmentation(r, start=r.choice([0, 0, 7, 64]))
                if r.random() < 0.25 and len(iv) >= 2:
                    # two distinct float values that agree to 5 decimals at one
                    # shared boundary (e.g. an end computed as 0.1 + 0.2)
                    k = r.randrange(0, len(iv) - 1)
                    iv = iv.copy()
                    iv[k + 1, 0] = iv[k, 1] + r.choice([1e-7, 4e-16, 3e-9, 2e-6])
                b = u.intervals_to_boundaries(iv)
                back = u.boundaries_to_intervals(b)
                ctx.ev()
                ctx.count("roundtrip")
                if np.asarray(back).shape != iv.shape or \
                        np.max(np.abs(np.asarray(back) - iv)) > 1.1e-5:
                    ctx.violation("C13/util.boundaries_to_intervals/roundtrip",
                                  "roundtrip", "util.boundaries_to_intervals",
                                  "boundaries_to_intervals(intervals_to_boundaries(x))"
                                  " != x on a contiguous segmentation",
                                  {"kind": "roundtrip", "iv": iv},
                                  witness={"intervals": iv, "back": back})
        except Exception:  # outcomes are judged by the post-conditions
            ctx.count("driver.raised")


def wl_tasks(spec, ctx, mods):
    r = ctx.rng("tasks")
    workloads.run_valid(ctx, mods, spec["n"], r,
                        tasks=["segment", "chord", "hierarchy"], direct=False)
    # sonify.chords exercises intervals through adjust/interpolate as well
    for _ in range(max(2, spec["n"] // 30)):
        inp = TASKS["chord"].gen(r)
        try:
            mods["sonify"].chords(inp["ref_lab"], inp["ref_iv"], 2000)
        except Exception:
            ctx.count("driver.raised")


def run_shard(spec, ctx):
    mods = env.load_repo()
    interval_mon.install(ctx, mods)
    if spec["kind"] == "w7":
        from . import w7
        w7.run(spec, ctx)
    else:
        (wl_util if spec["kind"] == "util" else wl_tasks)(spec, ctx, mods)
    n, problems = shim.fidelity_report()
    ctx.count("noninterference.shims_checked", n)
    if problems:
        ctx.mark_inconclusive("shim fidelity: %r" % problems[:3])


def replay(case, ctx):
    mods = env.load_repo()
    interval_mon.install(ctx, mods)
    if case["kind"] == "call":
        from ..replay import call_again
        call_again(case, mods)
    elif case["kind"] == "roundtrip":
        u = mods["util"]
        back = u.boundaries_to_intervals(u.intervals_to_boundaries(case["iv"]))
        if np.asarray(back).shape != case["iv"].shape or \
                np.max(np.abs(np.asarray(back) - case["iv"])) > 1e-5:
            ctx.violation("C13/util.boundaries_to_intervals/roundtrip", "roundtrip",
                          "util.boundaries_to_intervals", "round trip differs", case)


def finalize(m, tier):
    c = m["counters"]
    for f in ("adjust_intervals", "adjust_events", "merge_labeled_intervals",
              "interpolate_intervals", "intervals_to_samples",
              "boundaries_to_intervals", "intervals_to_boundaries"):
        if c.get("contract.util." + f, 0) == 0:
            m["inconclusive"].append("contract util.%s never evaluated" % f)
