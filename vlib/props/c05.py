"""C05 -- hit counts come from a valid, maximum one-to-one matching."""

import itertools

import numpy as np

from .. import env, shim, gen, cov
from ..ctx import short
from ..monitors import match_mon
from ..oracles import matching as om

LEVEL = "exploration"
RULE = ("Every matching produced by util._bipartite_match, util.match_events, "
        "transcription.match_note_onsets/offsets/notes, transcription_velocity."
        "match_notes and every per-frame count of multipitch.compute_num_true_"
        "positives (client calls and calls mir_eval makes internally) is checked "
        "by a post-condition against a brute-force feasibility graph (exact "
        "rationals) and Kuhn's algorithm. Workloads: every bipartite graph up to "
        "the stated size as a dict, each also relabelled/reordered; random graphs "
        "with planted structures where first-fit is not maximum; lattice event / "
        "note / frame sets with ties, duplicates and distance == tolerance; each "
        "input also permuted (size must not change). Non-trivial = distinct "
        "(labelled) graph on which first-fit is smaller than the maximum, or "
        "distinct event/note/frame input with >= 2 items per side and >= 1 hit.")
ASSUMPTIONS = [
    "Kuhn augmenting-path oracle and bitmask recursion in vlib/oracles/matching.py "
    "are correct (cross-checked against each other and, thorough tier, SciPy)",
    "on the 2^-10 lattice binary64 sums/differences are exact; off the lattice a "
    "pair within 1e-9 of the tolerance is treated as 'may or may not be feasible'",
]
EXHAUSTIVE = {"quick": False, "thorough": False}
EXHAUSTIVE_DOMAIN = {
    "quick": "all bipartite graphs with |U|<=3, |V|<=4 (exhaustive sub-domain) + "
             "stratified sample of 4x5",
    "thorough": "all bipartite graphs with |U|<=4, |V|<=5 (exhaustive sub-domain)",
}


def plan(tier, seed):
    shards = []
    if tier == "quick":
        shards.append({"name": "graphs-small", "kind": "graphs", "a_max": 3,
                       "b_max": 4, "part": 0, "parts": 1})
        for p in range(4):
            shards.append({"name": "graphs-sample-%d" % p, "kind": "graphs45sample",
                           "n": 15000, "part": p})
        for p in range(6):
            shards.append({"name": "random-%d" % p, "kind": "random", "n": 2500,
                           "part": p})
        for p in range(4):
            shards.append({"name": "events-%d" % p, "kind": "events", "n": 2500,
                           "part": p})
        for p in range(4):
            shards.append({"name": "notes-%d" % p, "kind": "notes", "n": 1200,
                           "part": p})
    else:
        shards.append({"name": "graphs-small", "kind": "graphs", "a_max": 3,
                       "b_max": 5, "part": 0, "parts": 1})
        for p in range(16):
            shards.append({"name": "graphs-45-%d" % p, "kind": "graphs",
                           "a_min": 4, "a_max": 4, "b_min": 1, "b_max": 5,
                           "part": p, "parts": 16})
        for p in range(8):
            shards.append({"name": "random-%d" % p, "kind": "random", "n": 20000,
                           "part": p, "scipy": True})
        for p in range(8):
            shards.append({"name": "events-%d" % p, "kind": "events", "n": 12000,
                           "part": p})
        for p in range(8):
            shards.append({"name": "notes-%d" % p, "kind": "notes", "n": 6000,
                           "part": p})
    from . import w7
    shards += w7.plan(tier, modules=["test_util.py", "test_beat.py", "test_onset.py",
                                     "test_transcription.py", "test_multipitch.py",
                                     "test_transcription_velocity.py"])
    return shards


# ---------------------------------------------------------------- workloads

def _graph_from_mask(a, b, mask, isolated):
    g = {}
    for u in range(a):
        row = [v for v in range(b) if (mask >> (u * b + v)) & 1]
        if row or isolated:
            g[u] = row
    return g


def _relabel(r, g):
    us = list(g)
    vs = sorted({v for u in g for v in g[u]})
    pu = us[:]
    r.shuffle(pu)
    names_v = ["v%d" % i for i in range(len(vs))]
    r.shuffle(names_v)
    mv = dict(zip(vs, names_v))
    out = {}
    for u in pu:
        row = [mv[v] for v in g[u]]
        r.shuffle(row)
        out[("u", u)] = row
    return out


def _run_graph(ctx, mods, g):
    m = mods["util"]._bipartite_match(g)
    return len(m)


def wl_graphs(spec, ctx, mods):
    r = ctx.rng("graphs")
    a_min, a_max = spec.get("a_min", 0), spec["a_max"]
    b_min, b_max = spec.get("b_min", 0), spec["b_max"]
    part, parts = spec["part"], spec["parts"]
    n = 0
    for a in range(a_min, a_max + 1):
        for b in range(b_min, b_max + 1):
            for mask in range(1 << (a * b)):
                if mask % parts != part:
                    continue
                g = _graph_from_mask(a, b, mask, isolated=True)
                s1 = _run_graph(ctx, mods, g)
                g2 = _relabel(r, _graph_from_mask(a, b, mask, isolated=False))
                s2 = _run_graph(ctx, mods, g2)
                if s1 != s2:
                    ctx.violation("C05/util._bipartite_match/order-dependent",
                                  "order-dependent", "util._bipartite_match",
                                  "matching size changes under relabelling / "
                                  "insertion order", {"kind": "graphpair", "g": g,
                                                      "g2": g2},
                                  witness={"g": g, "g2": g2, "sizes": (s1, s2)})
                n += 1
                if ctx.want_sample() and mask and om.greedy_size(g) < s1:
                    ctx.sample({"graph": {str(k): v for k, v in g.items()},
                                "matching_size": s1})
    ctx.count("graphs_enumerated", n)


def wl_graphs45sample(spec, ctx, mods):
    r = ctx.rng("g45")
    for _ in range(spec["n"]):
        # stratify by edge density so sparse and dense graphs both appear
        p = r.choice([0.1, 0.2, 0.3, 0.4, 0.5, 0.7])
        mask = 0
        for bit in range(20):
            if r.random() < p:
                mask |= 1 << bit
        g = _graph_from_mask(4, 5, mask, isolated=r.random() < 0.5)
        s1 = _run_graph(ctx, mods, g)
        g2 = _relabel(r, g)
        s2 = _run_graph(ctx, mods, g2)
        if s1 != s2:
            ctx.violation("C05/util._bipartite_match/order-dependent",
                          "order-dependent", "util._bipartite_match",
                          "matching size changes under relabelling / insertion "
                          "order", {"kind": "graphpair", "g": g, "g2": g2},
                          witness={"g": g, "g2": g2, "sizes": (s1, s2)})
    ctx.count("graphs_sampled", spec["n"])


def _planted(r):
    kind = r.choice(["chain", "crown", "blocks", "duprows", "random", "random",
                     "chain", "star"])
    nu = r.randrange(2, 41)
    nv = r.randrange(2, 41)
    g = {}
    if kind == "chain":
        # alternating chain: u_i -- v_i, u_i -- v_{i+1}; listing v_{i+1} first
        # makes first-fit take the wrong edge everywhere
        k = r.randrange(2, 30)
        for i in range(k):
            g[i] = [i + 1, i] if i + 1 <= k - 1 else [i]
        g[k] = [0] if r.random() < 0.5 else [k - 1]
    elif kind == "crown":
        k = r.randrange(2, 12)
        for i in range(k):
            g[i] = [j for j in range(k) if j != i]
        if r.random() < 0.5:
            g[k] = [0]
    elif kind == "blocks":
        off = 0
        uid = 0
        for _ in range(r.randrange(1, 5)):
            bu, bv = r.randrange(1, 7), r.randrange(1, 7)
            for _u in range(bu):
                g[uid] = list(range(off, off + bv))
                uid += 1
            off += bv
    elif kind == "duprows":
        row = sorted(r.sample(range(nv), r.randrange(1, min(5, nv) + 1)))
        for u in range(nu):
            g[u] = list(row) if r.random() < 0.7 else [r.randrange(nv)]
    elif kind == "star":
        for u in range(nu):
            g[u] = [0] + ([r.randrange(1, nv)] if r.random() < 0.3 else [])
    else:
        p = r.choice([0.03, 0.08, 0.15, 0.3])
        for u in range(nu):
            row = [v for v in range(nv) if r.random() < p]
            if row or r.random() < 0.3:
                g[u] = row
    if r.random() < 0.5:
        items = list(g.items())
        r.shuffle(items)
        g = {}
        for u, row in items:
            row = list(row)
            r.shuffle(row)
            g[u] = row
    return g


def wl_random(spec, ctx, mods):
    r = ctx.rng("random")
    use_scipy = spec.get("scipy", False)
    for _ in range(spec["n"]):
        g = _planted(r)
        s1 = _run_graph(ctx, mods, g)
        g2 = _relabel(r, g)
        s2 = _run_graph(ctx, mods, g2)
        if s1 != s2:
            ctx.violation("C05/util._bipartite_match/order-dependent",
                          "order-dependent", "util._bipartite_match",
                          "matching size changes under relabelling / insertion "
                          "order", {"kind": "graphpair", "g": g, "g2": g2},
                          witness={"g": g, "g2": g2, "sizes": (s1, s2)})
        if use_scipy and g:
            import scipy.sparse as sp
            from scipy.sparse.csgraph import maximum_bipartite_matching
            us = list(g)
            vs = sorted({v for u in g for v in g[u]})
            if vs:
                vi = {v: i for i, v in enumerate(vs)}
                rows = [i for i, u in enumerate(us) for _ in g[u]]
                cols = [vi[v] for u in us for v in g[u]]
                mtx = sp.csr_matrix((np.ones(len(rows), dtype=int), (rows, cols)),
                                    shape=(len(us), len(vs)))
                mm = maximum_bipartite_matching(mtx, perm_type="column")
                sz = int((mm >= 0).sum())
                ctx.count("oracle.scipy_crosscheck")
                if sz != om.graph_max(g):
                    ctx.mark_inconclusive("oracles disagree (Kuhn vs SciPy) on %r"
                                          % (g,))
        if ctx.want_sample() and om.greedy_size(g) < s1 and len(g) <= 8:
            ctx.sample({"graph": {str(k): v for k, v in g.items()},
                        "matching_size": s1})


def _perm_check(ctx, fn_name, size_a, size_b, case):
    if size_a != size_b:
        ctx.violation("C05/%s/order-dependent" % fn_name, "order-dependent",
                      fn_name, "matching size changes when the items are "
                      "supplied in a different order (%d vs %d)" % (size_a, size_b),
                      case, witness=case)
    ctx.count("permutation_pairs")


def wl_events(spec, ctx, mods):
    r = ctx.rng("events")
    util, mp = mods["util"], mods["multipitch"]
    for k in range(spec["n"]):
        mode = r.choice(["events", "events", "events", "frames", "chroma"])
        if mode == "events":
            ref = gen.events(r)
            est = gen.related_events(r, ref)
            w = r.choice(gen.DYADIC_WINDOWS + [0.0])
            if r.random() < 0.2 and ref.size:
                # off-lattice: estimates just inside / just outside the window
                w = r.choice([0.05, 0.07, 0.5, 3.0])
                est = np.sort(np.array([x + s * w * (1 + d) for x in ref
                                        for s, d in [(r.choice([1, -1]),
                                                      r.choice([5e-10, -5e-10, 1e-12,
                                                                -1e-12, 3e-9, -3e-9]))]]))
                est = est[est >= 0]
            elif r.random() < 0.12 and ref.size:
                # integer-typed reference (whole seconds), fractional estimates
                ref = np.unique(np.round(ref)).astype(np.int64)
                est = np.sort(np.array([x + r.choice([0, 0.25, 0.5, 0.703125, -0.296875,
                                                      0.75, -0.5, 1.25])
                                        for x in ref for _ in range(r.choice([1, 1, 2]))]))
                est = est[est >= 0]
                w = r.choice([0.5, 0.25, 0.75, 1.0])
                if r.random() < 0.3:
                    ref, est = est, ref  # integer-typed estimate instead
            m1 = util.match_events(ref, est, w)
            pr = list(range(ref.size)); r.shuffle(pr)
            pe = list(range(est.size)); r.shuffle(pe)
            m2 = util.match_events(ref[pr], est[pe], w)
            _perm_check(ctx, "util.match_events", len(m1), len(m2),
                        {"kind": "events_perm", "ref": ref, "est": est, "w": w,
                         "pr": pr, "pe": pe})
            if ctx.want_sample() and len(m1) >= 2 and r.random() < 0.1:
                ctx.sample({"fn": "util.match_events", "ref": ref.tolist(),
                            "est": est.tolist(), "window": w, "matching": short(m1)})
            # through the public metric functions too (internal boundary)
            if r.random() < 0.3:
                mods["onset"].f_measure(ref, est, window=w)
            if r.random() < 0.3 and w > 0:
                mods["beat"].f_measure(ref, est, f_measure_threshold=w)
        else:
            chroma = mode == "chroma"
            nfr = r.randrange(1, 6)
            ref_f, est_f = [], []
            for _ in range(nfr):
                nr, ne = r.randrange(0, 6), r.randrange(0, 6)
                # MIDI lattice (1/8 semitone); chroma frames live in [0, 12)
                base = [r.randrange(40 * 8, 90 * 8) / 8.0 for _ in range(nr)]
                es = []
                for _ in range(ne):
                    if base and r.random() < 0.7:
                        es.append(r.choice(base) + r.choice(
                            [0, 0.25, -0.25, 0.5, -0.5, 0.625, 12, -12, 11.75, 1]))
                    else:
                        es.append(r.randrange(40 * 8, 90 * 8) / 8.0)
                if chroma and r.random() < 0.7:
                    base = [x % 12 for x in base]
                    es = [x % 12 for x in es]
                    if r.random() < 0.3 and base:
                        base[0] = 11.875
                        es.append(0.125)
                ref_f.append(np.array(base, dtype=float))
                est_f.append(np.array(es, dtype=float))
            w = r.choice([0.25, 0.5, 0.5, 1.0])
            tp1 = mp.compute_num_true_positives(ref_f, est_f, window=w, chroma=chroma)
            ref_p = [f[r.sample(range(f.size), f.size)] if f.size else f for f in ref_f]
            est_p = [f[r.sample(range(f.size), f.size)] if f.size else f for f in est_f]
            tp2 = mp.compute_num_true_positives(ref_p, est_p, window=w, chroma=chroma)
            _perm_check(ctx, "multipitch.compute_num_true_positives",
                        int(tp1.sum()), int(tp2.sum()),
                        {"kind": "frames_perm", "ref": ref_f, "est": est_f,
                         "refp": ref_p, "estp": est_p, "w": w, "chroma": chroma})


def wl_notes(spec, ctx, mods):
    r = ctx.rng("notes")
    t, tv = mods["transcription"], mods["transcription_velocity"]
    for k in range(spec["n"]):
        riv, rhz, rvel = gen.notes(r, n=r.randrange(1, 11))
        eiv, ehz, evel = gen.related_notes(r, riv, rhz, rvel)
        if len(eiv) == 0:
            eiv, ehz, evel = gen.notes(r, n=2)
        if r.random() < 0.1:
            # whole-second reference notes in an integer-typed array, estimates
            # off by fractions of a second
            riv = np.array([[a, a + r.randrange(1, 5)] for a in
                            sorted(r.sample(range(0, 40), len(riv)))], dtype=np.int64)
            eiv = riv.astype(float) + np.array(
                [[r.choice([0, 0.25, -0.25, 0.0625]), r.choice([0, 0.25, 0.375, -0.5, 0.75])]
                 for _ in riv])
            eiv[:, 0] = np.maximum(eiv[:, 0], 0.0)
            eiv[:, 1] = np.maximum(eiv[:, 1], eiv[:, 0] + 1 / 64)
            ehz, evel = rhz.copy(), rvel.copy()
        strict = r.random() < 0.5
        onset_tol = r.choice([1 / 64, 1 / 32, 1 / 16, 0.05, 1 / 8, 0.5])
        ratio = r.choice([None, 0.25, 0.2, 0.5, 0.125])
        min_tol = r.choice([1 / 64, 1 / 32, 0.05, 1 / 16, 0.5])
        ptol = r.choice([50.0, 25.0, 100.0, 37.5])
        kw = dict(onset_tolerance=onset_tol, pitch_tolerance=ptol,
                  offset_ratio=ratio, offset_min_tolerance=min_tol, strict=strict)
        m1 = t.match_notes(riv, rhz, eiv, ehz, **kw)
        pr = list(range(len(riv))); r.shuffle(pr)
        pe = list(range(len(eiv))); r.shuffle(pe)
        m2 = t.match_notes(riv[pr], rhz[pr], eiv[pe], ehz[pe], **kw)
        _perm_check(ctx, "transcription.match_notes", len(m1), len(m2),
                    {"kind": "notes_perm", "riv": riv, "rhz": rhz, "eiv": eiv,
                     "ehz": ehz, "kw": kw, "pr": pr, "pe": pe})
        mo = t.match_note_onsets(riv, eiv, onset_tolerance=onset_tol, strict=strict)
        mo2 = t.match_note_onsets(riv[pr], eiv[pe], onset_tolerance=onset_tol,
                                  strict=strict)
        _perm_check(ctx, "transcription.match_note_onsets", len(mo), len(mo2),
                    {"kind": "onsets_perm", "riv": riv, "eiv": eiv, "pr": pr,
                     "pe": pe, "tol": onset_tol, "strict": strict})
        if ratio is not None:
            mf = t.match_note_offsets(riv, eiv, offset_ratio=ratio,
                                      offset_min_tolerance=min_tol, strict=strict)
            mf2 = t.match_note_offsets(riv[pr], eiv[pe], offset_ratio=ratio,
                                       offset_min_tolerance=min_tol, strict=strict)
            _perm_check(ctx, "transcription.match_note_offsets", len(mf), len(mf2),
                        {"kind": "offsets_perm", "riv": riv, "eiv": eiv, "pr": pr,
                         "pe": pe, "ratio": ratio, "min_tol": min_tol,
                         "strict": strict})
        tv.match_notes(riv, rhz, rvel, eiv, ehz, evel, velocity_tolerance=
                       r.choice([0.1, 0.25, 0.5]), **kw)
        if r.random() < 0.3:
            t.precision_recall_f1_overlap(riv, rhz, eiv, ehz, **kw)
        if ctx.want_sample() and len(m1) >= 2 and r.random() < 0.2:
            ctx.sample({"fn": "transcription.match_notes",
                        "ref_intervals": riv.tolist(), "est_intervals": eiv.tolist(),
                        "kw": {k_: v for k_, v in kw.items()}, "matching": short(m1)})


WL = {"graphs": wl_graphs, "graphs45sample": wl_graphs45sample,
      "random": wl_random, "events": wl_events, "notes": wl_notes}

DECIDING = [("augmenting_path_found", "util._bipartite_match.recurse",
             r"matching\[v\]\s*=\s*u")]


def run_shard(spec, ctx):
    mods = env.load_repo()
    match_mon.install(ctx, mods)
    c = None
    if spec["kind"] in ("random", "graphs45sample") and spec.get("part", 0) == 0 \
            or spec["name"] == "graphs-small":
        c = cov.Coverage()
        c.watch(shim._SHIMS[("mir_eval.util", "_bipartite_match")].orig)
        c.watch(mods["util"]._fast_hit_windows)
        c.start()
    if spec["kind"] == "w7":
        from . import w7
        w7.run(spec, ctx)
    else:
        WL[spec["kind"]](spec, ctx, mods)
    if c is not None:
        c.stop()
        rep = c.report(DECIDING)
        for fn, d in rep["functions"].items():
            ctx.count("cov.%s.lines" % fn, d["lines"])
            ctx.count("cov.%s.hit" % fn, d["hit"])
        for lab, n in rep["deciding"].items():
            if n is not None:
                ctx.count("cov.deciding." + lab, n)
            else:
                ctx.notes.append("deciding path %s not locatable in source" % lab)
    n, problems = shim.fidelity_report()
    ctx.count("noninterference.shims_checked", n)
    if problems:
        ctx.mark_inconclusive("shim fidelity: %r" % problems[:3])


def replay(case, ctx):
    mods = env.load_repo()
    match_mon.install(ctx, mods)
    replay_case(case, ctx, mods)


def replay_case(case, ctx, mods):
    k = case["kind"]
    util, t, mp = mods["util"], mods["transcription"], mods["multipitch"]
    if k == "call":
        from ..replay import call_again
        call_again(case, mods)
    elif k == "graphpair":
        s1 = len(util._bipartite_match(case["g"]))
        s2 = len(util._bipartite_match(case["g2"]))
        if s1 != s2:
            ctx.violation("C05/util._bipartite_match/order-dependent",
                          "order-dependent", "util._bipartite_match",
                          "matching size changes under relabelling", case)
    elif k == "events_perm":
        m1 = util.match_events(case["ref"], case["est"], case["w"])
        m2 = util.match_events(case["ref"][case["pr"]], case["est"][case["pe"]],
                               case["w"])
        _perm_check(ctx, "util.match_events", len(m1), len(m2), case)
    elif k == "frames_perm":
        a = mp.compute_num_true_positives(case["ref"], case["est"], window=case["w"],
                                          chroma=case["chroma"])
        b = mp.compute_num_true_positives(case["refp"], case["estp"],
                                          window=case["w"], chroma=case["chroma"])
        _perm_check(ctx, "multipitch.compute_num_true_positives", int(a.sum()),
                    int(b.sum()), case)
    elif k == "notes_perm":
        pr, pe = case["pr"], case["pe"]
        m1 = t.match_notes(case["riv"], case["rhz"], case["eiv"], case["ehz"],
                           **case["kw"])
        m2 = t.match_notes(case["riv"][pr], case["rhz"][pr], case["eiv"][pe],
                           case["ehz"][pe], **case["kw"])
        _perm_check(ctx, "transcription.match_notes", len(m1), len(m2), case)
    elif k == "onsets_perm":
        pr, pe = case["pr"], case["pe"]
        m1 = t.match_note_onsets(case["riv"], case["eiv"], onset_tolerance=case["tol"],
                                 strict=case["strict"])
        m2 = t.match_note_onsets(case["riv"][pr], case["eiv"][pe],
                                 onset_tolerance=case["tol"], strict=case["strict"])
        _perm_check(ctx, "transcription.match_note_onsets", len(m1), len(m2), case)
    elif k == "offsets_perm":
        pr, pe = case["pr"], case["pe"]
        kw = dict(offset_ratio=case["ratio"], offset_min_tolerance=case["min_tol"],
                  strict=case["strict"])
        m1 = t.match_note_offsets(case["riv"], case["eiv"], **kw)
        m2 = t.match_note_offsets(case["riv"][pr], case["eiv"][pe], **kw)
        _perm_check(ctx, "transcription.match_note_offsets", len(m1), len(m2), case)


def finalize(m, tier):
    c = m["counters"]
    if c.get("deciding.greedy_not_maximum", 0) == 0:
        m["inconclusive"].append("no observed graph required an augmenting path")
    for name in ("contract._bipartite_match", "contract.match_events",
                 "contract.transcription.match_notes",
                 "contract.transcription.match_note_onsets",
                 "contract.transcription.match_note_offsets",
                 "contract.transcription_velocity.match_notes",
                 "contract.compute_num_true_positives"):
        if c.get(name, 0) == 0:
            m["inconclusive"].append("contract %s was never evaluated" % name)
