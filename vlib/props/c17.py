"""C17 -- hierarchy T-/L-measures equal the triplet-ranking definition."""

import warnings

import numpy as np

from .. import env, shim, gen, tasks
from ..ctx import short
from ..oracles import hierarchy_ref as hr

Q = gen.Q
LEVEL = "exploration"
TOL = 1e-9
MAX_FRAMES = 56
RULE = ("A reference-model post-condition on hierarchy.tmeasure / lmeasure (every "
        "observed call incl. those made by hierarchy.evaluate): frames by the "
        "documented quantisation, LCA / label-meet depth per frame pair by direct "
        "search, every ordered pair (i, j) inside the half-open window for every "
        "query q, reference ranking by exactly one level (reduced) or any (full), "
        "strict agreement of the estimate, mean over queries with >= 1 reference "
        "triple, precision with roles exchanged, F_beta; O(n^3) brute force. "
        "Parameter faults frame_size <= 0 and frame_size > window must raise "
        "ValueError; scores must lie in [0, 1]. Non-trivial = distinct (ref, est, "
        "settings) with >= 2 levels on one side and a score strictly between 0 "
        "and 1.")
ASSUMPTIONS = [
    "calls whose oracle margin is < 1e-7 (non-dyadic frame sizes with boundaries "
    "off the grid) or with more than %d frames are skipped and counted" % MAX_FRAMES,
    "the half-open query window q-w <= i < q+w is the module's documented "
    "convention in _gauc",
]


def plan(tier, seed):
    n = 300 if tier == "quick" else 5000
    return [{"name": "hier-%d" % p, "n": n} for p in range(16)]


def _span_frames(ivs, fs):
    lo = min(float(np.min(iv)) for iv in ivs)
    hi = max(float(np.max(iv)) for iv in ivs)
    return int(hi / fs) - int(lo / fs)


def post_measure(ctx, which):
    fn = "hierarchy." + which

    def post(call):
        c = call.case()
        b = dict(zip(call.spec.params, c["args"]))
        b.update(c["kwargs"])
        fs = b.get("frame_size", 0.1)
        beta = b.get("beta", 1.0)
        ctx.count("contract." + fn)
        try:
            rivs = [np.asarray(x, dtype=float) for x in b["reference_intervals_hier"]]
            eivs = [np.asarray(x, dtype=float) for x in b["estimated_intervals_hier"]]
        except Exception:
            ctx.count("unclassified")
            return
        if fs is not None and fs > 0:
            try:
                nfr = max(_span_frames(rivs, fs), _span_frames(eivs, fs))
            except Exception:
                ctx.count("unclassified")
                return
            if nfr > MAX_FRAMES:
                ctx.count("skipped_large")
                return
        try:
            with warnings.catch_warnings():
                warnings.simplefilter("ignore")
                if which == "tmeasure":
                    want, margin = hr.tmeasure(rivs, eivs, b.get("transitive", False),
                                               b.get("window", 15.0), fs, beta)
                else:
                    want, margin = hr.lmeasure(rivs, b["reference_labels_hier"], eivs,
                                               b["estimated_labels_hier"], fs, beta)
            oracle_raises = None
        except ValueError as e:
            oracle_raises = e
        except Exception:
            ctx.count("oracle_error")
            return
        ctx.ev()
        if oracle_raises is not None:
            # only the parameter faults named in the statement are judged here
            w = b.get("window", 15.0) if which == "tmeasure" else None
            param_fault = (fs is None or fs <= 0) or (w is not None and fs > w)
            if param_fault:
                ctx.count("parameter_fault_calls")
                if not isinstance(call.exc, ValueError):
                    ctx.violation("C17/%s/parameter-fault-accepted" % fn,
                                  "parameter-fault-accepted", fn,
                                  "%s accepted frame_size=%r window=%r" % (fn, fs, w), c)
            else:
                ctx.count("oracle_rejects_input(not judged)")
            return
        if call.exc is not None:
            ctx.violation("C17/%s/raises/%s" % (fn, type(call.exc).__name__), "raises",
                          fn, "%s raised %s on an input the definition scores as %r" % (
                              fn, type(call.exc).__name__, want), c)
            return
        if margin < 1e-7:
            ctx.count("skipped_near_threshold")
            return
        got = tuple(float(x) for x in call.result)
        if any(not (-1e-9 <= g <= 1 + 1e-9) for g in got):
            ctx.violation("C17/%s/out-of-range" % fn, "out-of-range", fn,
                          "%s = %r outside [0, 1]" % (fn, got), c)
        for i, (g, w_) in enumerate(zip(got, want)):
            if abs(g - w_) > TOL:
                mech = ""
                try:
                    if hr.float_frame_hazard([rivs, eivs], fs,
                                             b.get("window", 15.0) if which ==
                                             "tmeasure" else None):
                        mech = "/float-frame-index"
                except Exception:
                    pass
                ctx.violation("C17/%s/differs-from-definition%s" % (fn, mech),
                              "differs-from-definition", fn,
                              "%s = %r, brute-force triplet definition gives %r "
                              "(settings %s)" % (fn, got, tuple(want), short(c["kwargs"], 120)),
                              c, witness={"fn": fn, "got": got, "definition": tuple(want),
                                          "args": c["args"], "kwargs": c["kwargs"]})
                break
        levels = max(len(rivs), len(eivs))
        if levels >= 2 and any(0 < g < 1 for g in got):
            ctx.nontrivial(which, [x.tolist() for x in rivs], [x.tolist() for x in eivs],
                           repr(b.get("reference_labels_hier")),
                           repr(sorted((k, repr(v)) for k, v in c["kwargs"].items())))
        ctx.hist("levels", "%dx%d" % (len(rivs), len(eivs)))
        if ctx.want_sample() and levels >= 2 and ctx.evaluations % 47 == 0:
            ctx.sample({"fn": fn, "ref": [x.tolist() for x in rivs],
                        "est": [x.tolist() for x in eivs], "kwargs": short(c["kwargs"], 120),
                        "library": got, "definition": tuple(want)})
    return post


def install(ctx, mods):
    shim.install(mods["hierarchy"], "tmeasure", post=post_measure(ctx, "tmeasure"))
    shim.install(mods["hierarchy"], "lmeasure", post=post_measure(ctx, "lmeasure"))
    shim.install(mods["hierarchy"], "evaluate", post=lambda c: None, snapshot=False)


def small_hierarchy(r, for_evaluate=False):
    """1-4 levels, nested or not, <= ~40 frames at the chosen frame size."""
    fs = r.choice([0.5, 0.25, 1.0, 0.5])
    fr = int(round(fs * Q))
    nframes = r.randrange(2, 40)
    total = nframes * fr + r.choice([0, 0, fr // 2, fr // 4])
    def one(tot, levels=None):
        levels = levels or r.randrange(1, 5)
        nested = r.random() < 0.6
        ivs, labs = [], []
        prev = [0, tot]
        for lv in range(levels):
            n = r.randrange(1, 4) if lv == 0 else r.randrange(1, 8)
            bs = gen.boundaries(r, n=n, start=0, total=tot, min_len=r.choice([2, fr]))
            if nested and lv:
                bs = sorted(set(bs) | set(prev))
            prev = bs
            iv = np.array([[a / Q, b_ / Q] for a, b_ in zip(bs[:-1], bs[1:])])
            ivs.append(iv)
            labs.append(gen.labels(r, len(iv)))
        return ivs, labs
    rivs, rlabs = one(total)
    etot = total
    if for_evaluate:
        u = r.random()
        if u < 0.3:
            etot = max(fr * 2, total - fr * r.randrange(1, max(2, nframes // 2)))
        elif u < 0.6:
            etot = total + fr * r.randrange(1, 6)
    kind = r.choice(["independent", "independent", "copy", "flat"])
    if kind == "copy" and etot == total:
        eivs, elabs = [x.copy() for x in rivs], [list(x) for x in rlabs]
    elif kind == "flat":
        eivs, elabs = one(etot, 1)
    else:
        eivs, elabs = one(etot)
    if r.random() < 0.12:
        # a top layer ending one ulp early (spans are validated with allclose):
        # the frame grid must still be taken over all layers
        which = r.choice(["both", "both", "ref", "est"])
        if which in ("both", "ref"):
            tasks._ulp_top(rivs)
        if which in ("both", "est"):
            tasks._ulp_top(eivs)
    return rivs, rlabs, eivs, elabs, fs


def run_shard(spec, ctx):
    mods = env.load_repo()
    install(ctx, mods)
    h = mods["hierarchy"]
    r = ctx.rng("hier")
    if spec["name"].endswith("-0"):
        # fixed probe on the default 0.1 s grid with boundaries away from the grid
        with warnings.catch_warnings():
            warnings.simplefilter("ignore")
            try:
                h.tmeasure([np.array([[0.0, 1.65625], [1.65625, 4.3125]])],
                           [np.array([[0.0, 2.65625], [2.65625, 3.875],
                                      [3.875, 4.3125]])], window=None, frame_size=0.1)
            except Exception:
                ctx.count("driver.raised")
    for i in range(spec["n"]):
        ev = (i % 4 == 3)
        rivs, rlabs, eivs, elabs, fs = small_hierarchy(r, for_evaluate=ev)
        window = r.choice([None, None, fs, 2 * fs, 4 * fs, 3.0, 15.0])
        if window is not None and window < fs:
            window = fs
        beta = r.choice([1.0, 0.5, 2.0])
        with warnings.catch_warnings():
            warnings.simplefilter("ignore")
            try:
                if ev:
                    h.evaluate(rivs, rlabs, eivs, elabs, frame_size=fs, window=window,
                               beta=beta)
                else:
                    h.tmeasure(rivs, eivs, transitive=r.random() < 0.5, window=window,
                               frame_size=fs, beta=beta)
                    h.lmeasure(rivs, rlabs, eivs, elabs, frame_size=fs, beta=beta)
            except Exception:
                ctx.count("driver.raised")
            if i % 10 == 0:
                # parameter faults named in the statement
                for kw in ({"frame_size": 0.0}, {"frame_size": -fs},
                           {"frame_size": 2.0, "window": 1.0}):
                    try:
                        h.tmeasure(rivs, eivs, **kw)
                    except Exception:
                        pass
                    if "window" not in kw:
                        try:
                            h.lmeasure(rivs, rlabs, eivs, elabs, **kw)
                        except Exception:
                            pass
            if i % 25 == 0:
                # the default grid (0.1 s): mostly skipped by margin, kept for bounds
                try:
                    h.tmeasure(rivs, eivs, window=None, frame_size=0.1)
                except Exception:
                    ctx.count("driver.raised")
    n, problems = shim.fidelity_report()
    if problems:
        ctx.mark_inconclusive("shim fidelity: %r" % problems[:3])


def replay(case, ctx):
    mods = env.load_repo()
    install(ctx, mods)
    from ..replay import call_again
    call_again(case, mods)


def finalize(m, tier):
    c = m["counters"]
    for k in ("contract.hierarchy.tmeasure", "contract.hierarchy.lmeasure",
              "parameter_fault_calls"):
        if c.get(k, 0) == 0:
            m["inconclusive"].append("never observed: %s" % k)
