"""C18 -- multipitch error accounting is exhaustive and consistent."""

import warnings

import numpy as np

from .. import env, shim, gen, tasks
from ..ctx import short

LEVEL = "exploration"
TOL = 1e-9
RULE = ("Post-conditions on multipitch.metrics / evaluate / compute_num_true_"
        "positives / compute_accuracy / compute_err_score / resample_multipitch "
        "(every observed call): E_tot = E_sub + E_miss + E_fa, every error >= 0, "
        "accuracy <= min(precision, recall), the same for the chroma seven; per "
        "frame TP <= min(#ref, #est) and chroma TP >= raw TP; every resampled frame "
        "is the estimate frame nearest in time (linear scan) and reference times "
        "outside the estimate's range get an empty frame; metrics() must call the "
        "resampler whenever the two time bases clearly differ. Workload: ragged frames "
        "incl. empty frames, all-empty sides, single frames, differing time bases, "
        "references beyond both ends of the estimate, octave errors, duplicates "
        "within a frame, windows 0.25/0.5/1. Non-trivial = distinct input with >= 1 "
        "substitution, >= 1 miss and >= 1 false alarm.")
ASSUMPTIONS = [
    "chroma >= raw per frame is judged only when no pitch pair of the frame is "
    "within 1e-9 of the window in raw or mod-12 distance",
    "nearest-frame ties (a reference time exactly between two estimate times) are "
    "skipped",
]


def plan(tier, seed):
    n = 1500 if tier == "quick" else 25000
    return [{"name": "mp-%d" % p, "n": n} for p in range(16)]


def _v(ctx, call, fn, clause, what, extra=None):
    ctx.violation("C18/%s/%s" % (fn, clause), clause, fn, what, call.case(),
                  witness={"fn": fn, "what": what, "args": call.case()["args"],
                           "kwargs": call.case()["kwargs"], "result": call.result,
                           "extra": extra})


def check_14(ctx, call, fn, v):
    v = [float(x) for x in v]
    bad = False
    for off, name in ((0, "raw"), (7, "chroma")):
        p, r, a, es, em, ef, et = v[off:off + 7]
        if abs(et - (es + em + ef)) > TOL:
            _v(ctx, call, fn, "total-not-sum/" + name,
               "%s: E_tot = %r but E_sub + E_miss + E_fa = %r" % (name, et, es + em + ef))
            bad = True
        for nm, x in (("E_sub", es), ("E_miss", em), ("E_fa", ef), ("E_tot", et)):
            if not x >= -TOL:
                _v(ctx, call, fn, "negative-error/" + name, "%s %s = %r < 0" % (name, nm, x))
                bad = True
        if a > min(p, r) + TOL:
            _v(ctx, call, fn, "accuracy-above-min-PR/" + name,
               "%s accuracy %r > min(precision %r, recall %r)" % (name, a, p, r))
            bad = True
    return not bad, (v[3] > 0 and v[4] > 0 and v[5] > 0)


class Frame:
    def __init__(self):
        self.tp = []


def install(ctx, mods):
    mp = mods["multipitch"]
    state = {"tp": None, "resampled": 0}

    def pre_metrics(call):
        state["tp"] = []
        state["resampled"] = 0
        state["resample_args"] = None

    def post_tp(call):
        if call.exc is not None:
            return
        b = call.bound()
        ref, est = b["ref_freqs"], b["est_freqs"]
        tp = np.asarray(call.result, dtype=float)
        ctx.ev()
        ctx.count("contract.compute_num_true_positives")
        if len(ref) != len(est) or tp.shape != (len(ref),):
            return
        nr = np.array([np.size(x) for x in ref])
        ne = np.array([np.size(x) for x in est])
        badf = np.flatnonzero(tp > np.minimum(nr, ne))
        if badf.size:
            i = int(badf[0])
            _v(ctx, call, "multipitch.compute_num_true_positives", "tp-above-min",
               "frame %d: %r true positives for %d reference / %d estimated pitches" % (
                   i, tp[i], nr[i], ne[i]))
        if state["tp"] is not None and call.parent == "multipitch.metrics":
            state["tp"].append((bool(b.get("chroma", False)), tp, ref, est,
                                b.get("window", 0.5)))

    def post_metrics(call):
        tps = state["tp"] or []
        state["tp"] = None
        if call.exc is not None:
            return
        ctx.ev()
        ctx.count("contract.multipitch.metrics")
        v = call.result
        if not isinstance(v, tuple) or len(v) != 14:
            _v(ctx, call, "multipitch.metrics", "arity", "expected a 14-tuple")
            return
        ok, rich = check_14(ctx, call, "multipitch.metrics", v)
        # "when the estimate's time base differs from the reference's it is
        # resampled": judged only when the bases differ by far more than any
        # closeness test could forgive (a tenth of the smallest hop, >= 1 ms)
        try:
            bb = call.bound()
            rt = np.asarray(bb["ref_time"], dtype=float)
            et = np.asarray(bb["est_time"], dtype=float)
        except Exception:
            rt = et = None
        if rt is not None and rt.ndim == 1 and et.ndim == 1 and rt.size and et.size:
            differs = rt.size != et.size
            if not differs and rt.size:
                hop = float(np.min(np.diff(rt))) if rt.size > 1 else 1.0
                differs = float(np.max(np.abs(rt - et))) > max(1e-3, 0.1 * hop) \
                    and float(np.max(np.abs(rt - et))) > 1e-4 * (1 + float(np.max(np.abs(rt))))
            ra = state.get("resample_args") if state["resampled"] else None
            if ra is not None:
                # it is the estimate as given that is resampled, onto the reference times
                ctx.count("contract.resample_called_on_the_given_estimate")
                try:
                    same = np.array_equal(np.asarray(ra[0], dtype=float), et) and \
                        np.array_equal(np.asarray(ra[2], dtype=float), rt) and \
                        len(ra[1]) == len(bb["est_freqs"]) and all(
                            np.array_equal(np.asarray(x, dtype=float),
                                           np.asarray(y, dtype=float))
                            for x, y in zip(ra[1], bb["est_freqs"]))
                except Exception:
                    same = True
                if not same:
                    _v(ctx, call, "multipitch.metrics", "resamples-something-else",
                       "resample_multipitch was called with times %s / target %s, not with "
                       "the estimate's times %s / the reference times %s" % (
                           short(ra[0], 80), short(ra[2], 80), short(et, 80), short(rt, 80)))
            if differs:
                ctx.count("contract.resampled_when_bases_differ")
                if not state["resampled"]:
                    _v(ctx, call, "multipitch.metrics", "time-bases-differ-not-resampled",
                       "reference and estimate time bases differ (sizes %d/%d, max "
                       "difference %r) but resample_multipitch was not called" % (
                           rt.size, et.size,
                           float(np.max(np.abs(rt - et))) if rt.size == et.size else None))
        raw = [t for t in tps if not t[0]]
        chroma = [t for t in tps if t[0]]
        if len(raw) == 1 and len(chroma) == 1:
            ctx.count("contract.chroma_ge_raw")
            _, tr, rr, re_, w = raw[0]
            _, tc, rc, ec, _ = chroma[0]
            for i in np.flatnonzero(tc < tr):
                i = int(i)
                a, b_ = np.asarray(rr[i], dtype=float), np.asarray(re_[i], dtype=float)
                d = np.abs(np.subtract.outer(a, b_))
                am, bm = np.mod(a, 12), np.mod(b_, 12)
                dm = np.abs(np.subtract.outer(am, bm))
                dm = np.minimum(dm, 12 - dm)
                if np.any(np.abs(d - w) < 1e-9) or np.any(np.abs(dm - w) < 1e-9):
                    ctx.count("skipped_near_threshold_frames")
                    continue
                _v(ctx, call, "multipitch.metrics", "chroma-tp-below-raw",
                   "frame %d: chroma TP %r < raw TP %r" % (i, tc[i], tr[i]),
                   extra={"ref_midi": a, "est_midi": b_})
                break
        if rich:
            ctx.nontrivial("mp", call.args[:4], sorted(call.kwargs.items()))
        if ctx.want_sample() and rich and ctx.evaluations % 97 == 0:
            ctx.sample({"fn": "multipitch.metrics", "ref_time": short(call.args[0], 120),
                        "ref_freqs": short(call.args[1], 200),
                        "est_time": short(call.args[2], 120),
                        "est_freqs": short(call.args[3], 200),
                        "result": [round(float(x), 6) for x in v]})

    def post_eval(call):
        if call.exc is not None:
            return
        ctx.ev()
        ctx.count("contract.multipitch.evaluate")
        d = call.result
        keys = ["Precision", "Recall", "Accuracy", "Substitution Error", "Miss Error",
                "False Alarm Error", "Total Error"]
        try:
            v = [d[k] for k in keys] + [d["Chroma " + k] for k in keys]
        except Exception:
            _v(ctx, call, "multipitch.evaluate", "keys", "missing documented keys")
            return
        check_14(ctx, call, "multipitch.evaluate", v)

    def post_acc(call):
        if call.exc is not None:
            return
        ctx.ev()
        ctx.count("contract.compute_accuracy")
        p, r, a = (float(x) for x in call.result)
        if a > min(p, r) + TOL or min(p, r, a) < -TOL or max(p, r, a) > 1 + TOL:
            _v(ctx, call, "multipitch.compute_accuracy", "accuracy-relations",
               "precision %r recall %r accuracy %r" % (p, r, a))

    def post_err(call):
        if call.exc is not None:
            return
        ctx.ev()
        ctx.count("contract.compute_err_score")
        es, em, ef, et = (float(x) for x in call.result)
        if abs(et - (es + em + ef)) > TOL or min(es, em, ef, et) < -TOL:
            _v(ctx, call, "multipitch.compute_err_score", "error-accounting",
               "E_sub %r E_miss %r E_fa %r E_tot %r" % (es, em, ef, et))

    def post_resample(call):
        if call.parent == "multipitch.metrics":
            state["resampled"] += 1
            try:
                state["resample_args"] = call.case()["args"][:3]
            except Exception:
                state["resample_args"] = None
        if call.exc is not None:
            return
        c = call.case()
        times, freqs, target = c["args"][:3]
        times = np.asarray(times, dtype=float)
        target = np.asarray(target, dtype=float)
        out = call.result
        ctx.ev()
        ctx.count("contract.resample_multipitch")
        if times.ndim != 1 or target.ndim != 1 or len(freqs) != times.size or \
                np.any(np.diff(times) < 0) or times.size > 5000:
            ctx.count("unclassified")
            return
        if len(out) != target.size:
            _v(ctx, call, "multipitch.resample_multipitch", "length",
               "%d frames for %d target times" % (len(out), target.size))
            return
        if times.size == 0:
            if any(np.size(f) for f in out):
                _v(ctx, call, "multipitch.resample_multipitch", "empty-source",
                   "non-empty frame from an empty estimate")
            return
        n_out = 0
        for k, t in enumerate(target):
            if t < times[0] or t > times[-1]:
                n_out += 1
                if np.size(out[k]):
                    _v(ctx, call, "multipitch.resample_multipitch", "out-of-range-not-empty",
                       "target time %r is outside [%r, %r] but got frame %r" % (
                           t, times[0], times[-1], out[k]))
                    return
                continue
            d = np.abs(times - t)
            best = float(d.min())
            cands = np.flatnonzero(d <= best + 1e-12)
            vals = {tuple(np.asarray(freqs[j], dtype=float).tolist()) for j in cands}
            near_tie = np.count_nonzero(d <= best + 1e-9) > 1
            got = tuple(np.asarray(out[k], dtype=float).tolist())
            if got not in vals:
                if near_tie:
                    ctx.count("skipped_nearest_ties")
                    continue
                _v(ctx, call, "multipitch.resample_multipitch", "not-nearest",
                   "target time %r got frame %r, nearest estimate time %r holds %r" % (
                       t, got, times[int(cands[0])], sorted(vals)[0]))
                return
        if n_out:
            ctx.count("resample.reference_times_outside_estimate", n_out)

    shim.install(mp, "metrics", pre=pre_metrics, post=post_metrics)
    shim.install(mp, "evaluate", post=post_eval)
    shim.install(mp, "compute_num_true_positives", post=post_tp)
    shim.install(mp, "compute_accuracy", post=post_acc)
    shim.install(mp, "compute_err_score", post=post_err)
    shim.install(mp, "resample_multipitch", post=post_resample)


def run_shard(spec, ctx):
    mods = env.load_repo()
    install(ctx, mods)
    mp = mods["multipitch"]
    r = ctx.rng("mp")
    for i in range(spec["n"]):
        inp = tasks.gen_multipitch(r)
        kw = tasks.draw_params(r, {"window": [0.5, 0.25, 1.0]})
        a = (inp["ref_time"], inp["ref_freqs"], inp["est_time"], inp["est_freqs"])
        ctx.hist("input_class", inp["cls"])
        with warnings.catch_warnings():
            warnings.simplefilter("ignore")
            try:
                if i % 3 == 0:
                    mp.evaluate(*a, **kw)
                else:
                    mp.metrics(*a, **kw)
            except Exception as e:  # noqa: BLE001
                # every generated input is valid: the statement's identities are
                # claimed "for every valid multipitch input", so nothing may be raised
                ctx.count("driver.raised")
                ctx.hist("driver.raised", type(e).__name__)
                ctx.violation("C18/multipitch/raises-on-valid-input/%s" % type(e).__name__,
                              "raises-on-valid-input", "multipitch.metrics",
                              "%s: %s on a valid input (%s)" % (type(e).__name__,
                                                               str(e)[:120], inp["cls"]),
                              {"kind": "call", "fn": "multipitch.metrics", "args": a,
                               "kwargs": kw})
    n, problems = shim.fidelity_report()
    if problems:
        ctx.mark_inconclusive("shim fidelity: %r" % problems[:3])


def replay(case, ctx):
    mods = env.load_repo()
    install(ctx, mods)
    from ..replay import call_again
    call_again(case, mods)


def finalize(m, tier):
    c = m["counters"]
    for k in ("contract.multipitch.metrics", "contract.multipitch.evaluate",
              "contract.compute_num_true_positives", "contract.compute_accuracy",
              "contract.compute_err_score", "contract.resample_multipitch",
              "contract.chroma_ge_raw", "resample.reference_times_outside_estimate",
              "contract.resampled_when_bases_differ"):
        if c.get(k, 0) == 0:
            m["inconclusive"].append("never observed: %s" % k)
