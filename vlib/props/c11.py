"""C11 -- chord comparison rules form the documented lattice."""

import numpy as np

from .. import env, shim, chordgen, tasks
from ..ctx import short
from ..oracles import chord_ref as cr

LEVEL = "exploration"
RULES = tasks.CHORD_CMPS
RULE = ("Post-conditions on the 12 comparison functions (every observed call, "
        "vectorised: one call checks a whole list of pairs): values in {1, 0, -1}; "
        "-1 exactly where an independent vocabulary oracle on my interval-set "
        "encoding of the *reference* label says the rule does not apply (X for all "
        "rules; outside maj/min/N for majmin; outside maj/min/maj7/7/min7/N for "
        "sevenths; bass not a chord tone for the *_inv vocabularies; 0 < |set| < 3 "
        "for mirex). The driver enumerates all ordered pairs of a fixed label "
        "universe (N, X, every shorthand, added/omitted degrees, in/out-of-chord "
        "basses, enharmonic duplicates) through all 12 functions and checks the "
        "implications tetrads_inv => tetrads => triads => thirds => root, *_inv => "
        "plain, majmin => triads, sevenths => tetrads, tetrads match => mirex != 0, "
        "and f(l, l) != 0. Non-trivial = ordered pair of distinct labels on which "
        "at least two rules disagree.")
ASSUMPTIONS = [
    "vocabulary oracle stated on pitch sets exactly as the module documents its "
    "comparisons ('quality through #5', 'entire quality'); for majmin_inv the "
    "docstring's 'bass must exist in the triad' is enforced",
]
EXHAUSTIVE = {"quick": True, "thorough": True}
EXHAUSTIVE_DOMAIN = {
    "quick": "all ordered pairs of a fixed 700-label universe x 12 rules",
    "thorough": "all ordered pairs of a fixed 2200-label universe x 12 rules",
}

IMPLIES = [("tetrads_inv", "tetrads"), ("tetrads", "triads"), ("triads", "thirds"),
           ("thirds", "root"), ("thirds_inv", "thirds"), ("triads_inv", "triads"),
           ("majmin_inv", "majmin"), ("sevenths_inv", "sevenths"),
           ("majmin", "triads"), ("sevenths", "tetrads")]

VOCAB_KEY = {"majmin": "majmin", "majmin_inv": "majmin_inv", "sevenths": "sevenths",
             "sevenths_inv": "sevenths_inv", "mirex": "mirex"}

_vocab_cache = {}


def ref_applies(rule, label):
    v = _vocab_cache.get(label)
    if v is None:
        v = _vocab_cache[label] = cr.vocab(label)
    if v["is_X"]:
        return False
    k = VOCAB_KEY.get(rule)
    return True if k is None else bool(v[k])


def majmin_inv_mech(label):
    """Known finding: maj/min triad with a bass outside the triad is scored."""
    v = _vocab_cache.get(label) or cr.vocab(label)
    if v.get("majmin") and not v.get("majmin_inv") and v.get("majmin_inv_as_coded"):
        return "bass-outside-triad-is-scored"
    return ""


def post_rule(ctx, rule):
    fn = "chord." + rule

    def post(call):
        if call.exc is not None:
            return
        refs, ests = call.args[0], call.args[1]
        ctx.ev()
        ctx.count("contract." + fn)
        ctx.count("origin.internal" if call.parent else "origin.client")
        v = np.asarray(call.result)
        if v.shape != (len(refs),):
            ctx.violation("C11/%s/shape" % fn, "shape", fn,
                          "result shape %s for %d pairs" % (v.shape, len(refs)),
                          call.case())
            return
        ok_vals = np.isin(v, (1.0, 0.0, -1.0))
        if not ok_vals.all():
            i = int(np.flatnonzero(~ok_vals)[0])
            ctx.violation("C11/%s/value-not-in-1-0--1" % fn, "value-set", fn,
                          "%s(%r, %r) = %r" % (fn, refs[i], ests[i], v[i]),
                          {"kind": "pair", "ref": refs[i], "est": ests[i]})
            return
        try:
            applies = np.array([ref_applies(rule, str(l)) for l in refs])
        except cr.InvalidChord:
            ctx.count("unclassified_reference")
            return
        wrong = np.flatnonzero((v == -1) == applies)
        for i in wrong[:1]:
            i = int(i)
            mech = majmin_inv_mech(str(refs[i])) if rule == "majmin_inv" else ""
            ctx.violation("C11/%s/vocabulary%s" % (fn, ("/" + mech) if mech else ""),
                          "vocabulary", fn,
                          "%s(%r, %r) = %r but by the documented vocabulary the "
                          "reference is %s the rule%s" % (
                              fn, refs[i], ests[i], v[i],
                              "inside" if applies[i] else "outside",
                              (" -- " + mech) if mech else ""),
                          {"kind": "pair", "ref": refs[i], "est": ests[i]},
                          witness={"rule": rule, "ref": refs[i], "est": ests[i],
                                   "value": float(v[i])})
    return post


def _encodable(label):
    try:
        cr.encode(label)
        return True
    except cr.InvalidChord:
        return False


def install(ctx, mods):
    for rule in RULES:
        shim.install(mods["chord"], rule, post=post_rule(ctx, rule), snapshot=False)
    shim.install(mods["chord"], "evaluate", post=lambda c: None, snapshot=False)


def plan(tier, seed):
    size = 700 if tier == "quick" else 2200
    parts = 16 if tier == "quick" else 32
    shards = [{"name": "lattice-%d" % p, "kind": "lattice", "size": size, "part": p,
               "parts": parts} for p in range(parts)]
    shards.append({"name": "evaluate", "kind": "evaluate",
                   "n": 600 if tier == "quick" else 8000})
    return shards


def check_block(ctx, mods, ref, ests):
    """All 12 rules on (ref, e) for every e in ests + implication lattice."""
    ch = mods["chord"]
    refs = [ref] * len(ests)
    vals = {}
    for rule in RULES:
        vals[rule] = np.asarray(getattr(ch, rule)(refs, ests))
    for a, b in IMPLIES:
        bad = np.flatnonzero((vals[a] == 1) & (vals[b] != 1))
        for i in bad[:1]:
            i = int(i)
            ctx.violation("C11/chord.%s/implication/%s=>%s" % (a, a, b), "implication",
                          "chord." + a, "%s(%r, %r) = 1 but %s = %r" % (
                              a, ref, ests[i], b, vals[b][i]),
                          {"kind": "pair", "ref": ref, "est": ests[i]})
    bad = np.flatnonzero((vals["tetrads"] == 1) & (vals["mirex"] == 0))
    for i in bad[:1]:
        i = int(i)
        ctx.violation("C11/chord.mirex/implication/tetrads=>mirex!=0", "implication",
                      "chord.mirex", "tetrads(%r, %r) = 1 but mirex = 0" % (ref, ests[i]),
                      {"kind": "pair", "ref": ref, "est": ests[i]})
    # reflexivity
    for i, e in enumerate(ests):
        if e == ref:
            for rule in RULES:
                if vals[rule][i] == 0:
                    ctx.violation("C11/chord.%s/reflexivity" % rule, "reflexivity",
                                  "chord." + rule, "%s(%r, %r) = 0" % (rule, ref, ref),
                                  {"kind": "pair", "ref": ref, "est": ref})
    stack = np.stack([vals[r_] for r_ in RULES])
    disagree = (stack.max(axis=0) != stack.min(axis=0))
    n_nt = int(np.count_nonzero(disagree & np.array([e != ref for e in ests])))
    ctx.nt_disjoint += n_nt
    ctx.count("pairs_checked", len(ests))
    if ctx.want_sample() and n_nt:
        i = int(np.flatnonzero(disagree)[0])
        ctx.sample({"ref": ref, "est": ests[i],
                    "values": {r_: float(vals[r_][i]) for r_ in RULES}})


def run_shard(spec, ctx):
    mods = env.load_repo()
    install(ctx, mods)
    if spec["kind"] == "lattice":
        import random
        uni = chordgen.universe(random.Random(20261002), spec["size"] + 40)
        # the statement quantifies over grammar-valid, *encodable* labels
        uni = [l for l in uni if _encodable(l)][:spec["size"]]
        ctx.count("universe_size", len(uni) if spec["part"] == 0 else 0)
        for i, ref in enumerate(uni):
            if i % spec["parts"] != spec["part"]:
                continue
            check_block(ctx, mods, ref, uni)
    else:
        r = ctx.rng("evaluate")
        import warnings
        for _ in range(spec["n"]):
            c = tasks.gen_chord(r)
            try:
                with warnings.catch_warnings():
                    warnings.simplefilter("ignore")
                    mods["chord"].evaluate(c["ref_iv"], c["ref_lab"], c["est_iv"],
                                           c["est_lab"])
            except Exception:
                ctx.count("driver.raised")


def replay(case, ctx):
    mods = env.load_repo()
    install(ctx, mods)
    if case.get("kind") == "pair":
        check_block(ctx, mods, case["ref"], [case["est"], case["ref"]])
    else:
        from ..replay import call_again
        call_again(case, mods)


def finalize(m, tier):
    c = m["counters"]
    for rule in RULES:
        if c.get("contract.chord." + rule, 0) == 0:
            m["inconclusive"].append("contract chord.%s never evaluated" % rule)
    if c.get("origin.internal", 0) == 0:
        m["inconclusive"].append("no internal comparison call observed")
