"""C10 -- chord labels: total parsing, sound encoding, split/join round trip."""

import itertools

import numpy as np

from .. import env, shim, chordgen
from ..ctx import short
from ..oracles import chord_ref as cr

LEVEL = "exploration"
RULE = ("For every string of the workload the real validate_chord_label, split, "
        "join, encode (all four flag combinations) and encode_many are executed "
        "and observed: (a) nothing but InvalidChordException may be raised; (b) "
        "acceptance must coincide with a hand-written recursive-descent recogniser "
        "of the documented Harte syntax; (c) every accepted, encodable label must "
        "encode to root 0..11, a 12-element 0/1 bitmap containing the bass, bass "
        "0..11, equal to an independent interval-set encoder; (d) join(*split(s)) "
        "must encode identically; (e) N and X map to their sentinels. A post-hook "
        "on chord.encode checks internal calls too. Workload: the bounded grammar "
        "enumerated exhaustively (roots x shorthands x degree lists x basses), "
        "grammar-aware mutations and random strings. Non-trivial = distinct label "
        "with a quality, degree list or bass (not a bare root).")
ASSUMPTIONS = [
    "the reference recogniser/encoder in vlib/oracles/chord_ref.py (no regular "
    "expressions, interval sets; cross-checked on 5.9 M labels) states the "
    "documented grammar and encoding rules",
    "the round trip is not demanded for 'X' (split documents no parts for it)",
]
EXHAUSTIVE = {"quick": False, "thorough": False}
EXHAUSTIVE_DOMAIN = {
    "quick": "grammar slice enumerated exhaustively: 35 root spellings x (none + 26 "
             "shorthands) x (none + 12 core degrees + 3 omissions) x 8 basses",
    "thorough": "bounded grammar enumerated exhaustively: 35 root spellings x (none + "
                "26 shorthands) x (none, every single degree with <= 2 accidentals "
                "with/without '*', all ordered pairs over a 12-degree core, sampled "
                "omission pairs) x (none, 13 plain, 10 altered basses)",
}

FLAGS = [(False, False), (False, True), (True, False), (True, True)]


def plan(tier, seed):
    if tier == "quick":
        parts = 10
        shards = [{"name": "grammar-%d" % p, "kind": "grammar", "part": p,
                   "parts": parts, "n_roots": 35, "deg": "core", "bass": "core"}
                  for p in range(parts)]
        shards += [{"name": "mutate-%d" % p, "kind": "mutate", "n": 25000}
                   for p in range(6)]
    else:
        parts = 32
        shards = [{"name": "grammar-%d" % p, "kind": "grammar", "part": p,
                   "parts": parts, "n_roots": 35, "deg": "full", "bass": "full"}
                  for p in range(parts)]
        shards += [{"name": "mutate-%d" % p, "kind": "mutate", "n": 125000}
                   for p in range(16)]
    return shards


def _viol(ctx, site, clause, what, s, mech="", extra=None):
    key = "C10/%s/%s%s" % (site, clause, ("/" + mech) if mech else "")
    ctx.violation(key, clause, site, what + ((" -- " + mech) if mech else ""),
                  {"kind": "label", "label": s},
                  witness={"label": s, "what": what, "extra": extra})


def _try(ctx, exc_cls, site, s, f, *a, **k):
    """Run a real chord function; returns (ok, value-or-exception)."""
    try:
        return True, f(*a, **k)
    except exc_cls as e:
        return False, e
    except Exception as e:  # noqa: BLE001 - (a): anything else is a violation
        _viol(ctx, site, "unexpected-exception-type",
              "%s(%r) raised %s: %s" % (site, s, type(e).__name__, str(e)[:100]), s,
              extra=type(e).__name__)
        return False, e


def _enc_tuple(enc):
    root, bm, bass = enc
    return int(root), tuple(int(x) for x in np.asarray(bm).tolist()), int(bass)


def check_label(ctx, mods, s):
    ch = mods["chord"]
    ICE = ch.InvalidChordException
    ctx.ev()
    want = cr.recognise(s)
    # (a)+(b) acceptance
    ok, _ = _try(ctx, ICE, "chord.validate_chord_label", s, ch.validate_chord_label, s)
    if ok != want:
        mech = ""
        if ok and not want and s.endswith("\n") and cr.recognise(s[:-1]):
            mech = "trailing-newline"
        _viol(ctx, "chord.validate_chord_label",
              "accepts-outside-grammar" if ok else "rejects-grammatical-label",
              "validate_chord_label(%r) %s but the documented grammar %s it" % (
                  s, "accepts" if ok else "rejects", "derives" if want else
                  "does not derive"), s, mech)
    ctx.count("accepted" if ok else "rejected")
    # split for both flags: only the exception type is judged for arbitrary strings
    parts = {}
    for red in (False, True):
        ok_s, val = _try(ctx, ICE, "chord.split", s, ch.split, s, red)
        if ok_s:
            parts[red] = val
    # encode for all four flag combinations
    encs = {}
    for red, strict in FLAGS:
        ok_e, val = _try(ctx, ICE, "chord.encode", s, ch.encode, s, red, strict)
        if ok_e:
            encs[(red, strict)] = val
    if (False, False) not in encs:
        # a label encode() rejects must not slip through the batch encoder
        ok_m, many = _try(ctx, ICE, "chord.encode_many", s, ch.encode_many, [s])
        ctx.count("contract.encode_many_rejects")
        if ok_m:
            _viol(ctx, "chord.encode_many", "accepts-what-encode-rejects",
                  "encode(%r) raises InvalidChordException but encode_many([%r]) returns "
                  "%r" % (s, s, short(many, 120)), s)
    if not want:
        return
    nt = (":" in s or "(" in s or "/" in s)
    if nt:
        ctx.nontrivial(s)
    for red, strict in FLAGS:
        try:
            ref = cr.encode(s, red, strict)
            ref_ok = True
        except cr.InvalidChord:
            ref, ref_ok = None, False
        got = encs.get((red, strict))
        if ref_ok != (got is not None):
            _viol(ctx, "chord.encode", "encodability",
                  "encode(%r, reduce=%s, strict_bass=%s) %s but the reference encoder "
                  "%s" % (s, red, strict, "returns" if got is not None else "raises",
                          "encodes it" if ref_ok else "rejects it"), s)
            continue
        if not ref_ok:
            ctx.count("accepted_but_unencodable")
            continue
        g = _enc_tuple(got)
        ctx.count("contract.encode_compared")
        if s in ("N", "X"):
            # (e) sentinels
            exp = (-1, (0,) * 12, -1) if s == "N" else (-1, (-1,) * 12, -1)
            if g != exp:
                _viol(ctx, "chord.encode", "sentinel", "%r encodes to %r" % (s, g), s)
            continue
        root, bm, bass = g
        # (c) structural soundness
        if not (0 <= root <= 11) or not (0 <= bass <= 11) or len(bm) != 12 or \
                any(b not in (0, 1) for b in bm) or bm[bass] != 1:
            _viol(ctx, "chord.encode", "unsound-encoding",
                  "encode(%r, %s, %s) = %r is not (root 0..11, 12 x 0/1 containing the "
                  "bass, bass 0..11)" % (s, red, strict, g), s)
        if g != (ref[0], tuple(ref[1]), ref[2]):
            _viol(ctx, "chord.encode", "differs-from-reference",
                  "encode(%r, reduce=%s, strict_bass=%s) = %r, documented rules give "
                  "%r" % (s, red, strict, g, ref), s)
    # (d) split/join round trip
    if s != "X" and False in parts:
        ok_j, joined = _try(ctx, ICE, "chord.join", s, ch.join, *parts[False])
        if not ok_j:
            _viol(ctx, "chord.join", "roundtrip-raises",
                  "join(*split(%r)) raises %s" % (s, type(joined).__name__), s)
        else:
            ctx.count("contract.roundtrip")
            for red, strict in FLAGS:
                a = encs.get((red, strict))
                okb, b = _try(ctx, ICE, "chord.encode", joined, ch.encode, joined, red,
                              strict)
                if (a is None) != (not okb):
                    _viol(ctx, "chord.join", "roundtrip-encodability",
                          "encode(join(*split(%r))) and encode(%r) disagree on "
                          "raising" % (s, s), s)
                elif a is not None and _enc_tuple(a) != _enc_tuple(b):
                    _viol(ctx, "chord.join", "roundtrip-encoding",
                          "join(*split(%r)) = %r encodes to %r, original %r" % (
                              s, joined, _enc_tuple(b), _enc_tuple(a)), s)
    # encode_many agrees with encode
    if (False, False) in encs:
        ok_m, many = _try(ctx, ICE, "chord.encode_many", s, ch.encode_many, [s, s])
        if ok_m:
            g = _enc_tuple(encs[(False, False)])
            for i in (0, 1):
                m = (int(many[0][i]), tuple(int(x) for x in many[1][i]), int(many[2][i]))
                if m != g:
                    _viol(ctx, "chord.encode_many", "differs-from-encode",
                          "encode_many([%r])[%d] = %r, encode gives %r" % (s, i, m, g), s)
    if ctx.want_sample() and nt and ctx.evaluations % 997 == 0 and (False, False) in encs:
        ctx.sample({"label": s, "encode": _enc_tuple(encs[(False, False)]),
                    "split": short(parts.get(False), 120)})


def post_encode(ctx):
    """Internal calls of chord.encode (from encode_many / comparisons)."""
    def post(call):
        if call.parent is None:
            return
        s = call.args[0]
        if not isinstance(s, str) or call.exc is not None:
            return
        ctx.count("contract.encode_internal")
    return post


def run_shard(spec, ctx):
    mods = env.load_repo()
    r = ctx.rng(spec["kind"])
    if spec["kind"] == "grammar":
        it = chordgen.enumerate_labels(spec["n_roots"], spec["deg"], spec["bass"])
        n = 0
        for i, s in enumerate(it):
            if i % spec["parts"] != spec["part"]:
                continue
            check_label(ctx, mods, s)
            n += 1
        ctx.count("grammar_labels_enumerated", n)
    else:
        n = spec["n"]
        for i in range(n):
            u = r.random()
            if u < 0.55:
                s = chordgen.mutate(r, chordgen.random_label(r, encodable_only=False))
            elif u < 0.7:
                s = "".join(r.choice(chordgen.MUT_CHARS)
                            for _ in range(r.randrange(0, 9)))
            elif u < 0.8:
                s = chordgen.random_label(r, False) + r.choice(["\n", " ", "\t", "\r\n"])
            else:
                s = chordgen.random_label(r, encodable_only=False)
            check_label(ctx, mods, s)
        ctx.count("mutated_or_random_strings", n)


def replay(case, ctx):
    mods = env.load_repo()
    check_label(ctx, mods, case["label"])


def finalize(m, tier):
    c = m["counters"]
    for k in ("contract.encode_compared", "contract.roundtrip", "accepted", "rejected",
              "accepted_but_unencodable"):
        if c.get(k, 0) == 0:
            m["inconclusive"].append("never observed: %s" % k)
