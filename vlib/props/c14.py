"""C14 -- valid annotations are always scored; malformed ones are rejected
cleanly."""

import numpy as np

from .. import env, shim, workloads, faults, tasks
from ..ctx import short
from ..replay import resolve

LEVEL = "fault_enumeration"
RULE = ("Outcome monitor at the client boundary of every public metric function "
        "and evaluate(): (valid half) seeded valid inputs of every shape the "
        "statement lists must return; (invalid half) every applicable single, "
        "named fault from the statement's catalogue (vlib/faults.py, 26 fault "
        "classes) applied to a valid input must raise ValueError "
        "(InvalidChordException for chord labels) and nothing else. Non-trivial = "
        "distinct (entry point, fault class or input class, arguments).")
ASSUMPTIONS = [
    "validity is my statement of the documented conventions (vlib/tasks.py); "
    "each fault goes only to entry points whose validator documents the check",
    "warnings are not errors",
]


def plan(tier, seed):
    nv = 700 if tier == "quick" else 10000
    nf = 250 if tier == "quick" else 3500
    shards = [{"name": "valid-%d" % p, "kind": "valid", "n": nv} for p in range(8)]
    shards += [{"name": "faults-%d" % p, "kind": "faults", "n": nf} for p in range(8)]
    return shards


# ---- mechanism predicates for witnesses of the valid half ---------------

def _one_frame_or_unit_window(fn, args, kw):
    try:
        fs = kw.get("frame_size", 0.1)
        w = kw.get("window", 15.0)
        ivs = args[0]
        span = max(float(np.max(iv)) for iv in ivs) - min(float(np.min(iv)) for iv in ivs)
        nfr = int(span // fs)
        if nfr <= 2:
            return True
        if w is not None and fn != "hierarchy.lmeasure" and int(w // fs) <= 1:
            return True
    except Exception:
        pass
    return False


def valid_mechanism(fn, args, kw, exc):
    name = type(exc).__name__
    msg = str(exc)
    try:
        if fn.startswith("hierarchy.") and name == "IndexError":
            if _one_frame_or_unit_window(fn, args, kw):
                return "single-frame-query-window"
        if fn in ("beat.p_score", "beat.evaluate") and name == "ValueError" and \
                "NaN" in msg:
            ref = np.asarray(args[0], dtype=float)
            if fn == "beat.evaluate":
                ref = ref[ref >= kw.get("min_beat_time", 5.0)]
            if ref.size >= 2 and (ref.max() - ref.min()) < 0.0101:
                return "all-reference-beats-within-one-10ms-bin"
        if fn == "melody.evaluate" and name == "IndexError":
            if np.asarray(args[0]).size == 0 or np.asarray(args[2]).size == 0:
                return "empty-time-series"
    except Exception:
        pass
    return ""


def on_exc_valid(ctx):
    def on_exc(fn, args, kw, e, cls):
        mech = valid_mechanism(fn, args, kw, e)
        key = "C14/%s/raises-on-valid-input/%s%s" % (
            fn, type(e).__name__, ("/" + mech) if mech else "")
        ctx.violation(key, "raises-on-valid-input", fn,
                      "%s raised %s(%s) on a valid input of class %r%s" % (
                          fn, type(e).__name__, str(e)[:120], cls,
                          (" -- " + mech) if mech else ""),
                      {"kind": "valid", "fn": fn, "args": args, "kwargs": kw},
                      witness={"fn": fn, "args": args, "kwargs": kw,
                               "exception": "%s: %s" % (type(e).__name__, str(e)[:200])})
    return on_exc


def on_ret_valid(ctx):
    def on_ret(fn, args, kw, res, cls):
        ctx.ev()
        ctx.hist("valid.returned", fn)
        ctx.nontrivial("valid", fn, cls)
        if ctx.want_sample() and ctx.evaluations % 211 == 0:
            ctx.sample({"half": "valid", "fn": fn, "input_class": cls,
                        "args": short(args, 240), "outcome": "returned"})
    return on_ret


# ---- invalid half -----------------------------------------------------------

def fault_mechanism(fn, fault, outcome):
    if fn == "beat.evaluate" and fault == "events-multidimensional":
        return "trim-mask-flattens-before-validation"
    if fn.startswith("multipitch.") and fault == "frequency-negative":
        return "abs-applied-in-range-test"
    return ""


def run_fault_case(ctx, mods, fault, expected, fn, args, kw):
    f = resolve(fn, mods)
    ctx.count("fault.calls")
    import warnings
    try:
        with warnings.catch_warnings():
            warnings.simplefilter("ignore")
            res = f(*args, **kw)
        outcome = "returned"
        detail = short(res, 160)
    except Exception as e:  # noqa: BLE001
        tn = type(e).__name__
        ok = tn == expected or (expected == "ValueError" and isinstance(e, ValueError))
        if expected == "InvalidChordException":
            ok = tn == "InvalidChordException"
        outcome = "rejected" if ok else "raised-" + tn
        detail = "%s: %s" % (tn, str(e)[:160])
    ctx.ev()
    ctx.hist("fault_matrix", "%s | %s | %s" % (fault, fn, outcome))
    ctx.nontrivial("fault", fault, fn)
    if outcome != "rejected":
        mech = fault_mechanism(fn, fault, outcome)
        clause = "accepted" if outcome == "returned" else "wrong-exception-type"
        key = "C14/%s/%s/%s%s" % (fn, clause, fault, ("/" + mech) if mech else "")
        ctx.violation(key, clause, fn,
                      "%s with fault '%s' %s (%s); documented: raise %s%s" % (
                          fn, fault, outcome, detail, expected,
                          (" -- " + mech) if mech else ""),
                      {"kind": "fault", "fault": fault, "expected": expected,
                       "fn": fn, "args": args, "kwargs": kw},
                      witness={"fn": fn, "fault": fault, "args": args, "kwargs": kw,
                               "outcome": outcome, "detail": detail})
    elif ctx.want_sample() and ctx.evaluations % 173 == 0:
        ctx.sample({"half": "invalid", "fault": fault, "fn": fn,
                    "args": short(args, 240), "outcome": detail})


def run_shard(spec, ctx):
    mods = env.load_repo()
    r = ctx.rng(spec["kind"])
    if spec["kind"] == "valid":
        workloads.run_valid(ctx, mods, spec["n"], r, on_exc=on_exc_valid(ctx),
                            on_ret=on_ret_valid(ctx))
        _extra_valid(ctx, mods, r, spec["n"] // 10)
    else:
        names = list(faults.FAULTS)
        tn = tasks.TASK_NAMES
        for i in range(spec["n"]):
            # a valid evaluate() of some task between faults: rejection must not
            # depend on what was scored before
            t = tasks.TASKS[tn[r.randrange(len(tn))]]
            a, kw = t.evaluate(t.gen_eval(r), r)
            workloads.run_calls(ctx, mods, [(t.name + ".evaluate", a, kw)],
                                on_exc_valid(ctx), None, "interleaved")
            fault = names[i % len(names)]
            expected, make = faults.FAULTS[fault]
            for fn, args, kw in make(r, tasks):
                run_fault_case(ctx, mods, fault, expected, fn, args, kw)


def _extra_valid(ctx, mods, r, n):
    """Valid shapes the per-task generators do not produce: empty melody
    series; hierarchy settings at the edge of the documented range."""
    calls = []
    e = np.array([])
    for _ in range(max(1, n)):
        m = tasks.gen_melody(r)
        which = r.choice(["ref", "est", "both"])
        a = [m["ref_time"], m["ref_freq"], m["est_time"], m["est_freq"]]
        if which in ("ref", "both"):
            a[0], a[1] = e, e
        if which in ("est", "both"):
            a[2], a[3] = e, e
        calls.append(("melody.evaluate", tuple(a), {}))
        h = tasks.gen_hierarchy(r)
        fs = r.choice([0.5, 1.0])
        calls.append(("hierarchy.tmeasure", (h["ref_ivs"], h["est_ivs"]),
                      {"frame_size": fs, "window": fs}))
    workloads.run_calls(ctx, mods, calls, on_exc_valid(ctx), on_ret_valid(ctx),
                        "edge")


def replay(case, ctx):
    mods = env.load_repo()
    if case["kind"] == "valid":
        workloads.run_calls(ctx, mods, [(case["fn"], case["args"], case["kwargs"])],
                            on_exc_valid(ctx), on_ret_valid(ctx), "replay")
    else:
        run_fault_case(ctx, mods, case["fault"], case["expected"], case["fn"],
                       case["args"], case["kwargs"])


def finalize(m, tier):
    h = m["hists"].get("fault_matrix", {})
    seen = {k.split(" | ")[0] for k in h}
    missing = [f for f in faults.FAULTS if f not in seen]
    if missing:
        m["inconclusive"].append("fault classes never exercised: %s" % missing)
