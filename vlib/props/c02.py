"""C02 -- a perfect estimate receives the perfect score in every task."""

import copy

import numpy as np

from .. import env, gen, tasks, chordgen
from ..ctx import short
from ..evlog import EventLog, close_enough, flat

Q = gen.Q
LEVEL = "exploration"
TOL = 1e-9
RULE = ("For seeded valid, non-degenerate annotations x (per the statement's and "
        "each docstring's defined-ness conditions) every metric function and "
        "evaluate() is executed on (x, deepcopy(x)) under all parameter settings "
        "(strict with window > 0, trim, transitive, window=None, marginal, beta, "
        "hop); each call is recorded in an event log and an offline checker "
        "compares every recorded value with the optimum table (1 for agreement "
        "scores, 0 for error/deviation scores, H(x) for mutual information, the "
        "documented 0 for NCE/V when a single label and for chord rules with "
        "nothing comparable). Non-trivial = distinct x with >= 3 items and >= 2 "
        "distinct labels/pitches where applicable.")
ASSUMPTIONS = [
    "non-degeneracy predicates are the statement's: >= 5 well-separated beats, >= 1 "
    "voiced frame, >= 1 in-gamut chord, <= n patterns, both reference tempi > 0, "
    ">= 2 distinct timestamps for MIREX PCS, a label covering >= 2 frames for "
    "pairwise/AMI, a refined level for T-/L-measures, notes pairwise unmatchable",
    "alignment.karaoke_perceptual_metric is excluded (documented not 1 at 0)",
]


def plan(tier, seed):
    n = 220 if tier == "quick" else 4000
    return [{"name": "perfect-%d" % p, "n": n} for p in range(16)]


# ----------------------------------------------------------------------
# Each generator returns a list of (fn, args_builder(x_copy), kwargs, expect)
# where expect is a (possibly nested) structure of optimum values; None means
# "not judged" for that component.

def beats(r):
    n = r.randrange(5, 16)
    step = r.choice([32, 40, 48, 64])
    start = 5 * 64 + 2 + r.randrange(0, 64)
    j = r.choice([0, 0, 1, 2])
    xs = [(start + i * step + (r.randrange(-j, j + 1) if j else 0)) / Q
          for i in range(n)]
    return np.array(xs)


def cases_beat(r):
    x = beats(r)
    y = copy.deepcopy(x)
    kw = tasks.draw_params
    out = [
        ("beat.f_measure", (x, y), kw(r, tasks.BEAT_PARAMS["f_measure"]), 1.0),
        ("beat.cemgil", (x, y), kw(r, {"cemgil_sigma": [0.04, 1 / 32]}), [1.0, 1.0]),
        ("beat.goto", (x, y), kw(r, tasks.BEAT_PARAMS["goto"]), 1.0),
        # (windows of half a beat and more make the score of a copy exceed 1: the
        # statement's "well-separated beats" condition)
        ("beat.p_score", (x, y), kw(r, {"p_score_threshold": [0.2, 0.25, 0.125]}), 1.0),
        ("beat.continuity", (x, y), kw(r, tasks.BEAT_PARAMS["continuity"]), [1.0] * 4),
        ("beat.information_gain", (x, y), kw(r, {"bins": [41, 21, 5, 11]}), 1.0),
        ("beat.evaluate", (x, y), {}, {
            "F-measure": 1.0, "Cemgil": 1.0, "Cemgil Best Metric Level": 1.0,
            "Goto": 1.0, "P-score": 1.0, "Correct Metric Level Continuous": 1.0,
            "Correct Metric Level Total": 1.0, "Any Metric Level Continuous": 1.0,
            "Any Metric Level Total": 1.0, "Information gain": 1.0}),
    ]
    if r.random() < 0.25:
        # evaluate() with a non-default trim time, beats below 5 s included
        v = r.choice([0.0, 2.0, 3.5])
        d = float(x[1] - x[0])
        pre = []
        t0 = float(x[0]) - d
        while t0 >= v + 0.25 and len(pre) < 8:
            pre.append(t0)
            t0 -= d
        x2 = np.array(sorted(pre) + x.tolist())
        out.append(("beat.evaluate", (x2, x2.copy()), {"min_beat_time": v}, {
            "F-measure": 1.0, "Cemgil": 1.0, "Cemgil Best Metric Level": 1.0,
            "P-score": 1.0, "Correct Metric Level Continuous": 1.0,
            "Correct Metric Level Total": 1.0, "Any Metric Level Continuous": 1.0,
            "Any Metric Level Total": 1.0, "Information gain": 1.0}))
    if r.random() < 0.1:
        # one or two beats: F-measure and Cemgil are defined (and perfect) already
        a0 = r.randrange(5 * 64, 40 * 64)
        x = np.array([a0] + ([a0 + r.randrange(32, 256)] if r.random() < 0.5 else [])) / 64.0
        y = x.copy()
        out = [("beat.f_measure", (x, y), kw(r, tasks.BEAT_PARAMS["f_measure"]), 1.0),
               ("beat.cemgil", (x, y), kw(r, {"cemgil_sigma": [0.04, 1 / 32]}), [1.0, 1.0]),
               ("beat.evaluate", (x, y), {}, {"F-measure": 1.0, "Cemgil": 1.0,
                                              "Cemgil Best Metric Level": 1.0})]
        return out, ("beat-few", x), False
    return out, ("beat", x), len(x) >= 3


def cases_onset(r):
    x = gen.events(r, kind=r.choice(["single", "two", "regular", "jitter", "dups",
                                     "cluster", "random"]))
    y = x.copy()
    kw = tasks.draw_params(r, {"window": [0.05, 1 / 32, 1 / 8, 1 / 64]})
    return [("onset.f_measure", (x, y), kw, [1.0, 1.0, 1.0]),
            ("onset.evaluate", (x, y), kw,
             {"F-measure": 1.0, "Precision": 1.0, "Recall": 1.0})], ("onset", x), \
        len(x) >= 3


def _entropy_nats(labels):
    from math import log
    n = len(labels)
    c = {}
    for l in labels:
        c[l] = c.get(l, 0) + 1
    return -sum(v / n * log(v / n) for v in c.values())


def cases_segment(r):
    from ..oracles import frames as ofr
    fs = r.choice([0.5, 0.25, 1.0])
    total = r.randrange(4, 40) * 64
    iv, lab = gen.segmentation(r, total=total, min_len=64)
    if r.random() < 0.15:
        # one frame per segment, all labels distinct (every frame its own cluster)
        fr = int(round(fs * Q))
        k = r.randrange(2, 9)
        iv = np.array([[i * fr / Q, (i + 1) * fr / Q] for i in range(k)])
        lab = ["u%d" % i for i in range(k)]
    y_iv, y_lab = iv.copy(), list(lab)
    fl = ofr.fold(ofr.label_at_samples(iv, lab, fs)[0])
    nlab = len(set(fl))
    counts = {}
    for l in fl:
        counts[l] = counts.get(l, 0) + 1
    has_pair = any(v >= 2 for v in counts.values())
    four = (iv, lab, y_iv, y_lab)
    beta = r.choice([1.0, 0.5, 2.0])
    trim = r.random() < 0.5
    nb = len(iv) + 1 - (2 if trim else 0)
    out = []
    out.append(("segment.detection", (iv, y_iv),
                {"window": r.choice([0.5, 3.0, 1 / 64]), "beta": beta, "trim": trim},
                [1.0, 1.0, 1.0] if nb > 0 else [0.0, 0.0, 0.0]))
    out.append(("segment.deviation", (iv, y_iv), {"trim": trim},
                [0.0, 0.0] if nb > 0 else [float("nan")] * 2))
    if has_pair:
        out.append(("segment.pairwise", four, {"frame_size": fs, "beta": beta},
                    [1.0, 1.0, 1.0]))
    out.append(("segment.rand_index", four, {"frame_size": fs}, 1.0))
    out.append(("segment.ari", four, {"frame_size": fs}, 1.0))
    h = _entropy_nats(fl)
    out.append(("segment.mutual_information", four, {"frame_size": fs},
                [h, 1.0 if has_pair else None, 1.0]))
    one = 1.0 if nlab > 1 else 0.0
    for marg in (False, True):
        out.append(("segment.nce", four, {"frame_size": fs, "beta": beta,
                                          "marginal": marg}, [one, one, one]))
    out.append(("segment.vmeasure", four, {"frame_size": fs, "beta": beta},
                [one, one, one]))
    exp = {"Precision@0.5": 1.0, "Recall@0.5": 1.0, "F-measure@0.5": 1.0,
           "Precision@3.0": 1.0, "Recall@3.0": 1.0, "F-measure@3.0": 1.0,
           "Ref-to-est deviation": 0.0, "Est-to-ref deviation": 0.0,
           "Rand Index": 1.0, "Adjusted Rand Index": 1.0, "Mutual Information": h,
           "Normalized Mutual Information": 1.0, "NCE Over": one, "NCE Under": one,
           "NCE F-measure": one, "V Precision": one, "V Recall": one,
           "V-measure": one}
    if has_pair:
        exp.update({"Pairwise Precision": 1.0, "Pairwise Recall": 1.0,
                    "Pairwise F-measure": 1.0, "Adjusted Mutual Information": 1.0})
    out.append(("segment.evaluate", four, {"frame_size": fs}, exp))
    return out, ("segment", iv, lab), len(iv) >= 3 and nlab >= 2


def cases_chord(r):
    n = r.randrange(1, 9)
    iv, _ = gen.segmentation(r, n=n, start=r.choice([0, 0, 32, 640]))
    lab = [chordgen.random_label(r) for _ in range(len(iv))]
    y_iv, y_lab = iv.copy(), list(lab)
    out = [("chord.evaluate", (iv, lab, y_iv, y_lab), {}, "CHORD-PERFECT")]
    # segmentation scores of an annotation with un-annotated gaps against itself
    g = gen.gapped_intervals(r)
    out += [("chord.overseg", (g, g.copy()), {}, 1.0),
            ("chord.underseg", (g, g.copy()), {}, 1.0),
            ("chord.seg", (g, g.copy()), {}, 1.0)]
    return out, ("chord", iv, lab), len(iv) >= 3 and len(set(lab)) >= 2


def cases_melody(r):
    inp = tasks.gen_melody(r)
    t, f = inp["ref_time"], inp["ref_freq"]
    if not np.any(f > 0):
        f = f.copy()
        f[0] = 220.0
    kw = tasks.draw_params(r, {"cent_tolerance": [50, 25, 100],
                               "hop": [None, 1 / 64, 1 / 32]}, 0.6)
    if kw.get("hop") is not None and not f[0] > 0:
        # ">= 1 voiced frame" must hold on the resampled time base too: the grid
        # point 0 takes the (zero-order-hold) voicing of the first frame
        f = f.copy()
        f[0] = abs(f[0]) if f[0] != 0 else 220.0
    exp = {"Voicing Recall": 1.0, "Voicing False Alarm": 0.0,
           "Raw Pitch Accuracy": 1.0, "Raw Chroma Accuracy": 1.0,
           "Overall Accuracy": 1.0}
    out = [("melody.evaluate", (t, f, t.copy(), f.copy()), kw, exp)]
    # the same copy with its (binary) voicing passed explicitly
    out.append(("melody.evaluate", (t, f, t.copy(), f.copy(), (f > 0).astype(float)), kw,
                exp))
    rv, rc, _, _ = tasks.gen_melody_frames(r)
    if len(rv) and rv.sum() > 0 and set(rv.tolist()) <= {0.0, 1.0}:
        rc = np.where(rc == 0, 4800.0, rc)
        out += [
            ("melody.voicing_measures", (rv, rv.copy()), {}, [1.0, 0.0]),
            ("melody.raw_pitch_accuracy", (rv, rc, rv.copy(), rc.copy()), {}, 1.0),
            ("melody.raw_chroma_accuracy", (rv, rc, rv.copy(), rc.copy()), {}, 1.0),
            ("melody.overall_accuracy", (rv, rc, rv.copy(), rc.copy()), {}, 1.0),
        ]
    return out, ("melody", t, f), len(t) >= 3 and len(set(np.abs(f).tolist())) >= 2


def cases_multipitch(r):
    t, fr = gen.multipitch(r, n_frames=r.randrange(1, 12))
    if not any(f.size for f in fr):
        fr[0] = np.array([440.0])
    if len(t) >= 2 and r.random() < 0.2:
        # two consecutive frames sharing a time stamp (stamps rounded to few
        # decimals): valid, and a copy must still be scored frame by frame
        k = r.randrange(1, len(t))
        t = t.copy()
        t[k] = t[k - 1]
    y = [f.copy() for f in fr]
    kw = tasks.draw_params(r, {"window": [0.5, 0.25, 1.0]})
    exp = [1.0, 1.0, 1.0, 0.0, 0.0, 0.0, 0.0] * 2
    keys = ["Precision", "Recall", "Accuracy", "Substitution Error", "Miss Error",
            "False Alarm Error", "Total Error"]
    d = {}
    for k, v in zip(keys, exp[:7]):
        d[k] = v
        d["Chroma " + k] = v
    return [("multipitch.metrics", (t, fr, t.copy(), y), kw, exp),
            ("multipitch.evaluate", (t, fr, t.copy(), y), kw, d)], \
        ("multipitch", t, fr), len(t) >= 3


def distinct_notes(r):
    n = r.randrange(1, 10)
    midis = r.sample(range(40, 90), n)  # >= 1 semitone apart: cross pairs infeasible
    iv = []
    for _ in range(n):
        a = r.randrange(0, 640)
        iv.append([a / Q, (a + r.randrange(2, 129)) / Q])
    return (np.array(iv), gen.midi_to_hz(midis),
            np.array([float(r.randrange(0, 128)) for _ in range(n)]))


def cases_transcription(r):
    iv, hz, vel = distinct_notes(r)
    strict = r.random() < 0.5
    kw = {"strict": strict}
    kw.update(tasks.draw_params(r, {"onset_tolerance": [0.05, 1 / 32],
                                    "offset_ratio": [0.2, 0.25, None],
                                    "offset_min_tolerance": [0.05, 1 / 32],
                                    "beta": [1.0, 2.0]}))
    a4 = (iv, hz, iv.copy(), hz.copy())
    a6 = (iv, hz, vel, iv.copy(), hz.copy(), vel.copy())
    on = {k: v for k, v in kw.items() if k in ("onset_tolerance", "strict", "beta")}
    out = [
        ("transcription.precision_recall_f1_overlap", a4, kw, [1.0] * 4),
        ("transcription_velocity.precision_recall_f1_overlap", a6, kw, [1.0] * 4),
    ]
    # onset-only / offset-only matching ignores pitch: identity is still a
    # feasible perfect matching, so P = R = F = 1
    out.append(("transcription.onset_precision_recall_f1", (iv, iv.copy()), on,
                [1.0] * 3))
    if kw.get("offset_ratio", 0.2) is not None:
        off = {k: v for k, v in kw.items() if k in ("offset_ratio",
                                                     "offset_min_tolerance", "strict",
                                                     "beta")}
        out.append(("transcription.offset_precision_recall_f1", (iv, iv.copy()), off,
                    [1.0] * 3))
        ekw = dict(kw)
        keys = ["Precision", "Recall", "F-measure", "Average_Overlap_Ratio",
                "Precision_no_offset", "Recall_no_offset", "F-measure_no_offset",
                "Average_Overlap_Ratio_no_offset", "Onset_Precision", "Onset_Recall",
                "Onset_F-measure", "Offset_Precision", "Offset_Recall",
                "Offset_F-measure"]
        out.append(("transcription.evaluate", a4, ekw, {k: 1.0 for k in keys}))
        out.append(("transcription_velocity.evaluate", a6, ekw,
                    {k: 1.0 for k in keys[:8]}))
    return out, ("notes", iv, hz), len(iv) >= 3


def cases_tempo(r):
    t1 = float(r.choice([60, 64, 80, 96, 100, 120, 128]))
    ref = np.array([t1, t1 * r.choice([2, 3, 1.5])])
    w = r.choice([0.0, 0.25, 0.5, 1.0, 0.3])
    kw = tasks.draw_params(r, {"tol": [0.08, 0.0, 0.25, 1.0]})
    return [("tempo.detection", (ref, w, ref.copy()), kw, [1.0, True, True]),
            ("tempo.evaluate", (ref, w, ref.copy()), kw,
             {"P-score": 1.0, "One-correct": True, "Both-correct": True})], \
        ("tempo", ref, w), True


def cases_key(r):
    k = tasks.pick(r, tasks.all_keys(tasks.KEY_MODES))
    return [("key.weighted_score", (k, str(k)), {}, 1.0),
            ("key.evaluate", (k, str(k)), {}, {"Weighted Score": 1.0})], ("key", k), True


def cases_pattern(r):
    inp = tasks.gen_pattern(r, max_pat=4)
    x = inp["ref"] or [[[(1.0, 60.0), (2.0, 62.0)]]]
    y = copy.deepcopy(x)
    n = r.choice([5, len(x), len(x) + 1, 10])
    one3 = [1.0, 1.0, 1.0]
    out = [
        ("pattern.standard_FPR", (x, y), {}, one3),
        ("pattern.establishment_FPR", (x, y), {}, one3),
        ("pattern.occurrence_FPR", (x, y), {"thres": r.choice([0.75, 0.5, 1.0])}, one3),
        ("pattern.three_layer_FPR", (x, y), {}, one3),
        ("pattern.first_n_three_layer_P", (x, y), {"n": n}, 1.0),
        ("pattern.first_n_target_proportion_R", (x, y), {"n": n}, 1.0),
    ]
    keys = ["F", "P", "R", "F_est", "P_est", "R_est", "F_occ.5", "P_occ.5", "R_occ.5",
            "F_occ.75", "P_occ.75", "R_occ.75", "F_3", "P_3", "R_3", "FFP", "FFTP_est"]
    out.append(("pattern.evaluate", (x, y), {"n": n}, {k: 1.0 for k in keys}))
    return out, ("pattern", x), len(x) >= 2


def refined_hierarchy(r):
    """Two or three levels; level 2 strictly refines a level-1 segment into
    parts of >= 2 frames, so every score has reference triples."""
    fs = r.choice([0.5, 0.25])
    fr = int(round(fs * Q))
    n1 = r.randrange(2, 4)
    lens = [r.randrange(4, 9) for _ in range(n1)]  # in frames
    b1 = [0]
    for L in lens:
        b1.append(b1[-1] + L * fr)
    b2 = set(b1)
    for a, L in zip(b1[:-1], lens):
        if r.random() < 0.7 or a == 0:
            b2.add(a + (L // 2) * fr)
    b2 = sorted(b2)
    levels = [b1, b2]
    if r.random() < 0.4:
        b3 = set(b2)
        for a, b in zip(b2[:-1], b2[1:]):
            if (b - a) >= 4 * fr and r.random() < 0.5:
                b3.add(a + 2 * fr)
        levels.append(sorted(b3))
    ivs = [np.array([[a / Q, b / Q] for a, b in zip(bs[:-1], bs[1:])]) for bs in levels]
    labs = [["L%d_%d" % (k, i) for i in range(len(iv))] for k, iv in enumerate(ivs)]
    return ivs, labs, fs


def cases_hierarchy(r):
    ivs, labs, fs = refined_hierarchy(r)
    y_ivs = [iv.copy() for iv in ivs]
    y_labs = [list(l) for l in labs]
    beta = r.choice([1.0, 0.5, 2.0])
    out = []
    for tr in (False, True):
        out.append(("hierarchy.tmeasure", (ivs, y_ivs),
                    {"transitive": tr, "window": None, "frame_size": fs, "beta": beta},
                    [1.0, 1.0, 1.0]))
    out.append(("hierarchy.lmeasure", (ivs, labs, y_ivs, y_labs),
                {"frame_size": fs, "beta": beta}, [1.0, 1.0, 1.0]))
    keys = ["T-Precision reduced", "T-Recall reduced", "T-Measure reduced",
            "T-Precision full", "T-Recall full", "T-Measure full", "L-Precision",
            "L-Recall", "L-Measure"]
    out.append(("hierarchy.evaluate", (ivs, labs, y_ivs, y_labs),
                {"frame_size": fs, "window": None}, {k: 1.0 for k in keys}))
    return out, ("hier", ivs), True


def cases_alignment(r):
    x = gen.events(r, kind=r.choice(["regular", "jitter", "random", "two"]), max_n=12)
    if x[-1] - x[0] <= 0:
        x = np.array([x[0], x[0] + 1.0])
    y = x.copy()
    out = [
        ("alignment.absolute_error", (x, y), {}, [0.0, 0.0]),
        ("alignment.percentage_correct", (x, y),
         {"window": r.choice([0.3, 0.0, 1 / 64])}, 1.0),
        ("alignment.percentage_correct_segments", (x, y), {}, 1.0),
        ("alignment.percentage_correct_segments", (x, y),
         {"duration": float(x[-1]) + r.choice([0, 1.0])}, 1.0),
        ("alignment.evaluate", (x, y), {}, {"pc": 1.0, "mae": 0.0, "aae": 0.0,
                                            "pcs": 1.0, "perceptual": None}),
    ]
    return out, ("align", x), len(x) >= 3


GENS = [cases_beat, cases_onset, cases_segment, cases_chord, cases_melody,
        cases_multipitch, cases_transcription, cases_tempo, cases_key,
        cases_pattern, cases_hierarchy, cases_alignment]


# ---------------------------------------------------------------- checking

def chord_expect(mods, args):
    """1 for every rule with >= 1 comparable reference interval, 0 by documented
    convention otherwise; segmentation scores 1."""
    from .. import shim
    ch = mods["chord"]
    labs = list(args[1])
    exp = {}
    with shim.hooks_off():
        for name in tasks.CHORD_CMPS:
            c = getattr(ch, name)(labs, labs)
            exp[name] = 1.0 if np.any(np.asarray(c) >= 0) else 0.0
    exp.update({"underseg": 1.0, "overseg": 1.0, "seg": 1.0})
    return exp


def compare(ctx, fn, value, expect, case, path=""):
    """Offline comparison of a logged value with the optimum structure."""
    bad = []
    if isinstance(expect, dict):
        if not isinstance(value, dict):
            return [("structure", path, value, expect)]
        for k, e in expect.items():
            if k not in value:
                bad.append(("missing", path + "/" + k, None, e))
            else:
                bad += compare(ctx, fn, value[k], e, case, path + "/" + k)
        return bad
    if isinstance(expect, list):
        if not isinstance(value, list) or len(value) != len(expect):
            return [("structure", path, value, expect)]
        for i, (v, e) in enumerate(zip(value, expect)):
            bad += compare(ctx, fn, v, e, case, path + "[%d]" % i)
        return bad
    if expect is None:
        return []
    if isinstance(value, (list, dict)) or isinstance(value, str):
        return [("structure", path, value, expect)]
    if not close_enough(value, expect, TOL):
        bad.append(("value", path, value, expect))
    return bad


def run_shard(spec, ctx):
    mods = env.load_repo()
    r = ctx.rng("perfect")
    log = EventLog(ctx, mods)
    expects = {}
    k = 0
    for i in range(spec["n"]):
        for g in GENS:
            cases, xkey, nontriv = g(r)
            for fn, args, kw, exp in cases:
                rel = "C02#%d" % k
                k += 1
                if exp == "CHORD-PERFECT":
                    exp = chord_expect(mods, args)
                expects[rel] = (fn, args, kw, exp, xkey if nontriv else None)
                log.call(rel, "xx", fn, args, kw)
    log.close()
    # offline checker: reads only the log
    for rel, evs in log.read():
        e = evs[0]
        fn, args, kw, exp, xkey = expects[rel]
        ctx.ev()
        ctx.hist("perfect.calls", fn)
        case = {"kind": "perfect", "fn": fn, "args": args, "kwargs": kw, "expect": exp}
        if e["outcome"] != "ret":
            ctx.count("raised")
            ctx.hist("raised", "%s:%s" % (fn, e["value"]))
            ctx.violation("C02/%s/raises/%s" % (fn, e["value"]), "raises", fn,
                          "%s(x, copy(x)) raised %s instead of returning the optimum"
                          % (fn, e["value"]), case,
                          witness={"fn": fn, "args": args, "kwargs": kw,
                                   "exception": e["value"]})
            continue
        bad = compare(ctx, fn, e["value"], exp, case)
        if xkey is not None:
            ctx.nontrivial(xkey)
        for kind, path, got, want in bad[:2]:
            comp = path or "value"
            ctx.violation("C02/%s/not-optimal%s" % (fn, ("/" + path.strip("/")) if path
                                                    else ""),
                          "not-optimal", fn,
                          "%s(x, copy(x)) %s = %r, optimum is %r" % (fn, comp, got, want),
                          case, witness={"fn": fn, "component": comp, "got": got,
                                         "optimum": want, "args": args, "kwargs": kw})
        if ctx.want_sample() and ctx.evaluations % 53 == 0:
            ctx.sample({"fn": fn, "x": short(args[0], 200), "kwargs": short(kw, 120),
                        "observed": short(e["value"], 200)})


def replay(case, ctx):
    mods = env.load_repo()
    log = EventLog(ctx, mods)
    log.call("C02#0", "xx", case["fn"], case["args"], case["kwargs"])
    log.close()
    for rel, evs in log.read():
        e = evs[0]
        if e["outcome"] != "ret":
            return
        for kind, path, got, want in compare(ctx, case["fn"], e["value"],
                                             case["expect"], case)[:2]:
            ctx.violation("C02/%s/not-optimal%s" % (
                case["fn"], ("/" + path.strip("/")) if path else ""), "not-optimal",
                case["fn"], "got %r, optimum %r" % (got, want), case)


def finalize(m, tier):
    h = m["hists"].get("perfect.calls", {})
    if len(h) < 50:
        m["inconclusive"].append("only %d distinct entry points observed" % len(h))
