"""W7: the repository's own tests as a monitored workload (filled in below)."""


def plan(tier):
    return []


def run(spec, ctx):
    pass
