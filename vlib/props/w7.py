"""W7: the repository's own tests as a monitored workload (DESIGN §4.2 W7b).

The test modules are executed in-process (pytest.main) from ``<repo>/tests`` with
the calling property's monitors already installed, so every call the tests make
into mir_eval -- including the regression fixtures under tests/data -- is
observed by the same post-conditions as the generated workloads. Nothing is
written under the repository (no cache provider, no bytecode, no coverage)."""

import os
import sys

from .. import env

QUICK = ["test_alignment.py", "test_beat.py", "test_chord.py", "test_key.py",
         "test_melody.py", "test_multipitch.py", "test_onset.py", "test_pattern.py",
         "test_segment.py", "test_tempo.py", "test_transcription.py",
         "test_transcription_velocity.py", "test_util.py", "test_input_output.py"]
THOROUGH_EXTRA = ["test_sonify.py"]


def plan(tier, modules=None):
    mods = list(modules or QUICK)
    if tier == "thorough" and modules is None:
        mods += THOROUGH_EXTRA
    return [{"name": "repo-tests-" + m[5:-3], "kind": "w7", "module": m,
             "timeout": 1500} for m in mods]


class _Plugin:
    def __init__(self, ctx):
        self.ctx = ctx

    def pytest_runtest_logreport(self, report):
        if report.when == "call":
            self.ctx.count("w7.tests_" + report.outcome)


def run(spec, ctx):
    import pytest
    tests = os.path.join(env.repo_dir(), "tests")
    old = os.getcwd()
    os.chdir(tests)
    argv = ["-q", "-x" if False else "-q", "--no-cov", "-p", "no:cacheprovider",
            "-p", "no:randomly", "-W", "ignore", "--rootdir", tests, "-o",
            "addopts=", spec["module"]]
    try:
        devnull = open(os.devnull, "w")
        so, se = sys.stdout, sys.stderr
        sys.stdout = sys.stderr = devnull
        try:
            rc = pytest.main(argv, plugins=[_Plugin(ctx)])
        finally:
            sys.stdout, sys.stderr = so, se
            devnull.close()
    finally:
        os.chdir(old)
    ctx.count("w7.modules_run")
    ctx.hist("w7.exit_codes", "%s:%s" % (spec["module"], int(rc)))
    if int(rc) not in (0, 1):
        ctx.notes.append("pytest exit code %s for %s" % (rc, spec["module"]))
