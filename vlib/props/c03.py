"""C03 -- evaluate() is exactly the documented bundle of the individual metrics."""

import copy
import warnings

import numpy as np

from .. import env, shim, tasks, bundles
from ..ctx import short, digest
from ..kinds import is_real_scalar
from ..replay import resolve

LEVEL = "exploration"
RULE = ("For seeded valid inputs (incl. empty sides) and random subsets of the "
        "underlying keyword parameters, each task's evaluate() is observed under "
        "two monitors: (trace) shims on the metric functions record the keyword "
        "values each one actually received while evaluate() ran and an online "
        "checker matches them against the documented entry table "
        "(vlib/bundles.py: '@0.5'/'@3.0' windows, '.5'/'.75' thresholds, "
        "offset_ratio=None, transitive False/True, caller keywords forwarded iff "
        "named by the callee); (differential) every entry is recomputed by calling "
        "the public metric function directly with explicit keywords on inputs "
        "pre-processed by an independent implementation of the documented "
        "pre-processing and compared bit-for-bit; key set and scalar-ness are "
        "checked; a junk keyword must change nothing. Non-trivial = distinct "
        "(task, keyword subset, input) with >= 1 non-default keyword.")
ASSUMPTIONS = [
    "the individual metric functions are taken as given here (their own values "
    "are C04/C16/C17's concern); only the plumbing of evaluate() is judged",
    "transcription.evaluate(offset_ratio=None) (undocumented smaller key set) is "
    "not generated",
]


def plan(tier, seed):
    n = 150 if tier == "quick" else 2500
    return [{"name": "bundle-%d" % p, "kind": "bundle", "n": n}
            for p in range(16)]


def _same(a, b):
    if is_real_scalar(a) and is_real_scalar(b):
        fa, fb = float(a), float(b)
        return (fa != fa and fb != fb) or fa == fb
    try:
        return digest(a) == digest(b)
    except Exception:
        return False


class Trace:
    """Online checker of the call sequence evaluate() makes."""

    def __init__(self):
        self.calls = []
        self.active = None

    def hook(self, fn):
        def post(call):
            if self.active is not None and call.parent == self.active:
                self.calls.append((fn, call.bound()))
        return post


def install_trace(mods):
    tr = Trace()
    for fn in bundles.PARAMS:
        m, name = fn.split(".")
        shim.install(mods[m], name, post=tr.hook(fn), snapshot=False)
    for t in bundles.ENTRIES:
        # evaluate() itself must be on the shim stack so that its callees know
        # their parent
        shim.install(mods[t], "evaluate", post=lambda call: None, snapshot=False)
    return tr


def _call(f, a, kw):
    with warnings.catch_warnings():
        warnings.simplefilter("ignore")
        return f(*a, **kw)


def _mech(task, key):
    if task == "pattern" and key in ("F_occ.5", "P_occ.5", "R_occ.5"):
        return "occurrence-threshold-0.5-not-forwarded"
    return ""


def check_evaluate(ctx, mods, tr, task, args, kw, cls=None):
    ev = resolve(task + ".evaluate", mods)
    a1, k1 = copy.deepcopy((args, kw))
    a2, k2 = copy.deepcopy((args, kw))
    a3, k3 = copy.deepcopy((args, kw))
    case = {"kind": "evaluate", "task": task, "args": args, "kwargs": kw}
    tr.calls = []
    tr.active = task + ".evaluate"
    res = exc = None
    try:
        res = _call(ev, a1, k1)
    except Exception as e:  # noqa: BLE001
        exc = e
    finally:
        tr.active = None
    observed = list(tr.calls)
    want = wexc = None
    try:
        with shim.hooks_off():
            want = bundles.expected(task, a2, k2, mods, _call)
    except Exception as e:  # noqa: BLE001
        wexc = e
    ctx.ev()
    ctx.count("contract.%s.evaluate" % task)
    site = task + ".evaluate"
    if exc is not None or wexc is not None:
        if exc is not None and wexc is not None and type(exc) is type(wexc):
            ctx.count("both_raise_same_type(skipped,C14)")
            return
        if exc is not None and wexc is None:
            ctx.count("evaluate_raises_only(C14)")
            ctx.hist("evaluate_raises_only", "%s:%s" % (task, type(exc).__name__))
            return
        ctx.violation("C03/%s/outcome-differs" % site, "outcome-differs", site,
                      "evaluate() %s but the direct composition %s" % (
                          "returned" if exc is None else "raised " + type(exc).__name__,
                          "returned" if wexc is None else "raised " + type(wexc).__name__),
                      case)
        return
    # (i) key set
    doc = bundles.documented_keys(task)
    if not hasattr(res, "keys") or set(res.keys()) != set(doc):
        got = list(res.keys()) if hasattr(res, "keys") else type(res).__name__
        ctx.violation("C03/%s/key-set" % site, "key-set", site,
                      "evaluate() keys %r differ from the documented set %r" % (
                          short(got, 200), short(doc, 200)), case)
        return
    changed = False
    for k in doc:
        v = res[k]
        # (ii) scalar-ness
        if not is_real_scalar(v):
            ctx.violation("C03/%s/not-a-scalar/%s" % (site, k), "not-a-scalar", site,
                          "evaluate()[%r] = %s is not a real scalar" % (k, short(v, 80)),
                          case)
            continue
        # (iii) equality with the direct call
        if not _same(v, want[k]):
            mech = _mech(task, k)
            ctx.violation("C03/%s/value-differs/%s%s" % (site, k,
                                                         ("/" + mech) if mech else ""),
                          "value-differs", site,
                          "evaluate()[%r] = %r but the metric function called "
                          "directly with the documented parameter gives %r%s" % (
                              k, _plain(v), _plain(want[k]),
                              (" -- " + mech) if mech else ""), case,
                          witness={"task": task, "key": k, "evaluate": _plain(v),
                                   "direct": _plain(want[k]), "args": args,
                                   "kwargs": kw})
    # (iv) trace: forced parameters and forwarding
    if task != "chord":
        idx = 0
        for keys, fn, forced in bundles.ENTRIES[task]:
            hit = None
            while idx < len(observed):
                if observed[idx][0] == fn:
                    hit = observed[idx][1]
                    idx += 1
                    break
                idx += 1
            if hit is None:
                ctx.violation("C03/%s/trace-missing-call/%s" % (site, fn),
                              "trace-missing-call", site,
                              "evaluate() never called %s for %r" % (fn, keys), case)
                break
            ctx.count("trace.entries_matched")
            wantkw = bundles.kw_for(fn, kw, forced)
            for p, val in wantkw.items():
                if p not in hit or not _same(hit[p], val):
                    mech = "occurrence-threshold-0.5-not-forwarded" if (
                        fn == "pattern.occurrence_FPR" and p == "thres") else ""
                    if fn == "pattern.occurrence_FPR" and p == "thres" and \
                            forced.get("thres") == 0.75:
                        mech = "occurrence-threshold-0.75-only-by-default"
                    ctx.violation("C03/%s/trace-parameter/%s.%s%s" % (
                        site, fn, p, ("/" + mech) if mech else ""),
                        "trace-parameter", site,
                        "while evaluate() ran, %s received %s=%r, documented %r "
                        "for entries %r" % (fn, p, hit.get(p, "<not passed>"), val,
                                            keys), case)
            for p in hit:
                if p in bundles.PARAMS[fn] and p not in wantkw and p in kw:
                    pass
    # (v) junk keyword changes nothing
    try:
        k3 = dict(k3)
        k3["zz_unrelated_keyword"] = 12345
        res3 = _call(ev, a3, k3)
        for k in doc:
            if not _same(res3.get(k), res[k]):
                ctx.violation("C03/%s/junk-keyword" % site, "junk-keyword", site,
                              "an unrelated keyword changed evaluate()[%r]" % k, case)
                break
        ctx.count("junk_keyword_checks")
    except Exception as e:  # noqa: BLE001
        ctx.violation("C03/%s/junk-keyword-raises" % site, "junk-keyword", site,
                      "an unrelated keyword made evaluate() raise %s" %
                      type(e).__name__, case)
    if kw:
        ctx.nontrivial(task, sorted(kw.items(), key=repr), args)
        ctx.hist("kw_subsets." + task, ",".join(sorted(kw)))
    if ctx.want_sample() and kw and ctx.evaluations % 37 == 0:
        ctx.sample({"task": task, "kwargs": short(kw, 200), "args": short(args, 300),
                    "evaluate": short(dict(res), 400)})


def _plain(v):
    return float(v) if is_real_scalar(v) else v


def run_shard(spec, ctx):
    mods = env.load_repo()
    tr = install_trace(mods)
    r = ctx.rng("bundle")
    names = tasks.TASK_NAMES
    for i in range(spec["n"] * len(names)):
        t = tasks.TASKS[names[i % len(names)]]
        inp = t.gen_eval(r)
        args, kw = t.evaluate(inp, r)
        ctx.hist("input_class." + t.name, inp.get("cls", "?"))
        check_evaluate(ctx, mods, tr, t.name, args, kw, inp.get("cls"))
    n, problems = shim.fidelity_report()
    ctx.count("noninterference.shims_checked", n)
    if problems:
        ctx.mark_inconclusive("shim fidelity: %r" % problems[:3])


def replay(case, ctx):
    mods = env.load_repo()
    tr = install_trace(mods)
    check_evaluate(ctx, mods, tr, case["task"], case["args"], case["kwargs"])


def finalize(m, tier):
    c = m["counters"]
    for t in tasks.TASK_NAMES:
        if c.get("contract.%s.evaluate" % t, 0) == 0:
            m["inconclusive"].append("%s.evaluate never observed" % t)
    if c.get("trace.entries_matched", 0) == 0:
        m["inconclusive"].append("trace checker matched no entry")
