"""C16 -- segment labelling scores equal their clustering-index definitions."""

import math
import warnings

import numpy as np

from .. import env, shim, gen, tasks
from ..ctx import short
from ..oracles import frames as ofr, cluster_ref as cl
from ..oracles import intervals as oi

Q = gen.Q
LEVEL = "exploration"
TOL = 1e-9
FNS = ["pairwise", "rand_index", "ari", "mutual_information", "nce", "vmeasure"]
RULE = ("A reference-model post-condition on segment.pairwise / rand_index / ari / "
        "mutual_information / nce / vmeasure (every observed call): an independent "
        "frame sampler (grid k*frame_size, label of the containing interval, later "
        "interval on a shared boundary, case-folded) feeds an exact-integer "
        "contingency table from which the textbook indices are computed (pair "
        "counts, exact combinatorial ARI with the documented special cases, MI / "
        "entropies with math.log on exact ratios, exact hypergeometric expected MI, "
        "NMI with the documented 1e-10 floor, NCE with log2|classes| or marginal "
        "entropy and the z > 0 guards, V as harmonic mean). The driver additionally "
        "checks vmeasure == nce(marginal=True), case-insensitivity, MI symmetry, V = "
        "F(P, R) and ARI = 1 on coinciding partitions. Non-trivial = distinct "
        "contingency table with >= 2 rows and >= 2 columns.")
ASSUMPTIONS = [
    "frames within 1e-6 s of a boundary on a non-dyadic grid are ambiguous: such "
    "calls are skipped and counted",
    "all-singleton partitions (0/0 for pairwise / AMI) are degenerate for the "
    "equality check; AMI tolerance 1e-9 + 1e-12*n/denominator; NMI tolerance "
    "propagated through the documented 1e-10 floor",
]


def plan(tier, seed):
    n = 350 if tier == "quick" else 6000
    return [{"name": "cluster-%d" % p, "n": n} for p in range(16)]


def _close(a, b, tol):
    a, b = float(a), float(b)
    if a != a and b != b:
        return True
    if a != a or b != b:
        return False
    return abs(a - b) <= tol


def frame_labels(iv, labels, fs):
    labs, amb = ofr.label_at_samples(iv, labels, fs)
    return ofr.fold(labs), amb


def post_fn(ctx, name):
    fn = "segment." + name

    def post(call):
        raised = call.exc
        c = call.case()
        b = dict(zip(call.spec.params, c["args"]))
        b.update(c["kwargs"])
        try:
            riv = np.asarray(b["reference_intervals"], dtype=float)
            np.asarray(b["estimated_intervals"], dtype=float)
        except Exception:
            return
        riv = np.asarray(b["reference_intervals"], dtype=float)
        eiv = np.asarray(b["estimated_intervals"], dtype=float)
        ctx.count("contract." + fn)
        if riv.size == 0 or eiv.size == 0 or riv.ndim != 2 or eiv.ndim != 2:
            ctx.count("skipped_empty_or_malformed")
            return
        if not (oi.is_time_ordered(riv) and oi.is_time_ordered(eiv)):
            ctx.count("skipped_not_time_ordered")
            return
        fs = b.get("frame_size", 0.1)
        nfr = int(float(riv.max()) / fs) if fs > 0 else 0
        if nfr > 260 or nfr < 1:
            ctx.count("skipped_large" if nfr > 260 else "skipped_no_frames")
            return
        try:
            r, amb1 = frame_labels(riv, b["reference_labels"], fs)
            e, amb2 = frame_labels(eiv, b["estimated_labels"], fs)
        except Exception:
            ctx.count("unclassified")
            return
        if amb1 or amb2:
            ctx.count("skipped_near_threshold")
            return
        if len(r) != len(e):
            ctx.count("skipped_frame_count_mismatch")
            return
        if riv[0, 0] != 0 or eiv[0, 0] != 0 or riv.max() != eiv.max() or \
                len(b["reference_labels"]) != len(riv) or \
                len(b["estimated_labels"]) != len(eiv) or np.any(riv < 0) or \
                np.any(eiv < 0):
            ctx.count("skipped_invalid_structure")
            return
        if raised is not None:
            ctx.ev()
            ctx.violation("C16/%s/raises/%s" % (fn, type(raised).__name__), "raises", fn,
                          "%s raised %s on a valid pair of segmentations (%d frames, "
                          "labels %dx%d) for which the definition is computable" % (
                              fn, type(raised).__name__, len(r), len(set(r)), len(set(e))),
                          c, witness={"fn": fn, "args": c["args"], "kwargs": c["kwargs"],
                                      "exception": repr(raised)})
            return
        ctx.ev()
        beta = b.get("beta", 1.0)
        got = call.result
        n = len(r)
        nr, ne = len(set(r)), len(set(e))
        if nr >= 2 and ne >= 2:
            ctx.nontrivial(name, tuple(map(tuple, ofr.contingency(r, e))))
        if name == "pairwise":
            want, _ = cl.pairwise(r, e, beta)
            tols = [TOL] * 3
        elif name == "rand_index":
            want, _ = cl.rand_index(r, e)
            want, got, tols = [want], [got], [TOL]
        elif name == "ari":
            want, _ = cl.ari(r, e)
            want, got, tols = [want], [got], [TOL]
        elif name == "mutual_information":
            want, _ = cl.mutual_information(r, e)
            want = list(want)
            cells = nr * ne
            from collections import Counter
            def H(x):
                cnt = Counter(x)
                return -sum(v / n * math.log(v / n) for v in cnt.values())
            nmi_tol = TOL + 8 * 2.3e-16 * cells * 4 / max(math.sqrt(H(r) * H(e)), 1e-10)
            ami_tol = TOL
            if cl.ami_is_undefined(r, e):
                want[1] = None
                ctx.count("ami.undefined_not_judged")
            else:
                den = abs(cl.ami_denominator(r, e))
                ami_tol = TOL + 1e-12 * n / max(den, 1e-12)
            tols = [TOL, ami_tol, nmi_tol]
        elif name == "nce":
            want, _ = cl.nce(r, e, beta, bool(b.get("marginal", False)))
            tols = [TOL] * 3
        else:
            want, _ = cl.vmeasure(r, e, beta)
            tols = [TOL] * 3
        try:
            got = list(got)
        except TypeError:
            got = [got]
        if len(got) != len(want):
            ctx.violation("C16/%s/arity" % fn, "arity", fn,
                          "returned %d values, definition has %d" % (len(got), len(want)),
                          c)
            return
        for i, (g, w, t) in enumerate(zip(got, want, tols)):
            if w is None:
                continue
            if not _close(g, w, t):
                mech = ""
                if name == "pairwise" and (g != g or w != w):
                    mech = "/zero-over-zero"
                ctx.violation("C16/%s/differs-from-definition[%d]%s" % (fn, i, mech),
                              "differs-from-definition", fn,
                              "%s component %d = %r, the clustering-index definition on "
                              "the frame contingency table gives %r (frames=%d, "
                              "labels %dx%d)" % (fn, i, float(g), float(w), n, nr, ne), c,
                              witness={"fn": fn, "component": i, "got": float(g),
                                       "definition": float(w), "args": c["args"],
                                       "kwargs": c["kwargs"],
                                       "contingency": ofr.contingency(r, e)})
        if ctx.want_sample() and nr >= 2 and ne >= 2 and ctx.evaluations % 61 == 0:
            ctx.sample({"fn": fn, "frame_size": fs,
                        "contingency": ofr.contingency(r, e),
                        "library": short(call.result, 160), "definition": short(want, 160)})
    return post


def install(ctx, mods):
    for name in FNS:
        shim.install(mods["segment"], name, post=post_fn(ctx, name))
    shim.install(mods["segment"], "evaluate", post=lambda c: None, snapshot=False)


def gen_pair(r):
    """Valid labelled segmentations with equal span starting at 0."""
    total = 2 * r.randrange(8, 32 * 14)
    kind = r.choice(["plain", "plain", "plain", "single-ref", "single-est",
                     "singletons", "identical", "many-labels"])
    fs = r.choice([0.5, 0.25, 1.0, 0.125, 0.1])
    fr = max(2, int(round(fs * Q)))
    if kind == "singletons":
        # one frame per segment and all labels distinct
        nfr = r.randrange(2, 14)
        bs = [i * fr for i in range(nfr + 1)]
        iv = np.array([[a / Q, b / Q] for a, b in zip(bs[:-1], bs[1:])])
        lab = ["u%d" % i for i in range(nfr)]
        if fs == 0.1:
            fs = 0.5
            iv = iv * (0.5 / (fr / Q)) if fr / Q != 0.5 else iv
        return iv, lab, iv.copy(), ["v%d" % i for i in range(nfr)], fs
    riv, rlab = gen.segmentation(r, n=r.randrange(1, 13), total=total, min_len=2)
    eiv, elab = gen.segmentation(r, n=r.randrange(1, 13), total=total, min_len=2)
    if kind == "single-ref":
        rlab = ["A"] * len(rlab)
    elif kind == "single-est":
        elab = ["b"] * len(elab)
    elif kind == "identical":
        eiv, elab = riv.copy(), ["x_" + l for l in rlab]
    elif kind == "many-labels":
        rlab = ["r%d" % r.randrange(8) for _ in rlab]
        elab = ["e%d" % r.randrange(8) for _ in elab]
    return riv, rlab, eiv, elab, fs


def swapcase(labels, r):
    return [l.upper() if r.random() < 0.5 else l.lower() for l in labels]


def long_track_probe(ctx, seg):
    """One long, finely sampled track (76 800 frames, one cell of the contingency
    table above 2^15.5): the ARI from exact integer pair counts."""
    fs = 2.0 ** -7
    riv = np.array([[0.0, 500.0], [500.0, 600.0]])
    eiv = np.array([[0.0, 480.0], [480.0, 600.0]])
    rlab, elab = ["A", "B"], ["x", "y"]
    cells = [[61440, 2560], [0, 12800]]          # frames k * 2^-7, k < 76800
    c2 = lambda x: x * (x - 1) // 2              # noqa: E731
    sij = sum(c2(x) for row in cells for x in row)
    sa = sum(c2(sum(row)) for row in cells)
    sb = sum(c2(sum(col)) for col in zip(*cells))
    tot = c2(76800)
    from fractions import Fraction as Fr
    exp_ = Fr(sa * sb, tot)
    want = float((sij - exp_) / (Fr(sa + sb, 2) - exp_))
    for args, w, what in (((riv, rlab, eiv, elab), want, "two-by-two"),
                          ((riv, rlab, riv.copy(), list(rlab)), 1.0, "identical")):
        try:
            with warnings.catch_warnings():
                warnings.simplefilter("ignore")
                got = float(seg.ari(*args, frame_size=fs))
        except Exception as e:  # noqa: BLE001
            got = e
        ctx.ev()
        ctx.count("contract.long_track_ari")
        if isinstance(got, Exception) or not abs(got - w) <= 1e-9:
            ctx.violation("C16/segment.ari/differs-from-definition/long-track",
                          "differs-from-definition", "segment.ari",
                          "76 800-frame track (%s): ari = %r, exact pair counts give %r" % (
                              what, got, w),
                          {"kind": "call", "fn": "segment.ari", "args": args,
                           "kwargs": {"frame_size": fs}})


def run_shard(spec, ctx):
    mods = env.load_repo()
    install(ctx, mods)
    seg = mods["segment"]
    r = ctx.rng("cluster")
    if spec["name"].endswith("-0"):
        long_track_probe(ctx, seg)
    for i in range(spec["n"]):
        riv, rlab, eiv, elab, fs = gen_pair(r)
        beta = r.choice([1.0, 0.25, 2.0])
        four = (riv, rlab, eiv, elab)
        with warnings.catch_warnings():
            warnings.simplefilter("ignore")
            try:
                pw = seg.pairwise(*four, frame_size=fs, beta=beta)
                seg.rand_index(*four, frame_size=fs)
                a1 = seg.ari(*four, frame_size=fs)
                mi = seg.mutual_information(*four, frame_size=fs)
                n0 = seg.nce(*four, frame_size=fs, beta=beta, marginal=False)
                n1 = seg.nce(*four, frame_size=fs, beta=beta, marginal=True)
                vm = seg.vmeasure(*four, frame_size=fs, beta=beta)
                # identities, judged at the client boundary
                case = {"kind": "ident", "four": four, "fs": fs, "beta": beta}
                ctx.count("identity_checks")
                if not all(_close(x, y, 0.0) for x, y in zip(vm, n1)):
                    ctx.violation("C16/segment.vmeasure/not-nce-marginal", "identity",
                                  "segment.vmeasure", "vmeasure %r != nce(marginal=True) "
                                  "%r" % (vm, n1), case)
                p_, r_, f_ = (float(x) for x in vm)
                hm = 0.0 if p_ == 0 and r_ == 0 else (1 + beta ** 2) * p_ * r_ / (
                    beta ** 2 * p_ + r_)
                if not _close(f_, hm, TOL):
                    ctx.violation("C16/segment.vmeasure/not-harmonic-mean", "identity",
                                  "segment.vmeasure", "V = %r is not F_beta(P=%r, R=%r)"
                                  % (f_, p_, r_), case)
                mi2 = seg.mutual_information(eiv, elab, riv, rlab, frame_size=fs)
                if not _close(mi[0], mi2[0], TOL):
                    ctx.violation("C16/segment.mutual_information/not-symmetric",
                                  "identity", "segment.mutual_information",
                                  "MI(a,b) = %r but MI(b,a) = %r" % (mi[0], mi2[0]), case)
                # case-insensitive labels
                pw2 = seg.pairwise(riv, swapcase(rlab, r), eiv, swapcase(elab, r),
                                   frame_size=fs, beta=beta)
                if not all(_close(x, y, TOL) for x, y in zip(pw, pw2)):
                    ctx.violation("C16/segment.pairwise/case-sensitive", "identity",
                                  "segment.pairwise", "changing label case changed the "
                                  "score: %r vs %r" % (pw, pw2), case)
                # the same annotations again on a different frame grid (a result
                # must not depend on what was evaluated before)
                fs2 = r.choice([x for x in (0.5, 0.25, 1.0, 0.125) if x != fs])
                seg.pairwise(*four, frame_size=fs2, beta=beta)
                seg.nce(*four, frame_size=fs2, beta=beta)
                seg.mutual_information(*four, frame_size=fs2)
                a2 = seg.ari(riv, rlab, riv.copy(), ["q" + l for l in rlab],
                             frame_size=fs)
                if not _close(a2, 1.0, TOL):
                    ctx.violation("C16/segment.ari/coinciding-partitions", "identity",
                                  "segment.ari", "ARI = %r for coinciding partitions"
                                  % a2, case)
            except Exception as e:  # noqa: BLE001
                ctx.count("driver.raised")
                ctx.hist("driver.raised", type(e).__name__)
        if i % 5 == 0:
            inp = tasks.gen_segment_eval(r)
            try:
                with warnings.catch_warnings():
                    warnings.simplefilter("ignore")
                    seg.evaluate(inp["ref_iv"], inp["ref_lab"], inp["est_iv"],
                                 inp["est_lab"], frame_size=r.choice([0.5, 0.25]))
            except Exception:
                ctx.count("driver.raised")
    n, problems = shim.fidelity_report()
    if problems:
        ctx.mark_inconclusive("shim fidelity: %r" % problems[:3])


def replay(case, ctx):
    mods = env.load_repo()
    install(ctx, mods)
    if case.get("kind") == "call":
        from ..replay import call_again
        call_again(case, mods)


def finalize(m, tier):
    c = m["counters"]
    for name in FNS:
        if c.get("contract.segment." + name, 0) == 0:
            m["inconclusive"].append("contract segment.%s never evaluated" % name)
    if m["evaluations"] < 100:
        m["inconclusive"].append("too few compared calls")
