"""C12 -- interval scores are duration-weighted and blind to how time is cut up."""

from fractions import Fraction as F

import numpy as np

from .. import env, gen, tasks, shim
from ..evlog import Relations, close_enough, flat

Q = gen.Q
LEVEL = "exploration"
TOL = 1e-9
RULE = ("(refinement) an annotation and a refinement of it obtained by cutting "
        "1-20 intervals at interior lattice points with the label repeated (either "
        "or both sides, on and off the frame grid) are scored by chord.evaluate "
        "(all 15 scores), the frame-based segment scores and hierarchy.lmeasure; "
        "both executions are logged and an offline checker requires equal scores. "
        "(weights) a post-condition on every observed chord.weighted_accuracy call "
        "(client and internal from chord.evaluate) checks the value against "
        "sum(w*c)/sum(w) over c >= 0 in exact rationals, 1 when all comparable are "
        "1, 0 when all are 0; client calls also check invariance under w -> k*w. "
        "Non-trivial = refinement with >= 2 cuts of an annotation with >= 2 labels.")
ASSUMPTIONS = [
    "tolerance 1e-9 for duration sums; tmeasure excluded (boundaries are its subject)",
]


def plan(tier, seed):
    n = 180 if tier == "quick" else 3000
    return [{"name": "refine-%d" % p, "n": n} for p in range(16)]


def cut(r, iv, labels, ncuts):
    """Cut intervals at interior lattice points, repeating the label."""
    iv = [list(x) for x in iv]
    labels = list(labels)
    done = 0
    for _ in range(ncuts * 3):
        if done >= ncuts:
            break
        k = r.randrange(len(iv))
        a, b = iv[k]
        na, nb = int(round(a * Q)), int(round(b * Q))
        if nb - na < 2:
            continue
        c = r.randrange(na + 1, nb) / Q
        iv[k:k + 1] = [[a, c], [c, b]]
        labels[k:k + 1] = [labels[k], labels[k]]
        done += 1
    return np.array(iv, dtype=float), labels, done


def check_same(ev, meta):
    a, b = ev["base"]["value"], ev["refined"]["value"]
    fa, fb = dict(flat(a)), dict(flat(b))
    if set(fa) != set(fb):
        return [("structure", "different result structure")]
    for p, x in fa.items():
        if not close_enough(x, fb[p], TOL):
            return [("changed", "%s: component %s is %r on the annotation and %r on "
                     "its refinement (%s)" % (meta["fn"], list(p), x, fb[p], meta["T"]))]
    return []


def check_scale(ev, meta):
    a, b = ev["base"]["value"], ev["scaled"]["value"]
    if not close_enough(float(a), float(b), TOL):
        return [("scale", "weighted_accuracy changes from %r to %r when all weights "
                 "are multiplied by %r" % (a, b, meta["k"]))]
    return []


CHECKERS = {"refine": check_same, "scale": check_scale}


def pair(fn, a, b, kw, T, nt):
    return {"kind": "refine", "site": fn,
            "calls": [("base", fn, a, kw), ("refined", fn, b, kw)],
            "meta": {"fn": fn, "T": T}, "nt": nt}


def post_weighted_accuracy(ctx):
    def post(call):
        if call.exc is not None:
            return
        c, w = call.case()["args"][:2]
        try:
            c = np.asarray(c, dtype=float)
            w = np.asarray(w, dtype=float)
        except Exception:
            return
        if c.ndim != 1 or w.shape != c.shape or not np.all(np.isfinite(w)) or \
                (w < 0).any() or not set(c.tolist()) <= {1.0, 0.0, -1.0}:
            ctx.count("unclassified.weighted_accuracy")
            return
        ctx.ev()
        ctx.count("contract.chord.weighted_accuracy")
        ctx.count("origin.internal" if call.parent else "origin.client")
        comp = [(F(float(x)), F(float(y))) for x, y in zip(c, w) if x >= 0]
        tw = sum(y for _, y in comp)
        got = float(call.result)
        if tw == 0:
            want = 0.0
        else:
            want = float(sum(x * y for x, y in comp) / tw)
        bad = None
        if abs(got - want) > TOL:
            bad = ("formula", "weighted_accuracy = %r, sum(w*c)/sum(w) over comparable "
                   "= %r" % (got, want))
        elif tw > 0 and all(x == 1 for x, y in comp if y > 0) and abs(got - 1) > TOL:
            bad = ("all-ones", "all comparable comparisons are 1 but the score is %r" % got)
        elif tw > 0 and all(x == 0 for x, y in comp if y > 0) and abs(got) > TOL:
            bad = ("all-zeros", "all comparable comparisons are 0 but the score is %r" % got)
        if bad:
            ctx.violation("C12/chord.weighted_accuracy/%s" % bad[0], bad[0],
                          "chord.weighted_accuracy", bad[1], call.case(),
                          witness={"comparisons": c, "weights": w, "result": got})
        if len(comp) >= 2 and len({x for x, _ in comp}) == 2:
            ctx.nontrivial("wa", c, w)
    return post


def instances(r):
    out = []
    # chords
    c = tasks.gen_chord(r)
    side = r.choice(["ref", "est", "both"])
    riv, rlab, eiv, elab = c["ref_iv"], c["ref_lab"], c["est_iv"], c["est_lab"]
    nc = r.randrange(1, 21)
    riv2, rlab2, d1 = cut(r, riv, rlab, nc) if side in ("ref", "both") else (riv, rlab, 0)
    eiv2, elab2, d2 = cut(r, eiv, elab, nc) if side in ("est", "both") else (eiv, elab, 0)
    nt = ("chord", riv, tuple(rlab), eiv, tuple(elab), riv2, eiv2) \
        if d1 + d2 >= 2 and len(set(rlab)) >= 2 else None
    out.append(pair("chord.evaluate", (riv, rlab, eiv, elab), (riv2, rlab2, eiv2, elab2),
                    {}, "%d cuts on %s" % (d1 + d2, side), nt))
    # segments (frame based): cuts on and off the frame grid
    s = tasks.gen_segment(r, allow_empty=False)
    fs = r.choice([0.5, 0.25, 1.0])
    riv, rlab, eiv, elab = s["ref_iv"], s["ref_lab"], s["est_iv"], s["est_lab"]
    riv2, rlab2, d1 = cut(r, riv, rlab, nc) if side in ("ref", "both") else (riv, rlab, 0)
    eiv2, elab2, d2 = cut(r, eiv, elab, nc) if side in ("est", "both") else (eiv, elab, 0)
    nts = ("seg", riv, tuple(rlab), eiv, tuple(elab), riv2, eiv2, fs) \
        if d1 + d2 >= 2 and len(set(rlab)) >= 2 else None
    for fn in ("pairwise", "rand_index", "ari", "mutual_information", "nce", "vmeasure"):
        kw = {"frame_size": fs}
        if fn == "nce":
            kw["marginal"] = r.random() < 0.5
        out.append(pair("segment." + fn, (riv, rlab, eiv, elab),
                        (riv2, rlab2, eiv2, elab2), kw,
                        "%d cuts on %s" % (d1 + d2, side), nts))
    # hierarchy L-measure: cut intervals inside levels
    h = tasks.gen_hierarchy(r)
    rivs, rlabs = [], []
    tot = 0
    for iv, lab in zip(h["ref_ivs"], h["ref_labs"]):
        iv2, lab2, d = cut(r, iv, lab, r.randrange(0, 6))
        rivs.append(iv2); rlabs.append(lab2); tot += d
    eivs, elabs = [], []
    for iv, lab in zip(h["est_ivs"], h["est_labs"]):
        iv2, lab2, d = cut(r, iv, lab, r.randrange(0, 6))
        eivs.append(iv2); elabs.append(lab2); tot += d
    out.append(pair("hierarchy.lmeasure",
                    (h["ref_ivs"], h["ref_labs"], h["est_ivs"], h["est_labs"]),
                    (rivs, rlabs, eivs, elabs), {"frame_size": r.choice([0.5, 0.25])},
                    "%d cuts" % tot,
                    ("hier", [x.tolist() for x in h["ref_ivs"]], repr(h["ref_labs"]),
                     [x.tolist() for x in rivs], [x.tolist() for x in eivs])
                    if tot >= 2 else None))
    # weights: scale invariance
    n = r.randrange(1, 9)
    cmp_ = np.array([float(r.choice([1, 1, 0, -1])) for _ in range(n)])
    w = np.array([r.randrange(1, 33) / 8.0 for _ in range(n)])
    k = r.choice([2.0, 0.5, 8.0, 3.0, 0.1, 1000.0, 1e-6, 1e-9, 1e-12, 2.0 ** -40, 1e9])
    out.append({"kind": "scale", "site": "chord.weighted_accuracy",
                "calls": [("base", "chord.weighted_accuracy", (cmp_, w), {}),
                          ("scaled", "chord.weighted_accuracy", (cmp_, w * k), {})],
                "meta": {"k": k}, "nt": ("scale", cmp_, w, k) if n >= 2 else None})
    return out


def post_dhd(ctx):
    """directional_hamming_distance(ref, est) = sum over reference intervals of
    (duration - longest stretch covered by one estimated interval) / reference
    span, in exact rationals. Judged when the estimated side is contiguous (the
    reference side may have gaps); other shapes are counted, not judged."""
    def post(call):
        if call.exc is not None:
            return
        a = call.case()["args"]
        try:
            ref = np.asarray(a[0], dtype=float)
            est = np.asarray(a[1], dtype=float)
        except Exception:
            return
        ok = ref.ndim == 2 and est.ndim == 2 and len(ref) and len(est) and \
            np.all(np.isfinite(ref)) and np.all(np.isfinite(est)) and \
            np.all(ref[:, 1] > ref[:, 0]) and np.all(est[:, 1] > est[:, 0]) and \
            np.all(ref[1:, 0] >= ref[:-1, 1]) and np.all(est[1:, 0] == est[:-1, 1])
        if not ok:
            ctx.count("unclassified.directional_hamming_distance")
            return
        ctx.ev()
        ctx.count("contract.chord.directional_hamming_distance")
        tot = F(0)
        for s, e in ref:
            s, e = F(float(s)), F(float(e))
            best = F(0)
            for u, v in est:
                lo, hi = max(s, F(float(u))), min(e, F(float(v)))
                if hi - lo > best:
                    best = hi - lo
            # a part of the reference interval outside the estimate's span is one
            # more stretch (the library cuts at estimated boundaries only)
            for lo, hi in ((s, min(e, F(float(est[0, 0])))), (max(s, F(float(est[-1, 1]))), e)):
                if hi - lo > best:
                    best = hi - lo
            tot += (e - s) - best
        want = float(tot / (F(float(ref[-1, 1])) - F(float(ref[0, 0]))))
        got = float(call.result)
        if abs(got - want) > TOL:
            ctx.violation("C12/chord.directional_hamming_distance/formula", "formula",
                          "chord.directional_hamming_distance",
                          "directional_hamming_distance = %r, definition gives %r" % (
                              got, want), call.case(),
                          witness={"reference": ref, "estimated": est, "result": got,
                                   "definition": want})
        if np.any(ref[1:, 0] > ref[:-1, 1]):
            ctx.count("dhd.reference_with_gaps")
    return post


def run_shard(spec, ctx):
    mods = env.load_repo()
    shim.install(mods["chord"], "weighted_accuracy", post=post_weighted_accuracy(ctx))
    shim.install(mods["chord"], "directional_hamming_distance", post=post_dhd(ctx))
    shim.install(mods["chord"], "evaluate", post=lambda call: None, snapshot=False)
    r = ctx.rng("refine")
    rel = Relations(ctx, mods, "C12")
    for _ in range(spec["n"]):
        for inst in instances(r):
            rel.run(inst)
        # segmentation distances with an un-annotated gap on the reference side
        ga = gen.gapped_intervals(r)
        ce, _ = gen.segmentation(r, start=int(ga[0, 0] * 64),
                                 total=max(2, int(round((ga[-1, 1] - ga[0, 0]) * 64))))
        if r.random() < 0.15:
            # whole-second reference intervals in an integer-typed array
            ga = np.unique(np.round(ga).astype(np.int64), axis=0)
            ga = ga[ga[:, 1] > ga[:, 0]]
            keep = [0] if len(ga) else []
            for j in range(1, len(ga)):
                if ga[j, 0] >= ga[keep[-1], 1]:
                    keep.append(j)
            ga = ga[keep] if len(keep) else np.array([[0, 3], [4, 9]])
            ce, _ = gen.segmentation(r, start=int(ga[0, 0] * 64),
                                     total=max(2, int(round((ga[-1, 1] - ga[0, 0]) * 64))))
        try:
            # overseg(a, b) = 1 - dhd(a, b); underseg(a, b) = 1 - dhd(b, a)
            mods["chord"].overseg(ga, ce)
            mods["chord"].underseg(ce, ga)
        except Exception:  # noqa: BLE001
            ctx.count("driver.raised")
    rel.check(CHECKERS)
    n, problems = shim.fidelity_report()
    if problems:
        ctx.mark_inconclusive("shim fidelity: %r" % problems[:3])


def replay(case, ctx):
    mods = env.load_repo()
    shim.install(mods["chord"], "weighted_accuracy", post=post_weighted_accuracy(ctx))
    shim.install(mods["chord"], "directional_hamming_distance", post=post_dhd(ctx))
    if case.get("kind") == "call":
        from ..replay import call_again
        call_again(case, mods)
        return
    rel = Relations(ctx, mods, "C12")
    rel.run(case["inst"])
    rel.check(CHECKERS)


def finalize(m, tier):
    c = m["counters"]
    if c.get("contract.chord.weighted_accuracy", 0) == 0:
        m["inconclusive"].append("weighted_accuracy contract never evaluated")
    if c.get("origin.internal", 0) == 0:
        m["inconclusive"].append("no internal weighted_accuracy call observed")
    if c.get("dhd.reference_with_gaps", 0) == 0:
        m["inconclusive"].append("directional_hamming_distance never seen with a gap")
