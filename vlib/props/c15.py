"""C15 -- evaluation is pure: inputs are never modified, results are
repeatable."""

import copy
import json
import os
import sys
import warnings

import numpy as np

from .. import env, shim, workloads, san, tasks, gen
from ..ctx import digest, short
from ..monitors import purity_mon
from ..replay import resolve

LEVEL = "exploration"
RULE = ("(purity) SHA-256 digests of every ndarray/list/dict argument of every "
        "public function of the 16 modules are compared before and after each "
        "observed call (return or raise; client and internal calls); a second pass "
        "runs the same workload with every ndarray argument write-protected and "
        "attributes 'assignment destination is read-only' to the mir_eval line; "
        "module-level state is digested around every driver operation. "
        "(repeatability) a pool of operations drawn across all task modules, util, "
        "sonify and separation is executed in several schedules (in order, "
        "reversed, shuffled, each repeated, interleaved) inside one interpreter "
        "with np.empty poisoned; the recorded event log is checked offline: all "
        "positions of one operation must carry bit-identical result digests and no "
        "poison. Non-trivial = distinct (function, argument-shape class) with >= 1 "
        "ndarray and >= 1 container argument, plus distinct history operations.")
ASSUMPTIONS = [
    "digest covers value, dtype, shape and container structure, not identity: "
    "returning an input object unchanged is not a mutation",
    "a read-only error is attributed to mir_eval only when the innermost frame of "
    "the traceback is a mir_eval line",
]


def plan(tier, seed):
    q = tier == "quick"
    shards = [{"name": "purity-%d" % p, "kind": "purity", "n": 120 if q else 2500}
              for p in range(6)]
    shards += [{"name": "protected-%d" % p, "kind": "protected",
                "n": 80 if q else 1500} for p in range(3)]
    shards += [{"name": "history-%d" % p, "kind": "history",
                "ops": 300 if q else 3000, "schedules": 6 if q else 40,
                "sep": 2 if q else 8}
               for p in range(3 if q else 6)]
    from . import w7
    shards += w7.plan(tier)
    return shards


# ------------------------------------------------------------------ ops

def util_ops(r):
    """Aliasing-prone helper calls the per-task generators do not make."""
    ops = []
    iv, lab = gen.segmentation(r, start=r.choice([0, 16]))
    ops.append(("util.adjust_intervals", (iv, list(lab)),
                {"t_min": None, "t_max": float(iv.max()) + 1.0}))
    ops.append(("util.adjust_intervals", (iv, list(lab)),
                {"t_min": 0.0, "t_max": float(iv.max()) + 0.5}))
    ops.append(("util.adjust_intervals", (iv, list(lab)),
                {"t_min": float(iv.min()), "t_max": float(iv.max())}))
    ev = gen.events(r, kind="regular")
    ops.append(("util.adjust_events", (ev, ["e%d" % i for i in range(len(ev))]),
                {"t_min": None, "t_max": float(ev[-1]) + 1.0}))
    ops.append(("util.adjust_events", (ev, ["e%d" % i for i in range(len(ev))]),
                {"t_min": 0.0, "t_max": float(ev[-1]) + 1.0}))
    iv2, lab2 = gen.segmentation(r, start=int(iv[0, 0] * 64), total=int(
        round((iv[-1, 1] - iv[0, 0]) * 64)))
    ops.append(("util.merge_labeled_intervals", (iv, list(lab), iv2, list(lab2)), {}))
    ops.append(("util.intervals_to_samples", (iv, list(lab)), {"sample_size": 0.25}))
    ops.append(("util.sort_labeled_intervals", (iv[::-1].copy(), list(lab)[::-1]), {}))
    ops.append(("util.index_labels", (list(lab),), {}))
    # segmentation distance with the estimated intervals listed out of order
    # (only the reference side is required to be ordered)
    if len(iv2) >= 2:
        ops.append(("chord.directional_hamming_distance", (iv, iv2[::-1].copy()), {}))
        ops.append(("chord.overseg", (iv, np.ascontiguousarray(iv2[::-1])), {}))
    ops.append(("util.intervals_to_durations", (iv,), {}))
    # melody with optional voicing/reward arrays, first time 0 and > 0
    for t0 in (0.0, 0.125):
        n = r.randrange(3, 12)
        t = t0 + 0.125 * np.arange(n)
        f = np.array([r.choice([0.0, 220.0, 440.0, -330.0]) for _ in range(n)])
        f2 = np.array([r.choice([0.0, 220.0, 445.0, 330.0]) for _ in range(n)])
        v = np.array([r.choice([0.25, 0.5, 1.0]) for _ in range(n)])
        w = np.array([r.choice([0.5, 1.0, 0.75]) for _ in range(n)])
        ops.append(("melody.evaluate", (t, f, t.copy(), f2, v, w), {}))
        ops.append(("melody.to_cent_voicing", (t, f, t.copy(), f2, v, w), {}))
        ops.append(("melody.freq_to_voicing", (f2, v.copy()), {}))
    # matching helpers on caller-owned float arrays: chroma (wrapping) first, plain after
    nfr = r.randrange(1, 4)
    rf = [np.array([r.randrange(40 * 8, 90 * 8) / 8.0 for _ in range(r.randrange(0, 4))])
          for _ in range(nfr)]
    ef = [np.array([x + r.choice([0, 0.25, 12, -12, 0.5]) for x in f] +
                   [r.randrange(40 * 8, 90 * 8) / 8.0 for _ in range(r.randrange(0, 2))])
          for f in rf]
    ops.append(("multipitch.compute_num_true_positives", (rf, ef),
                {"window": 0.5, "chroma": True}))
    ops.append(("multipitch.compute_num_true_positives", (rf, ef), {"window": 0.5}))
    a1 = np.array([60.0, 73.0, 50.5, 47.25])
    a2 = np.array([72.25, 61.0, 38.0, 90.0])
    ops.append(("util._outer_distance_mod_n", (a1, a2), {}))
    ops.append(("util.match_events", (a1, a2, 0.5), {}))
    ops.append(("util.hz_to_midi", (np.array([220.0, 440.0, 446.0]),), {}))
    ops.append(("util.midi_to_hz", (np.array([57.0, 69.0, 69.25]),), {}))
    # non-uniform time base (linear interpolation path with its warning)
    tn = np.array([0.0, 0.125, 0.25, 0.5, 0.625, 1.0])
    fn_ = np.array([220.0, 220.0, 0.0, 330.0, 330.0, 440.0])
    ops.append(("melody.resample_melody_series",
                (tn, fn_, (fn_ > 0).astype(float), np.arange(0, 1.01, 0.0625)), {}))
    return ops


def sonify_ops(r):
    ops = []
    fs = 1000
    t = gen.events(r, kind="regular", max_n=6) / 4.0
    ops.append(("sonify.clicks", (t, fs), {}))
    if t.size:
        # output shorter than the last click: the truncation branches
        ops.append(("sonify.clicks", (t, fs), {"length": int(t[-1] * fs) + 10}))
        ops.append(("sonify.clicks", (t, fs), {"length": max(1, int(t[-1] * fs) - 5)}))
    rng = np.random.default_rng(r.randrange(2 ** 31))
    gram = np.abs(rng.standard_normal((4, 10)))
    ops.append(("sonify.time_frequency", (gram, np.array([110., 220., 330., 440.]),
                                          np.linspace(0, 1, 10), fs), {}))
    ops.append(("sonify.pitch_contour", (np.linspace(0, 1, 20),
                                         np.array([220.0, -220.0] * 10), fs), {}))
    # NaN is a documented "un-voiced" marker
    fq = np.array([220.0, np.nan, 330.0, 0.0, np.nan, 440.0, -110.0, 220.0])
    ops.append(("sonify.pitch_contour", (np.linspace(0, 1, 8), fq, fs), {}))
    ops.append(("sonify.pitch_contour", (np.linspace(0, 1, 8), np.abs(np.nan_to_num(fq)), fs),
                {"amplitudes": np.linspace(0.25, 1.0, 8)}))
    ops.append(("sonify.chroma", (np.abs(rng.standard_normal((12, 8))),
                                  np.linspace(0, 1, 8), fs), {}))
    ops.append(("sonify.chords", (["C", "D:min", "N", "X"],
                                  np.array([[0, .25], [.25, .5], [.5, .75], [.75, 1.]]),
                                  fs), {}))
    return ops


def separation_ops(r, n):
    ops = []
    for _ in range(n):
        rng = np.random.default_rng(r.randrange(2 ** 31))
        nsrc = r.choice([1, 2])
        L = 2 * nsrc * 512 + r.choice([0, 100])
        ref = rng.standard_normal((nsrc, L))
        est = ref @ np.eye(L)[:, :L] * 0.9 + 0.1 * rng.standard_normal((nsrc, L)) \
            if False else 0.9 * ref + 0.1 * rng.standard_normal((nsrc, L))
        kind = r.choice(["sources", "images", "frames", "images_frames_silent"])
        if kind == "sources":
            ops.append(("separation.bss_eval_sources", (ref, est), {}))
        elif kind == "images":
            ops.append(("separation.bss_eval_images", (ref, est), {}))
        elif kind == "frames":
            ops.append(("separation.bss_eval_sources_framewise", (ref, est),
                        {"window": L // 2 + 200, "hop": L // 4}))
        else:
            ref2 = ref.copy()
            ref2[0, : L // 2] = 0.0  # a silent window for source 0
            ops.append(("separation.bss_eval_images_framewise", (ref2, est),
                        {"window": L // 2, "hop": L // 2}))
    return ops


def task_ops(r, n):
    ops = []
    names = tasks.TASK_NAMES
    for i in range(n):
        t = tasks.TASKS[names[i % len(names)]]
        inp = t.gen(r)
        cs = t.calls(inp, r)
        ops.append(cs[r.randrange(len(cs))])
        if r.random() < 0.5:
            inp = t.gen_eval(r)
            a, kw = t.evaluate(inp, r)
            ops.append((t.name + ".evaluate", a, kw))
    return ops


# --------------------------------------------------------------- purity

def _client_purity(ctx, mods, ops, canary=True):
    """Client-boundary digests (covers the opaque deprecated wrappers too) and
    module-state canary around each driver operation."""
    state0 = san.module_state_items(mods) if canary else None
    for fn, args, kw in ops:
        f = resolve(fn, mods)
        before = digest((args, kw))
        snap = copy.deepcopy((args, kw))
        raised = False
        try:
            with warnings.catch_warnings():
                warnings.simplefilter("ignore")
                f(*args, **kw)
        except Exception:
            raised = True
            ctx.count("driver.raised")
        ctx.ev()
        ctx.count("client.purity_checks")
        if digest((args, kw)) != before:
            which = [i for i, (a, b) in enumerate(zip(args, snap[0]))
                     if digest(a) != digest(b)]
            pname = _param_name(f, which[0]) if which else "kwargs"
            mech = purity_mon._mech(fn, pname, None, None)
            if not mech and fn in ("segment.evaluate", "chord.evaluate",
                                   "hierarchy.evaluate"):
                mech = ""
            ctx.violation("C15/%s/mutates-argument/%s%s" % (
                fn, pname, ("/" + mech) if mech else ""),
                "mutates-argument", fn,
                "%s modified its argument %r (client boundary)" % (fn, pname),
                {"kind": "client", "fn": fn, "args": snap[0], "kwargs": snap[1]},
                witness={"fn": fn, "param": pname, "before": snap[0], "after": args,
                         "raised": raised})
        if canary:
            state1 = san.module_state_items(mods)
            if state1 != state0:
                changed = sorted(k for k in set(state0) | set(state1)
                                 if state0.get(k) != state1.get(k))
                ctx.violation("C15/%s/module-state-changed/%s" % (fn, changed[0]),
                              "module-state-changed", fn,
                              "module-level state %s changed during %s" % (changed, fn),
                              {"kind": "client", "fn": fn, "args": snap[0],
                               "kwargs": snap[1]})
                state0 = state1
            ctx.count("canary.checks")


def _param_name(f, idx):
    spec = getattr(f, "__verif_shim__", None)
    if spec is not None and idx < len(spec.params):
        return spec.params[idx]
    try:
        import inspect
        return list(inspect.signature(f).parameters)[idx]
    except Exception:
        return "arg%d" % idx


def run_purity(spec, ctx, mods):
    r = ctx.rng("purity")
    purity_mon.install(ctx, mods)
    n = spec["n"]
    ops = task_ops(r, n)
    for _ in range(max(2, n // 12)):
        ops += util_ops(r)
    for _ in range(max(1, n // 60)):
        ops += sonify_ops(r)
    ops += separation_ops(r, 1 if n < 500 else 4)
    r.shuffle(ops)
    _client_purity(ctx, mods, ops)
    if ctx.want_sample():
        fn, a, kw = ops[0]
        ctx.sample({"mode": "purity", "fn": fn, "args": short(a, 300),
                    "kwargs": short(kw, 100)})


def run_protected(spec, ctx, mods):
    """Write-protected pass: an in-place write to a caller-owned buffer raises
    at the exact line."""
    r = ctx.rng("protected")
    pkg = os.path.join(env.repo_dir(), "mir_eval") + os.sep
    n = spec["n"]
    ops = task_ops(r, n)
    for _ in range(max(2, n // 12)):
        ops += util_ops(r)
    ops += sonify_ops(r)
    for fn, args, kw in ops:
        f = resolve(fn, mods)
        changed = san.protect((args, kw))
        ctx.ev()
        ctx.count("protected.calls")
        try:
            with warnings.catch_warnings():
                warnings.simplefilter("ignore")
                f(*args, **kw)
        except ValueError as e:
            if "read-only" in str(e):
                info, innermost = san.innermost_repo_frame(sys.exc_info()[2], pkg)
                if info is not None and innermost:
                    site = "%s.%s" % (info[0].replace(".py", ""), info[2])
                    mech = ""
                    if site == "melody.freq_to_voicing":
                        mech = "/voicing-zeroed-in-place-where-frequency-is-0"
                    san.unprotect(changed)
                    ctx.violation("C15/%s/writes-protected-buffer%s" % (site, mech),
                                  "writes-protected-buffer", site,
                                  "in-place write to a caller-owned array at %s:%d "
                                  "`%s` (entered through %s)" % (
                                      info[0], info[1], info[3], fn),
                                  {"kind": "protected", "fn": fn, "args": args,
                                   "kwargs": kw},
                                  witness={"fn": fn, "line": info, "args": args})
                else:
                    ctx.count("protected.readonly_error_outside_mir_eval")
                    ctx.notes.append("read-only error not attributable to a "
                                     "mir_eval line in %s: %s" % (fn, info))
            else:
                ctx.count("driver.raised")
        except Exception:
            ctx.count("driver.raised")
        finally:
            san.unprotect(changed)
        if any(isinstance(a, np.ndarray) for a in args):
            ctx.nontrivial("protected", fn, [np.shape(a) for a in args
                                             if isinstance(a, np.ndarray)])


# -------------------------------------------------------------- history

def run_history(spec, ctx, mods):
    r = ctx.rng("history")
    proxies = san.install_poison(mods)
    ops = task_ops(r, spec["ops"])
    ops += util_ops(r) + sonify_ops(r) + separation_ops(r, spec["sep"])
    pool = [(i, fn, args, kw) for i, (fn, args, kw) in enumerate(ops)]
    frozen = [copy.deepcopy((args, kw)) for _, _, args, kw in pool]
    log_path = os.path.join(os.getcwd(), "%s.events.jsonl" % ctx.shard)
    schedules = []
    order = list(range(len(pool)))
    schedules.append(("in-order", list(order)))
    schedules.append(("reversed", list(reversed(order))))
    schedules.append(("each-repeated", [i for i in order for _ in (0, 1)]))
    by_task = sorted(order, key=lambda i: pool[i][1])
    schedules.append(("grouped-by-function", by_task))
    k = 0
    while len(schedules) < spec["schedules"]:
        o = list(order)
        r.shuffle(o)
        schedules.append(("shuffled-%d" % k, o))
        k += 1
    seq = 0
    with open(log_path, "w") as log:
        for sname, sched in schedules:
            for pos, i in enumerate(sched):
                _, fn, _, _ = pool[i]
                args, kw = copy.deepcopy(frozen[i])
                f = resolve(fn, mods)
                try:
                    with warnings.catch_warnings():
                        warnings.simplefilter("ignore")
                        res = f(*args, **kw)
                    outcome, val = "ret", digest(res)
                    poison = san.count_poison(res)
                except Exception as e:  # noqa: BLE001
                    outcome, val, poison = "raise", type(e).__name__, 0
                log.write(json.dumps({"seq": seq, "shard": ctx.shard, "op": i,
                                      "fn": fn, "schedule": sname, "pos": pos,
                                      "outcome": outcome, "value": val,
                                      "poison": poison}) + "\n")
                seq += 1
    san.remove_poison(mods, proxies)
    ctx.count("poisoned_allocations", sum(p.__dict__["poisoned_allocations"]
                                          for p in proxies.values()))
    check_history_log(ctx, log_path, pool, frozen)
    ctx.count("history.schedules", len(schedules))
    ctx.count("history.operations", len(pool))


def check_history_log(ctx, path, pool, frozen):
    """Offline checker over the recorded event log."""
    by_op = {}
    n = 0
    with open(path) as f:
        for line in f:
            e = json.loads(line)
            n += 1
            by_op.setdefault(e["op"], []).append(e)
    ctx.ev(n)
    ctx.count("history.events", n)
    for op, evs in by_op.items():
        fn = evs[0]["fn"]
        vals = {(e["outcome"], e["value"]) for e in evs}
        ctx.nontrivial("history-op", fn, digest(frozen[op]))
        ctx.hist("history.positions_per_op", len(evs) if len(evs) < 50 else "50+")
        if len(vals) > 1:
            a = evs[0]
            b = next(e for e in evs if (e["outcome"], e["value"]) != (a["outcome"], a["value"]))
            ctx.violation("C15/%s/not-repeatable" % fn, "not-repeatable", fn,
                          "%s gave different results at (%s,#%d) and (%s,#%d) of "
                          "one interpreter history" % (fn, a["schedule"], a["pos"],
                                                       b["schedule"], b["pos"]),
                          {"kind": "repeat", "fn": fn, "args": frozen[op][0],
                           "kwargs": frozen[op][1]},
                          witness={"fn": fn, "args": frozen[op][0], "events": [a, b]})
        pz = max(e["poison"] for e in evs)
        if pz:
            mech = ""
            if fn == "separation.bss_eval_images_framewise":
                mech = "/silent-window-leaves-isr-unwritten"
            ctx.violation("C15/%s/uninitialised-memory-in-result%s" % (fn, mech),
                          "uninitialised-memory", fn,
                          "%d element(s) of the result of %s were never written "
                          "(np.empty poison pattern)" % (pz, fn),
                          {"kind": "poison", "fn": fn, "args": frozen[op][0],
                           "kwargs": frozen[op][1]},
                          witness={"fn": fn, "args": frozen[op][0],
                                   "kwargs": frozen[op][1], "poisoned": pz})


def run_shard(spec, ctx):
    mods = env.load_repo()
    if spec["kind"] == "w7":
        from . import w7
        purity_mon.install(ctx, mods)
        w7.run(spec, ctx)
    else:
        {"purity": run_purity, "protected": run_protected,
         "history": run_history}[spec["kind"]](spec, ctx, mods)
    n, problems = shim.fidelity_report()
    ctx.count("noninterference.shims_checked", n)
    if problems:
        ctx.mark_inconclusive("shim fidelity: %r" % problems[:3])


def replay(case, ctx):
    mods = env.load_repo()
    k = case["kind"]
    op = [(case["fn"], case["args"], case["kwargs"])]
    if k in ("call", "client"):
        purity_mon.install(ctx, mods)
        _client_purity(ctx, mods, op, canary=True)
    elif k == "protected":
        class S(dict):
            pass
        r_ops = op
        pkg = os.path.join(env.repo_dir(), "mir_eval") + os.sep
        fn, args, kw = op[0]
        f = resolve(fn, mods)
        changed = san.protect((args, kw))
        try:
            f(*args, **kw)
        except ValueError as e:
            if "read-only" in str(e):
                info, innermost = san.innermost_repo_frame(sys.exc_info()[2], pkg)
                if info is not None and innermost:
                    site = "%s.%s" % (info[0].replace(".py", ""), info[2])
                    ctx.violation("C15/%s/writes-protected-buffer" % site,
                                  "writes-protected-buffer", site,
                                  "in-place write at %s:%d" % (info[0], info[1]), case)
        except Exception:
            pass
        finally:
            san.unprotect(changed)
    else:
        proxies = san.install_poison(mods)
        fn, args, kw = op[0]
        f = resolve(fn, mods)
        vals = []
        pz = 0
        for _ in range(3):
            a, k2 = copy.deepcopy((args, kw))
            try:
                res = f(*a, **k2)
                vals.append(digest(res))
                pz = max(pz, san.count_poison(res))
            except Exception as e:  # noqa: BLE001
                vals.append(type(e).__name__)
        san.remove_poison(mods, proxies)
        if len(set(vals)) > 1:
            ctx.violation("C15/%s/not-repeatable" % fn, "not-repeatable", fn,
                          "different results on repetition", case)
        if pz:
            ctx.violation("C15/%s/uninitialised-memory-in-result" % fn,
                          "uninitialised-memory", fn, "poison in result", case)


def finalize(m, tier):
    c = m["counters"]
    if c.get("contract.purity", 0) == 0:
        m["inconclusive"].append("purity contract never evaluated")
    if c.get("history.events", 0) == 0:
        m["inconclusive"].append("no history events recorded")
    if c.get("poisoned_allocations", 0) == 0:
        m["inconclusive"].append("poison proxy never allocated (np.empty not reached)")
    if c.get("protected.calls", 0) == 0:
        m["inconclusive"].append("write-protected pass did not run")
