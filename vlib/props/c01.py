"""C01 -- proportion-type scores are finite and lie in [0, 1]."""

from .. import env, shim, workloads
from ..monitors import range_mon
from ..tasks import TASK_NAMES

LEVEL = "exploration"
RULE = ("Range/type post-conditions (vlib/kinds.py, from the 'Returns' docstrings) "
        "are evaluated on every return of every public metric function and every "
        "evaluate() of the 13 task modules while seeded generators of *valid* "
        "inputs (empty, single, duplicated, clustered, disjoint, identical, "
        "subset/superset, boundary-coincident; parameters drawn from documented "
        "ranges; dyadic time lattice) drive them, plus the repository's own test "
        "modules run under the same monitors. Non-trivial = distinct (function, "
        "arguments, keywords) whose result has a component strictly between 0 "
        "and 1.")
ASSUMPTIONS = [
    "validity of generated inputs is my reading of the documented conventions "
    "(vlib/tasks.py), never the library's validators",
    "1e-9 slack on [0, 1]; P-score bounded above only when beats are further "
    "apart than twice the correlation window (+30 ms quantisation slack); AOR "
    "only from above; ARI/AMI only from above (NaN counted, not judged)",
]


def plan(tier, seed):
    n = 700 if tier == "quick" else 12000
    shards = []
    k = 14 if tier == "quick" else 16
    for p in range(k):
        shards.append({"name": "valid-%d" % p, "kind": "valid", "n": n})
    from . import w7
    shards += w7.plan(tier)
    return shards


def run_shard(spec, ctx):
    mods = env.load_repo()
    if spec["kind"] == "valid":
        range_mon.install(ctx, mods)
        import os
        from .. import san
        # floating-point exception traps: diagnostic only (origin of every
        # NaN/Inf by mir_eval line), never a verdict
        with san.FpTrap(os.path.join(env.repo_dir(), "mir_eval") + os.sep) as trap:
            workloads.run_valid(ctx, mods, spec["n"] * len(TASK_NAMES) // 13,
                                ctx.rng("valid"), on_ret=_sampler(ctx))
            _doubled_note_patterns(ctx, mods, ctx.rng("dups"), max(5, spec["n"] // 8))
        for k, v in trap.events.items():
            ctx.hist("fp_trap_origins(diagnostic)", k, v)
    else:
        from . import w7
        from .. import valid
        range_mon.install(ctx, mods, valid_for=valid.PREDICATES_ALL)
        w7.run(spec, ctx)
    n, problems = shim.fidelity_report()
    ctx.count("noninterference.shims_checked", n)
    if problems:
        ctx.mark_inconclusive("shim fidelity: %r" % problems[:3])


def _doubled_note_patterns(ctx, mods, r, n):
    """Pattern occurrences in which a note is listed twice (two voices in
    unison): admitted by the validator, absent from the shared generator."""
    from .. import tasks
    for _ in range(n):
        inp = tasks.gen_pattern_doubled(r)
        workloads.run_calls(ctx, mods, tasks.calls_pattern(inp, r))
        a, kw = tasks.eval_pattern(inp, r)
        workloads.run_calls(ctx, mods, [("pattern.evaluate", a, kw)])
    ctx.count("doubled_note_pattern_cases", n)


def _sampler(ctx):
    from ..ctx import short

    def on_ret(fn, args, kw, res, cls):
        if ctx.want_sample() and ctx.evaluations % 97 == 0:
            ctx.sample({"fn": fn, "args": short(args, 300), "kwargs": short(kw, 120),
                        "result": short(res, 300), "input_class": cls})
    return on_ret


def replay(case, ctx):
    mods = env.load_repo()
    range_mon.install(ctx, mods)
    from ..replay import call_again
    call_again(case, mods)


def finalize(m, tier):
    c = m["counters"]
    missing = [fn for fn in range_mon.FN_KINDS if c.get("contract." + fn, 0) == 0
               and not fn.startswith("multipitch.compute_")]
    missing += [t + ".evaluate" for t in range_mon.EVAL_KINDS
                if c.get("contract.%s.evaluate" % t, 0) == 0]
    if missing:
        m["inconclusive"].append("contracts never evaluated: %s" % missing)
