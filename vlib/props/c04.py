"""C04 -- event, frame and note metrics equal their published definitions."""

import glob
import json
import os
import warnings

import numpy as np

from .. import env, shim, workloads, tasks, gen
from ..monitors import ref_mon

LEVEL = "exploration"
RULE = ("A reference-model post-condition on every listed metric function (all "
        "observed calls, client and internal from evaluate()): the value is "
        "recomputed by an independent executable specification written from the "
        "documented definitions with different algorithms (exact rationals, brute-"
        "force maximum matching, pair counting instead of correlation, bisect "
        "instead of scipy interpolation, closed-form skew-normal) and compared to "
        "1e-9; inputs the oracle reports within 1e-7 of a threshold are skipped and "
        "counted. Workloads: the seeded valid generators on the dyadic lattice "
        "(incl. distances equal to a tolerance) with all documented parameter "
        "values, perturbed repository fixtures, and the key-pair / tempo-hit domains "
        "exhaustively. Non-trivial = distinct (function, arguments) whose value is "
        "strictly between 0 and 1.")
ASSUMPTIONS = [
    "oracles under vlib/oracles/*_ref.py are independent restatements of the "
    "documented definitions (validated against the library on > 10^5 cases, every "
    "disagreement class read against the docs)",
    "Goto and continuity are procedural definitions: their oracles restate the "
    "published procedure in exact arithmetic (independence caveat, DESIGN §5 C04)",
    "pattern.standard_FPR is outside the statement's list and not judged here; key "
    "pairs involving mode 'other' only against the unambiguous rows",
]
EXHAUSTIVE = {"quick": False, "thorough": False}
EXHAUSTIVE_DOMAIN = {
    "quick": "sub-domains exhaustive: all ordered pairs of the 52 admitted key "
             "strings; tempo hit-flag domain {0, hit, miss}^2 x swap x 4 weights",
    "thorough": "same exhaustive sub-domains",
}


def plan(tier, seed):
    n = 600 if tier == "quick" else 9000
    shards = [{"name": "valid-%d" % p, "kind": "valid", "n": n}
              for p in range(14)]
    shards.append({"name": "domains", "kind": "domains"})
    shards.append({"name": "fixtures", "kind": "fixtures",
                   "n": 5 if tier == "quick" else 40})
    from . import w7
    mods = ["test_onset.py", "test_tempo.py", "test_key.py", "test_alignment.py",
            "test_pattern.py"]
    if tier == "thorough":
        mods += ["test_beat.py", "test_melody.py", "test_multipitch.py",
                 "test_transcription.py", "test_transcription_velocity.py",
                 "test_segment.py"]
    shards += w7.plan(tier, modules=mods)
    return shards


def wl_domains(ctx, mods):
    key, tempo = mods["key"], mods["tempo"]
    keys = tasks.all_keys(tasks.KEY_MODES)
    n = 0
    for a in keys:
        for b in keys:
            key.weighted_score(a, b)
            n += 1
    ctx.count("key_pairs_enumerated", n)
    n = 0
    for r0 in (0.0, 60.0):
        for r1 in (0.0, 120.0):
            if r0 == 0 and r1 == 0:
                continue
            for e0 in ("hit", "miss", "zero"):
                for e1 in ("hit", "miss", "zero"):
                    for w in (0.0, 0.25, 0.5, 1.0):
                        for swap in (False, True):
                            def est(ref, how, other):
                                base = ref if ref > 0 else other
                                return {"hit": base * 1.0625, "miss": base * 1.5,
                                        "zero": 0.0}[how]
                            e = np.array([est(r0, e0, r1), est(r1, e1, r0)])
                            if swap:
                                e = e[::-1].copy()
                            with warnings.catch_warnings():
                                warnings.simplefilter("ignore")
                                tempo.detection(np.array([r0, r1]), w, e, tol=0.08)
                                tempo.detection(np.array([r0, r1]), w, e, tol=0.0625)
                            n += 2
    ctx.count("tempo_flag_cases_enumerated", n)


def _perturb_events(r, x):
    x = np.asarray(x, dtype=float)
    if x.size > 60:
        a = r.randrange(0, x.size - 60)
        x = x[a:a + 60]
    kind = r.choice(["same", "jitter", "drop", "dup", "shift"])
    if kind == "jitter":
        x = np.sort(np.maximum(0, x + np.array([r.choice([-0.02, 0, 0.01, 0.03])
                                                  for _ in x])))
    elif kind == "drop":
        x = np.array([t for t in x if r.random() < 0.8])
    elif kind == "dup" and x.size:
        x = np.sort(np.append(x, x[r.randrange(x.size)]))
    elif kind == "shift":
        x = x + 0.025
    return x


def wl_fixtures(spec, ctx, mods):
    """Repository fixtures (tests/data) as seeds, perturbed."""
    r = ctx.rng("fixtures")
    data = os.path.join(env.repo_dir(), "tests", "data")
    io = mods["io"]
    with warnings.catch_warnings():
        warnings.simplefilter("ignore")
        for task, loader in (("beat", io.load_events), ("onset", io.load_events)):
            refs = sorted(glob.glob(os.path.join(data, task, "ref*.txt")))
            ests = sorted(glob.glob(os.path.join(data, task, "est*.txt")))
            for rf, ef in list(zip(refs, ests))[: spec["n"]]:
                ref, est = loader(rf), loader(ef)
                for _ in range(3):
                    a, b = _perturb_events(r, ref), _perturb_events(r, est)
                    try:
                        if task == "beat":
                            mods["beat"].evaluate(a, b)
                        else:
                            mods["onset"].evaluate(a, b)
                    except Exception:
                        ctx.count("driver.raised")
                    ctx.count("fixture_cases." + task)
        refs = sorted(glob.glob(os.path.join(data, "segment", "ref*.lab")))
        ests = sorted(glob.glob(os.path.join(data, "segment", "est*.lab")))
        for rf, ef in list(zip(refs, ests))[: spec["n"]]:
            (ri, _), (ei, _) = io.load_labeled_intervals(rf), io.load_labeled_intervals(ef)
            for w in (0.5, 3.0):
                for trim in (False, True):
                    try:
                        mods["segment"].detection(ri, ei, window=w, trim=trim)
                        mods["segment"].deviation(ri, ei, trim=trim)
                    except Exception:
                        ctx.count("driver.raised")
            ctx.count("fixture_cases.segment")
        for task in ("tempo", "key", "alignment", "pattern"):
            refs = sorted(glob.glob(os.path.join(data, task, "ref*")))
            ests = sorted(glob.glob(os.path.join(data, task, "est*")))
            for rf, ef in list(zip(refs, ests))[: spec["n"]]:
                try:
                    if task == "tempo":
                        (rt, w), (et, _) = io.load_tempo(rf), io.load_tempo(ef)
                        mods["tempo"].evaluate(rt, w, et)
                    elif task == "key":
                        mods["key"].evaluate(io.load_key(rf), io.load_key(ef))
                    elif task == "pattern":
                        rp, ep = io.load_patterns(rf), io.load_patterns(ef)
                        if len(rp) <= 8 and len(ep) <= 8:
                            mods["pattern"].evaluate(rp, ep)
                    else:
                        with open(rf) as f1, open(ef) as f2:
                            pass
                except Exception:
                    ctx.count("driver.raised")
                ctx.count("fixture_cases." + task)


def run_shard(spec, ctx):
    mods = env.load_repo()
    fns = ref_mon.install(ctx, mods)
    ctx.count("oracles_installed", len(fns) if spec["name"] == "domains" else 0)
    if spec["kind"] == "valid":
        workloads.run_valid(ctx, mods, spec["n"], ctx.rng("valid"))
    elif spec["kind"] == "domains":
        wl_domains(ctx, mods)
    elif spec["kind"] == "w7":
        # the repository's regression fixtures are much larger than the generated
        # inputs: raise the oracles' size bounds for these shards
        ref_mon.SCALE = 400
        from . import w7
        w7.run(spec, ctx)
    else:
        wl_fixtures(spec, ctx, mods)
    n, problems = shim.fidelity_report()
    if problems:
        ctx.mark_inconclusive("shim fidelity: %r" % problems[:3])


def replay(case, ctx):
    mods = env.load_repo()
    ref_mon.install(ctx, mods)
    from ..replay import call_again
    call_again(case, mods)


def finalize(m, tier):
    h = m["hists"].get("compared", {})
    missing = [fn for fn in ref_mon._table() if h.get(fn, 0) == 0]
    if missing:
        m["inconclusive"].append("oracle never compared: %s" % missing)
