"""C06 -- swapping reference and estimate exchanges precision and recall."""

import numpy as np

from .. import env, gen, tasks
from ..evlog import Relations, close_enough

Q = gen.Q
LEVEL = "exploration"
TOL = 1e-9
RULE = ("For seeded pairs (a, b) admissible in both roles and deliberately of "
        "unequal size, metric(a, b) and metric(b, a) are executed and logged "
        "(rel, role ab/ba); an offline checker over the event log applies the swap "
        "table: P<->R (over<->under, ref-to-est<->est-to-ref) and symmetric scores "
        "unchanged, for beat/onset F, boundary detection/deviation, pairwise, Rand, "
        "ARI, MI/AMI/NMI, NCE, V-measure, chord over/under-segmentation, multipitch "
        "P/R/accuracy (raw and chroma), transcription onset-only and no-offset "
        "matching, pattern establishment/occurrence/three-layer, hierarchy T- and "
        "L-measure. Non-trivial = distinct pair with |a| != |b| or P != R.")
ASSUMPTIONS = [
    "tolerance 1e-9 (mirrored arithmetic is not always bit-identical)",
    "asymmetric-by-definition scores (offset-ratio matching, multipitch error "
    "rates, first-n pattern scores, AOR whose value depends on which maximum "
    "matching is chosen) are excluded",
]

# fn -> list of (index in ab result, index in ba result); None = scalar
SWAP = {
    "beat.f_measure": [(None, None)],
    "beat.evaluate": [("F-measure", "F-measure")],
    "onset.f_measure": [(0, 0), (1, 2), (2, 1)],
    "segment.detection": [(0, 1), (1, 0), (2, 2)],
    "segment.deviation": [(0, 1), (1, 0)],
    "segment.pairwise": [(0, 1), (1, 0), (2, 2)],
    "segment.rand_index": [(None, None)],
    "segment.ari": [(None, None)],
    "segment.mutual_information": [(0, 0), (1, 1), (2, 2)],
    "segment.nce": [(0, 1), (1, 0), (2, 2)],
    "segment.vmeasure": [(0, 1), (1, 0), (2, 2)],
    "chord.seg": [(None, None)],
    "multipitch.metrics": [(0, 1), (1, 0), (2, 2), (7, 8), (8, 7), (9, 9)],
    "transcription.onset_precision_recall_f1": [(0, 1), (1, 0), (2, 2)],
    "transcription.precision_recall_f1_overlap": [(0, 1), (1, 0), (2, 2)],
    "pattern.establishment_FPR": [(0, 0), (1, 2), (2, 1)],
    "pattern.occurrence_FPR": [(0, 0), (1, 2), (2, 1)],
    "pattern.three_layer_FPR": [(0, 0), (1, 2), (2, 1)],
    "hierarchy.tmeasure": [(0, 1), (1, 0), (2, 2)],
    "hierarchy.lmeasure": [(0, 1), (1, 0), (2, 2)],
}


def plan(tier, seed):
    n = 220 if tier == "quick" else 4000
    return [{"name": "swap-%d" % p, "n": n} for p in range(16)]


def _get(v, i):
    return v if i is None else v[i]


def check_swap(fn):
    def chk(ev, meta):
        a, b = ev["ab"]["value"], ev["ba"]["value"]
        bad = []
        for i, j in SWAP[fn]:
            x, y = _get(a, i), _get(b, j)
            if not close_enough(x, y, TOL):
                bad.append(("swap[%s<->%s]" % (i, j),
                            "%s(a,b)[%s] = %r but %s(b,a)[%s] = %r" % (fn, i, x, fn, j, y)))
        return bad
    return chk


def check_overunder(ev, meta):
    a, b = ev["over_ab"]["value"], ev["under_ba"]["value"]
    if not close_enough(a, b, TOL):
        return [("overseg-underseg", "overseg(a,b) = %r but underseg(b,a) = %r" % (a, b))]
    return []


CHECKERS = {fn: check_swap(fn) for fn in SWAP}
CHECKERS["chord.over-under"] = check_overunder


def two(fn, a_args, b_args, kw, nt):
    return {"kind": fn, "calls": [("ab", fn, a_args, kw), ("ba", fn, b_args, kw)],
            "nt": nt}


def instances(r):
    out = []
    # events
    ref = gen.events(r)
    est = gen.related_events(r, ref)
    w = r.choice(gen.DYADIC_WINDOWS[2:] + [0.07, 0.05])
    nt = ("ev", ref, est, w) if ref.size != est.size else None
    out.append(two("beat.f_measure", (ref, est), (est, ref), {"f_measure_threshold": w}, nt))
    out.append(two("onset.f_measure", (ref, est), (est, ref), {"window": w}, nt))
    # evaluate() trims both sides at the same (possibly non-default) time
    mbt = r.choice([5.0, 0.0, 2.0, 7.0])
    bref = gen.events(r, kind=r.choice(["regular", "jitter"]))
    best = gen.related_events(r, bref)
    # (sequences squeezed into one 10 ms bin hit a listed C14 finding: not used here)
    if bref.size >= 3 and best.size >= 3 and np.ptp(bref[bref >= mbt]) > 1 \
            and np.ptp(best[best >= mbt]) > 1 if (bref >= mbt).sum() >= 3 and \
            (best >= mbt).sum() >= 3 else False:
        out.append(two("beat.evaluate", (bref, best), (best, bref), {"min_beat_time": mbt},
                       ("beat-eval", bref, best, mbt) if bref.size != best.size else None))
    # segments (same span)
    s = tasks.gen_segment(r, allow_empty=False)
    a4 = (s["ref_iv"], s["ref_lab"], s["est_iv"], s["est_lab"])
    b4 = (s["est_iv"], s["est_lab"], s["ref_iv"], s["ref_lab"])
    fs = r.choice([0.5, 0.25, 1.0])
    nts = ("seg", s["ref_iv"], s["est_iv"], tuple(s["ref_lab"]), tuple(s["est_lab"]), fs) \
        if len(s["ref_iv"]) != len(s["est_iv"]) else None
    trim = r.random() < 0.4
    out.append(two("segment.detection", (s["ref_iv"], s["est_iv"]),
                   (s["est_iv"], s["ref_iv"]),
                   {"window": r.choice([0.5, 3.0, 0.25]), "trim": trim}, nts))
    out.append(two("segment.deviation", (s["ref_iv"], s["est_iv"]),
                   (s["est_iv"], s["ref_iv"]), {"trim": trim}, nts))
    # boundary metrics take any valid interval arrays: different spans, gaps
    ga, gb = gen.gapped_intervals(r), gen.gapped_intervals(r)
    trim2 = r.random() < 0.6
    ntg = ("gapped", ga, gb, trim2) if len(ga) != len(gb) else None
    out.append(two("segment.detection", (ga, gb), (gb, ga),
                   {"window": r.choice([0.5, 3.0, 0.25]), "trim": trim2}, ntg))
    out.append(two("segment.deviation", (ga, gb), (gb, ga), {"trim": trim2}, ntg))
    for fn in ("segment.pairwise", "segment.rand_index", "segment.ari",
               "segment.mutual_information", "segment.vmeasure"):
        out.append(two(fn, a4, b4, {"frame_size": fs}, nts))
    out.append(two("segment.nce", a4, b4, {"frame_size": fs,
                                           "marginal": r.random() < 0.5}, nts))
    # chord segmentation scores on a common (possibly non-zero) span
    off = r.choice([0, 0, 64]) / Q
    ci, cj = s["ref_iv"] + off, s["est_iv"] + off
    out.append(two("chord.seg", (ci, cj), (cj, ci), {}, nts))
    out.append({"kind": "chord.over-under", "site": "chord.overseg",
                "calls": [("over_ab", "chord.overseg", (ci, cj), {}),
                          ("under_ba", "chord.underseg", (cj, ci), {})], "nt": nts})
    # over/under-segmentation of arbitrary interval lists: different spans, gaps,
    # a single segment that starts or ends inside a segment of the other side
    if r.random() < 0.5:
        gc = gb
    else:
        lo = ga[0, 0] + r.randrange(0, 64) / Q
        gc = np.array([[lo, lo + r.randrange(1, 256) / Q]])
    out.append({"kind": "chord.over-under", "site": "chord.overseg",
                "calls": [("over_ab", "chord.overseg", (ga, gc), {}),
                          ("under_ba", "chord.underseg", (gc, ga), {})],
                "nt": ("over-under-gapped", ga, gc)})
    out.append({"kind": "chord.over-under", "site": "chord.overseg",
                "calls": [("over_ab", "chord.overseg", (gc, ga), {}),
                          ("under_ba", "chord.underseg", (ga, gc), {})],
                "nt": ("over-under-gapped-r", ga, gc)})
    # multipitch on a shared time base (identical, or equal to the last few ulps
    # as two tools computing k*hop differently would write it)
    t, fr = gen.multipitch(r, n_frames=r.randrange(1, 12))
    _, efr = gen.related_multipitch(r, t, fr)
    if len(efr) == len(fr):
        mw = r.choice([0.5, 0.25, 1.0])
        t2 = t.copy()
        u = r.random()
        if u < 0.2:
            t2 = np.nextafter(t, np.inf)
        elif u < 0.4:
            t2 = np.nextafter(t, -np.inf) if t[0] > 0 else np.nextafter(t, np.inf)
        out.append(two("multipitch.metrics", (t, fr, t2, efr),
                       (t2, efr, t, fr), {"window": mw},
                       ("mp", t, t2, fr, efr, mw)))
    # notes
    n = tasks.gen_transcription(r)
    if len(n["ref_iv"]) and len(n["est_iv"]):
        strict = r.random() < 0.5
        ot = r.choice([0.05, 1 / 32, 1 / 8])
        ntn = ("notes", n["ref_iv"], n["est_iv"], strict, ot) \
            if len(n["ref_iv"]) != len(n["est_iv"]) else None
        out.append(two("transcription.onset_precision_recall_f1",
                       (n["ref_iv"], n["est_iv"]), (n["est_iv"], n["ref_iv"]),
                       {"onset_tolerance": ot, "strict": strict}, ntn))
        out.append(two("transcription.precision_recall_f1_overlap",
                       (n["ref_iv"], n["ref_p"], n["est_iv"], n["est_p"]),
                       (n["est_iv"], n["est_p"], n["ref_iv"], n["ref_p"]),
                       {"onset_tolerance": ot, "strict": strict, "offset_ratio": None,
                        "pitch_tolerance": r.choice([50.0, 100.0])}, ntn))
    # patterns
    p = tasks.gen_pattern(r) if r.random() < 0.7 else tasks.gen_pattern_doubled(r)
    if p["ref"] and p["est"]:
        ntp = ("pat", repr(p["ref"]), repr(p["est"])) if len(p["ref"]) != len(p["est"]) \
            else None
        a, b = (p["ref"], p["est"]), (p["est"], p["ref"])
        out.append(two("pattern.establishment_FPR", a, b, {}, ntp))
        out.append(two("pattern.occurrence_FPR", a, b,
                       {"thres": r.choice([0.75, 0.5])}, ntp))
        out.append(two("pattern.three_layer_FPR", a, b, {}, ntp))
    # hierarchies (common span)
    h = tasks.gen_hierarchy(r)
    fsz = r.choice([0.5, 0.25])
    nth = ("hier", [x.tolist() for x in h["ref_ivs"]], [x.tolist() for x in h["est_ivs"]], fsz)
    out.append(two("hierarchy.tmeasure", (h["ref_ivs"], h["est_ivs"]),
                   (h["est_ivs"], h["ref_ivs"]),
                   {"frame_size": fsz, "window": r.choice([None, 2.0, 4.0]),
                    "transitive": r.random() < 0.5}, nth))
    out.append(two("hierarchy.lmeasure",
                   (h["ref_ivs"], h["ref_labs"], h["est_ivs"], h["est_labs"]),
                   (h["est_ivs"], h["est_labs"], h["ref_ivs"], h["ref_labs"]),
                   {"frame_size": fsz}, nth))
    return out


def run_shard(spec, ctx):
    mods = env.load_repo()
    r = ctx.rng("swap")
    rel = Relations(ctx, mods, "C06")
    for _ in range(spec["n"]):
        for inst in instances(r):
            rel.run(inst)
    rel.check(CHECKERS)


def replay(case, ctx):
    mods = env.load_repo()
    rel = Relations(ctx, mods, "C06")
    rel.run(case["inst"])
    rel.check(CHECKERS)


def finalize(m, tier):
    h = m["hists"].get("relation_instances", {})
    missing = [k for k in CHECKERS if k not in h]
    if missing:
        m["inconclusive"].append("relation kinds never exercised: %s" % missing)
