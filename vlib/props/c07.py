"""C07 -- looser criteria never lower a score; nested criteria are ordered."""

import numpy as np

from .. import env, gen, tasks
from ..evlog import Relations
from ..oracles import matching as om

Q = gen.Q
LEVEL = "exploration"
EPS = 1e-12
RULE = ("(chains) one function is executed on one seeded valid input for an "
        "increasing sequence of 4-6 values of one tolerance (values equal to an "
        "existing distance included), each execution logged with role = parameter "
        "value; an offline checker over the event log requires hits / precision / "
        "recall / F / accuracy to be non-decreasing along the chain (and strict=True "
        "<= strict=False). (nested) one evaluate() result must satisfy: with-offset "
        "<= no-offset <= onset-only, velocity <= plain, raw pitch <= raw chroma, "
        "multipitch raw <= chroma, Cemgil <= best-level Cemgil, CMLc <= CMLt, AMLc "
        "<= AMLt, CML <= AML, Both-correct => One-correct. Non-trivial = chain "
        "along which the score changes at least once / nested pair with strict "
        "inequality.")
ASSUMPTIONS = [
    "multipitch raw <= chroma is only judged when no pitch pair is within 1e-9 of "
    "the window in raw or mod-12 distance (MIDI conversion is inexact)",
]

# fn -> (parameter, component indices that must be monotone; None = scalar)
CHAINS = {
    "beat.f_measure": ("f_measure_threshold", [None]),
    "onset.f_measure": ("window", [0, 1, 2]),
    "segment.detection": ("window", [0, 1, 2]),
    "transcription.onset_precision_recall_f1": ("onset_tolerance", [0, 1, 2]),
    "alignment.percentage_correct": ("window", [None]),
    "tempo.detection": ("tol", [0, 1, 2]),
    "melody.raw_pitch_accuracy": ("cent_tolerance", [None]),
    "melody.raw_chroma_accuracy": ("cent_tolerance", [None]),
    "melody.overall_accuracy": ("cent_tolerance", [None]),
    "multipitch.metrics": ("window", [0, 1, 2, 7, 8, 9]),
}
NOTE_PARAMS = ["onset_tolerance", "pitch_tolerance", "offset_ratio",
               "offset_min_tolerance"]


def plan(tier, seed):
    n = 220 if tier == "quick" else 4000
    return [{"name": "mono-%d" % p, "n": n} for p in range(16)]


def _get(v, i):
    return v if i is None else v[i]


def check_chain(ev, meta):
    roles = sorted(ev, key=lambda s: int(s.split(":")[0]))
    bad = []
    comps = meta["comps"]
    changed = False
    for a, b in zip(roles[:-1], roles[1:]):
        for i in comps:
            x, y = float(_get(ev[a]["value"], i)), float(_get(ev[b]["value"], i))
            if x != y:
                changed = True
            if not (y >= x - EPS) or y != y or x != x:
                bad.append(("decreases[%s]" % i,
                            "%s component %s drops from %r at %s to %r at %s" % (
                                meta["fn"], i, x, a, y, b)))
    meta["changed"] = changed
    return bad


PAIRS = {
    "transcription.evaluate": [
        ("Precision", "Precision_no_offset"), ("Recall", "Recall_no_offset"),
        ("F-measure", "F-measure_no_offset"),
        ("Precision_no_offset", "Onset_Precision"),
        ("Recall_no_offset", "Onset_Recall"), ("F-measure_no_offset", "Onset_F-measure")],
    "melody.evaluate": [("Raw Pitch Accuracy", "Raw Chroma Accuracy")],
    "multipitch.evaluate": [("Precision", "Chroma Precision"),
                            ("Recall", "Chroma Recall"),
                            ("Accuracy", "Chroma Accuracy")],
    "beat.evaluate": [("Cemgil", "Cemgil Best Metric Level"),
                      ("Correct Metric Level Continuous", "Correct Metric Level Total"),
                      ("Any Metric Level Continuous", "Any Metric Level Total"),
                      ("Correct Metric Level Continuous", "Any Metric Level Continuous"),
                      ("Correct Metric Level Total", "Any Metric Level Total")],
    "tempo.evaluate": [("Both-correct", "One-correct")],
}


def check_nested(ev, meta):
    v = ev["eval"]["value"]
    bad = []
    strict = False
    for lo, hi in PAIRS[meta["fn"]]:
        if lo not in v or hi not in v:
            continue
        a, b = float(v[lo]), float(v[hi])
        if a != a or b != b:
            continue
        if b > a:
            strict = True
        if a > b + 1e-9:
            bad.append(("order[%s<=%s]" % (lo, hi),
                        "%s: %r = %r exceeds %r = %r" % (meta["fn"], lo, a, hi, b)))
    meta["changed"] = strict
    return bad


def check_vel(ev, meta):
    v, p = ev["velocity"]["value"], ev["plain"]["value"]
    bad = []
    for k in ("Precision", "Recall", "F-measure", "Precision_no_offset",
              "Recall_no_offset", "F-measure_no_offset"):
        if float(v[k]) > float(p[k]) + 1e-9:
            bad.append(("velocity<=plain[%s]" % k,
                        "with velocity %r = %r exceeds plain transcription %r" % (
                            k, v[k], p[k])))
    meta["changed"] = any(float(v[k]) < float(p[k]) for k in ("Precision", "Recall"))
    return bad


def check_velfn(ev, meta):
    v, p = ev["velocity"]["value"], ev["plain"]["value"]
    bad = []
    for i, k in enumerate(("precision", "recall", "f-measure")):
        if float(v[i]) > float(p[i]) + 1e-9:
            bad.append(("velocity<=plain[%s]" % k,
                        "with velocity %s = %r exceeds plain transcription %r" % (
                            k, v[i], p[i])))
    meta["changed"] = any(float(v[i]) < float(p[i]) for i in (0, 1))
    return bad


def check_strict(ev, meta):
    s, n = ev["strict"]["value"], ev["nonstrict"]["value"]
    bad = []
    for i in meta["comps"]:
        if float(_get(s, i)) > float(_get(n, i)) + EPS:
            bad.append(("strict<=nonstrict[%s]" % i,
                        "%s component %s: strict=True gives %r > strict=False %r" % (
                            meta["fn"], i, _get(s, i), _get(n, i))))
    meta["changed"] = any(float(_get(s, i)) != float(_get(n, i)) for i in meta["comps"])
    return bad


CHECKERS = {"chain": check_chain, "nested": check_nested, "vel": check_vel,
            "velfn": check_velfn,
            "strict": check_strict}


def chain(fn, args, kw, param, values, comps, nt):
    values = sorted(set(values))
    calls = [("%d:%s=%r" % (i, param, v), fn, args, dict(kw, **{param: v}))
             for i, v in enumerate(values)]
    return {"kind": "chain", "site": fn, "calls": calls,
            "meta": {"fn": fn, "param": param, "comps": comps}, "nt": nt}


def _distances(a, b):
    a, b = np.asarray(a, dtype=float), np.asarray(b, dtype=float)
    if a.size == 0 or b.size == 0:
        return []
    d = np.abs(np.subtract.outer(a, b)).ravel()
    return sorted(set(d[d < 4].tolist()))


def window_values(r, dists, base):
    vals = set(r.sample(base, min(len(base), 3)))
    if dists:
        for _ in range(2):
            vals.add(r.choice(dists))  # equal to an existing distance
        d = r.choice(dists)
        vals.add(d + 1 / 64)
    vals = {v for v in vals if v >= 0}
    return sorted(vals)[:6]


def _mp_margin_ok(rf, ef, w):
    for a, b in zip(rf, ef):
        if a.size == 0 or b.size == 0:
            continue
        ma = 69 + 12 * np.log2(a / 440.0)
        mb = 69 + 12 * np.log2(b / 440.0)
        d = np.abs(np.subtract.outer(ma, mb))
        dm = np.abs(np.subtract.outer(np.mod(ma, 12), np.mod(mb, 12)))
        dm = np.minimum(dm, 12 - dm)
        if np.any(np.abs(d - w) < 1e-9) or np.any(np.abs(dm - w) < 1e-9):
            return False
    return True


def instances(r):
    out = []
    ref = gen.events(r)
    est = gen.related_events(r, ref)
    dd = _distances(ref, est)
    nt = ("ev", ref, est)
    out.append(chain("beat.f_measure", (ref, est), {}, "f_measure_threshold",
                     window_values(r, dd, [1 / 32, 0.07, 1 / 8, 0.25, 1.0]), [None], nt))
    out.append(chain("onset.f_measure", (ref, est), {}, "window",
                     window_values(r, dd, [0.0, 1 / 32, 0.05, 1 / 8, 0.5]), [0, 1, 2], nt))
    s = tasks.gen_segment(r, allow_empty=False)
    db = _distances(s["ref_iv"].ravel(), s["est_iv"].ravel())
    out.append(chain("segment.detection", (s["ref_iv"], s["est_iv"]),
                     {"trim": r.random() < 0.4}, "window",
                     window_values(r, db, [0.0, 0.25, 0.5, 1.0, 3.0]), [0, 1, 2],
                     ("seg", s["ref_iv"], s["est_iv"])))
    n = tasks.gen_transcription(r)
    if len(n["ref_iv"]) and len(n["est_iv"]):
        a4 = (n["ref_iv"], n["ref_p"], n["est_iv"], n["est_p"])
        a6 = (n["ref_iv"], n["ref_p"], n["ref_v"], n["est_iv"], n["est_p"], n["est_v"])
        strict = r.random() < 0.5
        base = {"strict": strict, "offset_ratio": r.choice([0.2, 0.25, None])}
        p = r.choice(NOTE_PARAMS)
        vals = {"onset_tolerance": [1 / 64, 1 / 32, 0.05, 1 / 16, 1 / 8, 0.5],
                "pitch_tolerance": [0.0, 12.5, 25.0, 50.0, 100.0, 1200.0],
                "offset_ratio": [0.0, 0.04, 0.08, 0.125, 0.2, 0.25, 0.5, 1.0],
                "offset_min_tolerance": [0.0, 1 / 64, 1 / 32, 0.05, 1 / 8, 0.5]}[p]
        kw = dict(base)
        if r.random() < 0.5:
            # non-default floor: the tolerance must stay monotone in offset_ratio
            kw["offset_min_tolerance"] = r.choice([0.1, 0.2, 1 / 32, 1 / 8, 0.05])
        if p == "offset_ratio":
            kw.pop("offset_ratio")
        if p == "offset_min_tolerance" and kw.get("offset_ratio") is None:
            kw["offset_ratio"] = 0.2
        out.append(chain("transcription.precision_recall_f1_overlap", a4, kw, p, vals,
                         [0, 1, 2], ("notes", n["ref_iv"], n["est_iv"], p, strict)))
        out.append(chain("transcription.onset_precision_recall_f1",
                         (n["ref_iv"], n["est_iv"]), {"strict": strict},
                         "onset_tolerance", [1 / 64, 1 / 32, 0.05, 1 / 8, 0.5], [0, 1, 2],
                         ("onsets", n["ref_iv"], n["est_iv"], strict)))
        op = r.choice(["offset_ratio", "offset_min_tolerance"])
        okw = {"strict": strict}
        if op == "offset_ratio" and r.random() < 0.5:
            okw["offset_min_tolerance"] = r.choice([0.1, 0.2, 1 / 32, 1 / 8])
        out.append(chain("transcription.offset_precision_recall_f1",
                         (n["ref_iv"], n["est_iv"]), okw, op,
                         [0.0, 1 / 32, 0.05, 0.2, 0.25, 0.5], [0, 1, 2],
                         ("offsets", n["ref_iv"], n["est_iv"], op, strict)))
        out.append(chain("transcription_velocity.precision_recall_f1_overlap", a6,
                         dict(base), "velocity_tolerance", [0.0, 0.05, 0.1, 0.25, 0.5, 1.0],
                         [0, 1, 2], ("vel", n["ref_iv"], n["est_iv"])))
        kws = dict(base)
        out.append({"kind": "strict", "site": "transcription.precision_recall_f1_overlap",
                    "calls": [("strict", "transcription.precision_recall_f1_overlap", a4,
                               dict(kws, strict=True)),
                              ("nonstrict", "transcription.precision_recall_f1_overlap",
                               a4, dict(kws, strict=False))],
                    "meta": {"fn": "transcription.precision_recall_f1_overlap",
                             "comps": [0, 1, 2]},
                    "nt": ("strict", n["ref_iv"], n["est_iv"])})
        ekw = {k: v for k, v in base.items() if v is not None}
        if r.random() < 0.6:
            # non-default tolerances, deliberately unequal to one another
            ekw.update(tasks.draw_params(r, {
                "onset_tolerance": [1 / 8, 1 / 16, 1 / 32, 0.05],
                "offset_min_tolerance": [1 / 64, 1 / 32, 1 / 8, 0.05],
                "pitch_tolerance": [25.0, 100.0, 50.0]}, 0.7))
        out.append({"kind": "nested", "site": "transcription.evaluate",
                    "calls": [("eval", "transcription.evaluate", a4, ekw)],
                    "meta": {"fn": "transcription.evaluate"},
                    "nt": ("nest-t", n["ref_iv"], n["est_iv"], repr(ekw))})
        out.append({"kind": "vel", "site": "transcription_velocity.evaluate",
                    "calls": [("velocity", "transcription_velocity.evaluate", a6, ekw),
                              ("plain", "transcription.evaluate", a4, ekw)],
                    "meta": {}, "nt": ("velplain", n["ref_iv"], n["est_iv"], repr(ekw))})
        fkw = dict(ekw, offset_ratio=base["offset_ratio"])
        out.append({"kind": "velfn", "site": "transcription_velocity.precision_recall_f1_overlap",
                    "calls": [("velocity",
                               "transcription_velocity.precision_recall_f1_overlap", a6, fkw),
                              ("plain", "transcription.precision_recall_f1_overlap", a4,
                               fkw)],
                    "meta": {}, "nt": ("velplain-fn", n["ref_iv"], n["est_iv"], repr(fkw))})
    al = tasks.gen_alignment(r)
    out.append(chain("alignment.percentage_correct", (al["ref"], al["est"]), {}, "window",
                     [0.0, 1 / 64, 1 / 16, 0.25, 0.3, 0.3125, 1.0], [None],
                     ("al", al["ref"], al["est"])))
    t = tasks.gen_tempo(r)
    out.append(chain("tempo.detection", (t["ref"], t["w"], t["est"]), {}, "tol",
                     [0.0, 0.001, 0.002, 0.004, 0.04, 0.0625, 0.08, 0.125, 0.5, 1.0],
                     [0, 1, 2], ("tempo", t["ref"], t["est"], t["w"])))
    out.append({"kind": "nested", "site": "tempo.evaluate",
                "calls": [("eval", "tempo.evaluate", (t["ref"], t["w"], t["est"]), {})],
                "meta": {"fn": "tempo.evaluate"}, "nt": ("nest-tempo", t["ref"], t["est"])})
    rv, rc, evv, ec = tasks.gen_melody_frames(r)
    fn = r.choice(["melody.raw_pitch_accuracy", "melody.raw_chroma_accuracy",
                   "melody.overall_accuracy"])
    out.append(chain(fn, (rv, rc, evv, ec), {}, "cent_tolerance",
                     [12.5, 25, 50, 75, 100, 600], [None], ("mel", rv, rc, evv, ec, fn)))
    m = tasks.gen_melody(r)
    out.append({"kind": "nested", "site": "melody.evaluate",
                "calls": [("eval", "melody.evaluate",
                           (m["ref_time"], m["ref_freq"], m["est_time"], m["est_freq"]),
                           tasks.draw_params(r, {"cent_tolerance": [50, 25, 100]}))],
                "meta": {"fn": "melody.evaluate"},
                "nt": ("nest-mel", m["ref_time"], m["ref_freq"], m["est_freq"])})
    mp = tasks.gen_multipitch(r)
    a = (mp["ref_time"], mp["ref_freqs"], mp["est_time"], mp["est_freqs"])
    out.append(chain("multipitch.metrics", a, {}, "window",
                     [0.125, 0.25, 0.5, 0.75, 1.0, 2.0], [0, 1, 2, 7, 8, 9],
                     ("mp", mp["ref_time"], mp["ref_freqs"], mp["est_freqs"])))
    w = r.choice([0.5, 0.25, 1.0])
    same = mp["ref_time"].size == mp["est_time"].size and \
        np.array_equal(mp["ref_time"], mp["est_time"])
    if same and _mp_margin_ok(mp["ref_freqs"], mp["est_freqs"], w):
        out.append({"kind": "nested", "site": "multipitch.evaluate",
                    "calls": [("eval", "multipitch.evaluate", a, {"window": w})],
                    "meta": {"fn": "multipitch.evaluate"},
                    "nt": ("nest-mp", mp["ref_time"], mp["ref_freqs"], mp["est_freqs"], w)})
    b = tasks.gen_beat(r, for_evaluate=True)
    out.append({"kind": "nested", "site": "beat.evaluate",
                "calls": [("eval", "beat.evaluate", (b["ref"], b["est"]), {})],
                "meta": {"fn": "beat.evaluate"}, "nt": ("nest-beat", b["ref"], b["est"])})
    return out


def run_shard(spec, ctx):
    mods = env.load_repo()
    r = ctx.rng("mono")
    rel = Relations(ctx, mods, "C07")
    for _ in range(spec["n"]):
        for inst in instances(r):
            rel.run(inst)
    # count chains along which something changed as the non-trivial ones
    orig_nt = {}
    for k, inst in rel.inst.items():
        orig_nt[k] = inst.get("nt")
        inst["nt"] = None
    rel.check(CHECKERS)
    for k, inst in rel.inst.items():
        if inst.get("meta", {}).get("changed") and orig_nt[k] is not None:
            ctx.nontrivial(inst["kind"], orig_nt[k])
            ctx.count("changed." + inst["kind"])


def replay(case, ctx):
    mods = env.load_repo()
    rel = Relations(ctx, mods, "C07")
    rel.run(case["inst"])
    rel.check(CHECKERS)


def finalize(m, tier):
    c = m["counters"]
    for k in ("changed.chain", "changed.nested"):
        if c.get(k, 0) == 0:
            m["inconclusive"].append("no %s instance with a changing score" % k)
