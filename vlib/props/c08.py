"""C08 -- scores ignore time origin, item order and segment label names."""

import copy

import numpy as np

from .. import env, gen, tasks
from ..evlog import Relations, close_enough, flat

Q = gen.Q
LEVEL = "exploration"
TOL = 1e-9
RULE = ("For seeded valid inputs on the exact time lattice, metric(x, y) and "
        "metric(T(x), T(y)) are executed and logged; an offline checker over the "
        "event log requires equal results (1e-9). T = a common dyadic time shift "
        "(1/64 s .. 4096 s, inputs stay valid, beats stay >= the trim time) for "
        "beat, onset, transcription, multipitch, alignment (PC, MAE/AAE, MIREX PCS), "
        "pattern and chord.evaluate; a permutation of notes / of frequencies "
        "within frames / of the two estimated tempi / of the reference pattern "
        "list; an independent label bijection per annotation (on case-folded "
        "classes) for segment labelling scores and hierarchy L-measure. "
        "Non-trivial = instance with >= 3 items, T != identity and a score "
        "strictly between 0 and 1.")
ASSUMPTIONS = [
    "on the 1/64 lattice with |t| < 2^13 every shifted time is exact in binary64",
    "transcription AOR is excluded from permutation invariance (it depends on "
    "which maximum matching is chosen)",
]


def plan(tier, seed):
    n = 200 if tier == "quick" else 3500
    return [{"name": "inv-%d" % p, "n": n} for p in range(16)]


def check_same(ev, meta):
    a, b = ev["base"]["value"], ev["T"]["value"]
    skip = set(meta.get("skip", []))
    fa, fb = dict(flat(a)), dict(flat(b))
    bad = []
    nontrivial = False
    if set(fa) != set(fb):
        return [("structure", "results have different structure: %r vs %r" % (a, b))]
    for p, x in fa.items():
        if p in skip or (len(p) and p[-1] in skip):
            continue
        y = fb[p]
        if isinstance(x, str) or isinstance(y, str):
            if x != y:
                bad.append(("changed", "%r != %r" % (x, y)))
            continue
        if isinstance(x, (int, float)) and 0 < float(x) < 1:
            nontrivial = True
        if not close_enough(x, y, TOL):
            bad.append(("changed",
                        "%s: component %s is %r before and %r after %s" % (
                            meta["fn"], list(p), x, y, meta["T"])))
    meta["nontrivial"] = nontrivial
    return bad[:1]


def mechanism(inst, bad):
    """Structural predicate of the witness (known finding: np.allclose's
    relative tolerance decides whether multipitch resamples)."""
    try:
        if inst["site"].startswith("multipitch.") and inst["kind"] == "shift":
            a = inst["calls"][0][2]
            b = inst["calls"][1][2]
            def close(x):
                return x[0].size == x[2].size and bool(np.allclose(x[2], x[0]))
            if close(a) != close(b):
                return "allclose-relative-tolerance-decides-resampling"
    except Exception:
        pass
    return ""


CHECKERS = {"shift": check_same, "perm": check_same, "relabel": check_same}


def pair(kind, fn, a, b, kw, T, nt, skip=()):
    return {"kind": kind, "site": fn,
            "calls": [("base", fn, a, kw), ("T", fn, b, kw)],
            "meta": {"fn": fn, "T": T, "skip": list(skip)}, "nt": nt}


def shift_amount(r):
    return r.choice([1, 2, 7, 64, 100, 640, 6400, 64 * 4096]) / Q


def bijection(r, labels):
    classes = sorted({str(s).lower() for s in labels})
    # distinct names, some differing only in surrounding whitespace
    names = [("Z%d" % (i // 3)) + ["", " ", "  x"][i % 3] if i % 3 != 2
             else " Z%d" % (i // 3) for i in range(len(classes))]
    if r.random() < 0.4:
        # names much longer than the originals (and than the library's own
        # '__T_MIN' / '__T_MAX' padding labels)
        names = ["a_rather_long_section_name_%d" % i for i in range(len(classes))]
    r.shuffle(names)
    m = dict(zip(classes, names))
    return [m[str(s).lower()] for s in labels]


def instances(r):
    out = []
    d = shift_amount(r)
    # beats: keep >= 5 s so trimming is unaffected
    b = tasks.gen_beat(r, for_evaluate=True)
    ref, est = b["ref"], b["est"]
    for fn, table in tasks.BEAT_PARAMS.items():
        kw = tasks.draw_params(r, table)
        out.append(pair("shift", "beat." + fn, (ref, est), (ref + d, est + d), kw,
                        "shift %r" % d, ("beat", fn, ref, est, d) if ref.size >= 3 else None))
    out.append(pair("shift", "beat.evaluate", (ref, est), (ref + d, est + d), {},
                    "shift %r" % d, ("beat-eval", ref, est, d) if ref.size >= 3 else None))
    o = tasks.gen_onset(r)
    kw = tasks.draw_params(r, tasks.ONSET_PARAMS)
    out.append(pair("shift", "onset.f_measure", (o["ref"], o["est"]),
                    (o["ref"] + d, o["est"] + d), kw, "shift %r" % d,
                    ("onset", o["ref"], o["est"], d) if o["ref"].size >= 3 else None))
    # notes: shift and permutation
    n = tasks.gen_transcription(r)
    if len(n["ref_iv"]) and len(n["est_iv"]):
        kw = tasks.draw_params(r, tasks.TRANS_PARAMS)
        d_ev = d
        if r.random() < 0.15:
            d = 2.0 ** 20  # a recording cut out of a very long stream; exact on the lattice
        a4 = (n["ref_iv"], n["ref_p"], n["est_iv"], n["est_p"])
        s4 = (n["ref_iv"] + d, n["ref_p"], n["est_iv"] + d, n["est_p"])
        nt = ("notes", n["ref_iv"], n["est_iv"], d) if len(n["ref_iv"]) >= 3 else None
        out.append(pair("shift", "transcription.precision_recall_f1_overlap", a4, s4, kw,
                        "shift %r" % d, nt, skip=[3]))
        ekw = {k: v for k, v in kw.items() if not (k == "offset_ratio" and v is None)}
        out.append(pair("shift", "transcription.evaluate", a4, s4, ekw, "shift %r" % d, nt,
                        skip=["Average_Overlap_Ratio", "Average_Overlap_Ratio_no_offset"]))
        a6 = (n["ref_iv"], n["ref_p"], n["ref_v"], n["est_iv"], n["est_p"], n["est_v"])
        s6 = (n["ref_iv"] + d, n["ref_p"], n["ref_v"], n["est_iv"] + d, n["est_p"],
              n["est_v"])
        out.append(pair("shift", "transcription_velocity.precision_recall_f1_overlap",
                        a6, s6, kw, "shift %r" % d, nt, skip=[3]))
        pr = list(range(len(n["ref_iv"]))); r.shuffle(pr)
        pe = list(range(len(n["est_iv"]))); r.shuffle(pe)
        p4 = (n["ref_iv"][pr], n["ref_p"][pr], n["est_iv"][pe], n["est_p"][pe])
        out.append(pair("perm", "transcription.precision_recall_f1_overlap", a4, p4, kw,
                        "note permutation", ("notes-perm", n["ref_iv"], n["est_iv"], pr, pe)
                        if len(pr) >= 3 else None, skip=[3]))
        out.append(pair("perm", "transcription.onset_precision_recall_f1",
                        (n["ref_iv"], n["est_iv"]), (n["ref_iv"][pr], n["est_iv"][pe]),
                        {k: v for k, v in kw.items() if k in ("onset_tolerance", "strict")},
                        "note permutation", None))
        d = d_ev
    # multipitch: shift and within-frame permutation
    m = tasks.gen_multipitch(r)
    a = (m["ref_time"], m["ref_freqs"], m["est_time"], m["est_freqs"])
    kw = tasks.draw_params(r, {"window": [0.5, 0.25, 1.0]})
    nt = ("mp", m["ref_time"], m["ref_freqs"], m["est_freqs"], d) \
        if m["ref_time"].size >= 3 else None
    out.append(pair("shift", "multipitch.metrics", a,
                    (m["ref_time"] + d, m["ref_freqs"], m["est_time"] + d, m["est_freqs"]),
                    kw, "shift %r" % d, nt))
    def shuf(fr):
        outf = []
        for f in fr:
            idx = list(range(f.size)); r.shuffle(idx)
            outf.append(f[idx] if f.size else f)
        return outf
    out.append(pair("perm", "multipitch.metrics", a,
                    (m["ref_time"], shuf(m["ref_freqs"]), m["est_time"], shuf(m["est_freqs"])),
                    kw, "permutation within frames", nt))
    # alignment
    al = tasks.gen_alignment(r)
    ar, ae = al["ref"], al["est"]
    nta = ("al", ar, ae, d) if ar.size >= 3 else None
    out.append(pair("shift", "alignment.absolute_error", (ar, ae), (ar + d, ae + d), {},
                    "shift %r" % d, nta))
    out.append(pair("shift", "alignment.percentage_correct", (ar, ae), (ar + d, ae + d),
                    tasks.draw_params(r, {"window": [0.3, 0.25, 1 / 16]}),
                    "shift %r" % d, nta))
    if ar[-1] - ar[0] > 0:
        out.append(pair("shift", "alignment.percentage_correct_segments", (ar, ae),
                        (ar + d, ae + d), {}, "shift %r" % d, nta))
    # patterns: onset shift, reference-list permutation
    p = tasks.gen_pattern(r) if r.random() < 0.7 else tasks.gen_pattern_doubled(r)
    if p["ref"] and p["est"]:
        dq = r.choice([0.25, 1.0, 16.0, 1024.0, 2.0 ** 20])
        def sh(pats):
            return [[[(t + dq, mm) for t, mm in occ] for occ in pat] for pat in pats]
        perm = list(range(len(p["ref"]))); r.shuffle(perm)
        pref = [p["ref"][i] for i in perm]
        ntp = ("pat", repr(p["ref"]), repr(p["est"]), dq) if len(p["ref"]) >= 2 else None
        for fn, kwp in (("standard_FPR", {}), ("establishment_FPR", {}),
                        ("occurrence_FPR", {"thres": r.choice([0.75, 0.5])}),
                        ("three_layer_FPR", {}),
                        ("first_n_three_layer_P", {"n": r.choice([5, 2])}),
                        ("first_n_target_proportion_R", {"n": r.choice([5, 2])})):
            out.append(pair("shift", "pattern." + fn, (p["ref"], p["est"]),
                            (sh(p["ref"]), sh(p["est"])), kwp, "onset shift %r" % dq, ntp))
            out.append(pair("perm", "pattern." + fn, (p["ref"], p["est"]),
                            (pref, p["est"]), kwp, "reference pattern permutation",
                            ("pat-perm", repr(p["ref"]), repr(p["est"]), perm)
                            if len(perm) >= 3 else None))
        out.append(pair("shift", "pattern.evaluate", (p["ref"], p["est"]),
                        (sh(p["ref"]), sh(p["est"])), {}, "onset shift %r" % dq, ntp))
    # chords: shift both annotations
    c = tasks.gen_chord(r)
    c4 = (c["ref_iv"], c["ref_lab"], c["est_iv"], c["est_lab"])
    s4c = (c["ref_iv"] + d, list(c["ref_lab"]), c["est_iv"] + d, list(c["est_lab"]))
    out.append(pair("shift", "chord.evaluate", c4, s4c, {}, "shift %r" % d,
                    ("chord", c["ref_iv"], tuple(c["ref_lab"]), c["est_iv"],
                     tuple(c["est_lab"]), d) if len(c["ref_iv"]) >= 3 else None))
    # tempo: the two estimated tempi in either order
    t = tasks.gen_tempo(r)
    out.append(pair("perm", "tempo.detection", (t["ref"], t["w"], t["est"]),
                    (t["ref"], t["w"], t["est"][::-1].copy()),
                    tasks.draw_params(r, {"tol": [0.08, 0.0625, 0.125]}),
                    "estimated tempi swapped", ("tempo", t["ref"], t["w"], t["est"])))
    # label bijections
    s = tasks.gen_segment(r, allow_empty=False)
    fs = r.choice([0.5, 0.25, 1.0])
    a4 = (s["ref_iv"], s["ref_lab"], s["est_iv"], s["est_lab"])
    b4 = (s["ref_iv"], bijection(r, s["ref_lab"]), s["est_iv"], bijection(r, s["est_lab"]))
    nts = ("seg", s["ref_iv"], tuple(s["ref_lab"]), s["est_iv"], tuple(s["est_lab"]), fs) \
        if len(s["ref_iv"]) >= 3 else None
    for fn in ("pairwise", "rand_index", "ari", "mutual_information", "nce", "vmeasure"):
        kw = {"frame_size": fs}
        if fn == "nce":
            kw["marginal"] = r.random() < 0.5
        out.append(pair("relabel", "segment." + fn, a4, b4, kw, "label bijection", nts))
    # ... through evaluate(), where the estimate is padded / cropped to the
    # reference span with the library's own filler labels
    se = tasks.gen_segment_eval(r)
    ea = (se["ref_iv"], se["ref_lab"], se["est_iv"], se["est_lab"])
    eb = (se["ref_iv"], bijection(r, se["ref_lab"]), se["est_iv"],
          bijection(r, se["est_lab"]))
    out.append(pair("relabel", "segment.evaluate", ea, eb, {"frame_size": fs},
                    "label bijection (%s)" % se["cls"],
                    ("seg-eval", se["ref_iv"], tuple(se["ref_lab"]), se["est_iv"],
                     tuple(se["est_lab"]), fs) if len(se["ref_iv"]) >= 3 else None))
    h = tasks.gen_hierarchy(r)
    hl = [bijection(r, l) for l in h["ref_labs"]]
    he = [bijection(r, l) for l in h["est_labs"]]
    out.append(pair("relabel", "hierarchy.lmeasure",
                    (h["ref_ivs"], h["ref_labs"], h["est_ivs"], h["est_labs"]),
                    (h["ref_ivs"], hl, h["est_ivs"], he),
                    {"frame_size": r.choice([0.5, 0.25])}, "label bijection per level",
                    ("hier", [x.tolist() for x in h["ref_ivs"]], repr(h["ref_labs"]),
                     [x.tolist() for x in h["est_ivs"]], repr(h["est_labs"]))))
    return out


def run_shard(spec, ctx):
    mods = env.load_repo()
    r = ctx.rng("inv")
    rel = Relations(ctx, mods, "C08")
    for _ in range(spec["n"]):
        for inst in instances(r):
            rel.run(inst)
    keep = {}
    for k, inst in rel.inst.items():
        keep[k] = inst.get("nt")
        inst["nt"] = None
    rel.check(CHECKERS, mech=mechanism)
    for k, inst in rel.inst.items():
        if keep[k] is not None and inst["meta"].get("nontrivial"):
            ctx.nontrivial(inst["kind"], inst["site"], keep[k])
            ctx.count("nontrivial." + inst["kind"])


def replay(case, ctx):
    mods = env.load_repo()
    rel = Relations(ctx, mods, "C08")
    rel.run(case["inst"])
    rel.check(CHECKERS, mech=mechanism)


def finalize(m, tier):
    c = m["counters"]
    for k in ("nontrivial.shift", "nontrivial.perm", "nontrivial.relabel"):
        if c.get(k, 0) == 0:
            m["inconclusive"].append("no %s instance with a non-trivial score" % k)
