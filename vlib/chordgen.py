"""Chord-label grammar enumerator and mutator (C09-C12 workloads, C10 domain).

Written from the Harte et al. syntax as documented in mir_eval.chord's module
docstring: ``root[:shorthand][(degrees)][/bass] | N | X``.
"""

NATURALS = "CDEFGAB"
SHORTHANDS = ["maj", "min", "dim", "aug", "1", "5", "sus2", "sus4", "maj6",
              "min6", "7", "maj7", "min7", "dim7", "hdim7", "minmaj7", "aug7",
              "9", "maj9", "min9", "11", "maj11", "min11", "13", "maj13", "min13"]
# shorthands the grammar admits but the encoder documents no quality for
UNENCODABLE = {"aug7", "maj11"}
DEGREE_NUMS = [str(i) for i in range(1, 14)]


def roots(max_acc=2):
    out = []
    for n in NATURALS:
        out.append(n)
        for k in range(1, max_acc + 1):
            out.append(n + "b" * k)
            out.append(n + "#" * k)
    return out  # 7 * (1 + 2*max_acc) = 35 for max_acc=2


def degrees(max_acc=2, star=True, nums=None):
    out = []
    for d in (nums or DEGREE_NUMS):
        for k in range(0, max_acc + 1):
            accs = [""] if k == 0 else ["b" * k, "#" * k]
            for a in accs:
                out.append(a + d)
                if star:
                    out.append("*" + a + d)
    return out


CORE_DEGREES = ["1", "b3", "3", "4", "b5", "5", "#5", "6", "b7", "7", "9", "11"]
CORE_BASS = ["b3", "3", "5", "b7", "7", "#4", "bb7", "9", "##1", "2"]


def label(root, short=None, degs=None, bass=None):
    s = root
    if short is not None or degs:
        s += ":" + (short or "")
    if degs:
        s += "(" + ",".join(degs) + ")"
    if bass:
        s += "/" + bass
    return s


def enumerate_labels(n_roots=35, deg_mode="full", bass_mode="full"):
    """Yield grammar-derivable labels up to the bounded depth of DESIGN C10."""
    rts = roots(2)[:n_roots] if n_roots < 35 else roots(2)
    single = degrees(2, star=True)
    if deg_mode == "full":
        pairs = [(a, b) for a in CORE_DEGREES for b in CORE_DEGREES if a != b]
        deglists = [None] + [[d] for d in single] + [list(p) for p in pairs] + \
                   [["*" + a, b] for a, b in pairs[::7]]
    elif deg_mode == "single":
        deglists = [None] + [[d] for d in single]
    else:
        deglists = [None] + [[d] for d in CORE_DEGREES] + [["*3"], ["*5"], ["*1"]]
    if bass_mode == "full":
        basses = [None] + DEGREE_NUMS + CORE_BASS
    else:
        basses = [None, "3", "5", "b7", "b3", "7", "9", "2"]
    yield "N"
    yield "X"
    for r in rts:
        for sh in [None] + SHORTHANDS:
            for dl in deglists:
                for b in basses:
                    yield label(r, sh, dl, b)


def universe(r, size):
    """A fixed label universe for pairwise lattices (C11): N, X, every
    shorthand, added/omitted degrees, in/out-of-chord basses, enharmonics."""
    base = ["N", "X",
            # pitch sets that lack their root, or hold two pitch classes only
            "C:(*1)/b7", "A:maj(*1,*3,*5)/7", "F#:1(*1)/6", "C:maj(*1)/b7", "C:5/5",
            "G:1/5", "D:(1,4)/4", "C:1(*1)/3", "E:min(*1)", "C:maj(*1)/5"]
    rts = ["C", "C#", "Db", "D", "E", "Fb", "F", "G", "Ab", "A", "B", "B#", "Cb"]
    for sh in SHORTHANDS:
        base.append(label("C", sh))
    for rt in rts:
        base.append(rt)
        base.append(label(rt, "min"))
        base.append(label(rt, "maj"))
    extras = []
    for rt in ["C", "Db", "F#", "A", "B#"]:
        for sh in [None, "maj", "min", "7", "maj7", "min7", "dim", "aug", "sus4",
                   "hdim7", "maj6", "9", "min9", "5", "1"]:
            for dl in [None, ["9"], ["*3"], ["*5"], ["b7"], ["#11"], ["*1"], ["7"],
                       ["3", "5"], ["b3", "5"], ["*3", "4"], ["13"], ["b13"], ["#9"],
                       ["b10"], ["b9"], ["#5"], ["b6"], ["#9", "b7"], ["bb3"], ["10"]]:
                if dl and any(d.startswith("*") for d in dl) and sh is None:
                    continue
                for b in [None, "3", "b3", "5", "b7", "7", "2", "9", "#4"]:
                    extras.append(label(rt, sh, dl, b))
    r.shuffle(extras)
    out = []
    seen = set()
    for x in base + extras:
        if x not in seen:
            seen.add(x)
            out.append(x)
        if len(out) >= size:
            break
    return out


def random_label(r, encodable_only=True):
    u = r.random()
    if u < 0.06:
        return "N"
    if u < 0.09:
        return "X"
    root = r.choice(NATURALS) + r.choice(["", "", "", "b", "#", "bb", "##"])
    shs = [s for s in SHORTHANDS if not (encodable_only and s in UNENCODABLE)]
    sh = r.choice([None, None, "maj", "min", "7", "maj7", "min7"] + shs)
    dl = None
    if r.random() < 0.25:
        k = r.choice([1, 1, 2])
        dl = []
        for _ in range(k):
            d = r.choice(["", "", "b", "#"]) + r.choice(DEGREE_NUMS)
            if sh is not None and r.random() < 0.3:
                d = "*" + d
            dl.append(d)
    b = None
    if r.random() < 0.3:
        b = r.choice(["", "", "b", "#"]) + r.choice(["3", "5", "7", "2", "9", "4", "6"])
    return label(root, sh, dl, b)


MUT_CHARS = list("ABCDEFGNX:()/,*#b0123456789majindusgh \t\n-") + ["♭", "♯", "é"]


def mutate(r, s):
    """Grammar-aware mutation: insert/delete/duplicate/swap/replace characters."""
    s = list(s)
    for _ in range(r.choice([1, 1, 1, 2, 3])):
        op = r.choice(["ins", "del", "dup", "swap", "rep", "app"])
        if op == "ins":
            s.insert(r.randrange(len(s) + 1), r.choice(MUT_CHARS))
        elif op == "del" and s:
            del s[r.randrange(len(s))]
        elif op == "dup" and s:
            i = r.randrange(len(s))
            s.insert(i, s[i])
        elif op == "swap" and len(s) > 1:
            i = r.randrange(len(s) - 1)
            s[i], s[i + 1] = s[i + 1], s[i]
        elif op == "rep" and s:
            s[r.randrange(len(s))] = r.choice(MUT_CHARS)
        elif op == "app":
            s.append(r.choice(["\n", " ", "/", ")", "(", ":", "\r", "\x00"]))
    return "".join(s)
