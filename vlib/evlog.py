"""Event log + offline relation checkers (DESIGN §3.6).

The driver executes real mir_eval calls through :meth:`EventLog.call`, which
records one JSON line per call at the client boundary (call -> result). The
offline checkers read only the log file back, so they judge what the system
did, not what the driver intended.
"""

import json
import os
import warnings

import numpy as np

from .ctx import pack, unpack, short
from .kinds import is_real_scalar
from .replay import resolve


def _val(v):
    """JSON-able rendering of a result that keeps floats exact."""
    if isinstance(v, (bool, np.bool_)):
        return bool(v)
    if is_real_scalar(v):
        return float(v)
    if isinstance(v, np.ndarray):
        return [_val(x) for x in v.tolist()]
    if isinstance(v, (list, tuple)):
        return [_val(x) for x in v]
    if hasattr(v, "items"):
        return {str(k): _val(x) for k, x in v.items()}
    return repr(v)


class EventLog:
    def __init__(self, ctx, mods, name="events"):
        self.ctx = ctx
        self.mods = mods
        self.path = os.path.join(os.getcwd(), "%s.%s.jsonl" % (ctx.shard, name))
        self.f = open(self.path, "w")
        self.seq = 0
        self.cases = {}  # rel id -> packed replay payload (kept in memory)

    def call(self, rel, role, fn, args, kw=None, meta=None):
        kw = kw or {}
        f = resolve(fn, self.mods)
        try:
            with warnings.catch_warnings():
                warnings.simplefilter("ignore")
                res = f(*args, **kw)
            outcome, value = "ret", _val(res)
        except Exception as e:  # noqa: BLE001
            outcome, value = "raise", type(e).__name__
            res = None
        rec = {"seq": self.seq, "rel": rel, "role": role, "fn": fn,
               "outcome": outcome, "value": value}
        if meta:
            rec["meta"] = meta
        self.f.write(json.dumps(rec) + "\n")
        self.seq += 1
        return res

    def note_case(self, rel, payload):
        self.cases[rel] = payload

    def close(self):
        self.f.close()

    def read(self):
        """Yield (rel, [events in order]) groups from the file."""
        groups = {}
        order = []
        with open(self.path) as f:
            for line in f:
                e = json.loads(line)
                if e["rel"] not in groups:
                    groups[e["rel"]] = []
                    order.append(e["rel"])
                groups[e["rel"]].append(e)
        for rel in order:
            yield rel, groups[rel]


def close_enough(a, b, tol):
    """Scalar comparison with NaN == NaN."""
    if isinstance(a, bool) or isinstance(b, bool):
        return bool(a) == bool(b)
    if a != a and b != b:
        return True
    if a != a or b != b:
        return False
    if a == b:
        return True
    return abs(a - b) <= tol


def flat(v):
    """Flatten nested lists/dicts of scalars into [(path, value)]."""
    out = []

    def walk(p, x):
        if isinstance(x, dict):
            for k in x:
                walk(p + (k,), x[k])
        elif isinstance(x, list):
            for i, y in enumerate(x):
                walk(p + (i,), y)
        else:
            out.append((p, x))
    walk((), v)
    return out


class Relations:
    """Run relation instances through the event log, then check them offline.

    instance = {"kind": str, "calls": [(role, fn, args, kwargs)], "meta": dict,
                "nt": hashable or None}
    checker(kind)(events_by_role: {role: event}, meta) -> [(clause, what)]
    """

    def __init__(self, ctx, mods, prop):
        self.ctx = ctx
        self.mods = mods
        self.prop = prop
        self.log = EventLog(ctx, mods)
        self.inst = {}
        self.k = 0

    def run(self, inst):
        rel = "%s#%d" % (self.prop, self.k)
        self.k += 1
        self.inst[rel] = inst
        for role, fn, args, kw in inst["calls"]:
            self.log.call(rel, role, fn, args, kw, meta=None)
        return rel

    def check(self, checkers, mech=None):
        self.log.close()
        ctx = self.ctx
        for rel, evs in self.log.read():
            inst = self.inst[rel]
            kind = inst["kind"]
            by_role = {}
            for e in evs:
                by_role[e["role"]] = e
            ctx.ev(len(evs))
            ctx.hist("relation_instances", kind)
            if any(e["outcome"] != "ret" for e in evs):
                outs = {e["outcome"] + ":" + str(e["value"]) for e in evs
                        if e["outcome"] != "ret"}
                if len({e["outcome"] for e in evs}) > 1:
                    ctx.count("relation.mixed_outcome")
                    ctx.hist("relation.mixed_outcome", "%s %s" % (kind, sorted(outs)))
                    site = inst.get("site") or inst["calls"][0][1]
                    ctx.violation("%s/%s/%s/outcome-differs" % (self.prop, site, kind),
                                  "outcome-differs", site,
                                  "related executions disagree on raise/return: %s" %
                                  {e["role"]: (e["outcome"], e["value"] if e["outcome"]
                                               == "raise" else "...") for e in evs},
                                  {"kind": "relation", "inst": _strip(inst)},
                                  witness={"relation": kind, "calls": inst["calls"]})
                else:
                    ctx.count("relation.all_raise(skipped,C14)")
                continue
            bad = checkers[kind](by_role, inst.get("meta") or {})
            if bad and mech is not None:
                m_ = mech(inst, bad)
                if m_:
                    bad = [(c_ + "/" + m_, w_ + " -- " + m_) for c_, w_ in bad]
            if inst.get("nt") is not None and not bad:
                ctx.nontrivial(inst["nt"])
            site = inst.get("site") or inst["calls"][0][1]
            for clause, what in bad[:2]:
                ctx.violation("%s/%s/%s/%s" % (self.prop, site, kind, clause), clause,
                              site, what, {"kind": "relation", "inst": _strip(inst)},
                              witness={"relation": kind, "what": what,
                                       "calls": [(r_, f_, a_, k_) for r_, f_, a_, k_
                                                 in inst["calls"]],
                                       "observed": {r_: e["value"] for r_, e
                                                    in by_role.items()}})
            if ctx.want_sample() and not bad and ctx.evaluations % 101 < len(evs):
                ctx.sample({"relation": kind,
                            "calls": [(r_, f_, short(a_, 160), short(k_, 80))
                                      for r_, f_, a_, k_ in inst["calls"]][:3],
                            "observed": {r_: short(e["value"], 160)
                                         for r_, e in list(by_role.items())[:3]}})


def _strip(inst):
    return {"kind": inst["kind"], "calls": inst["calls"], "meta": inst.get("meta"),
            "site": inst.get("site"), "nt": None}
