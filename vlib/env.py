"""Process environment: locate the repository under test and import it.

Everything that touches ``mir_eval`` goes through :func:`load_repo`, which puts
``$MIR_EVAL_REPO`` (default ``/repo``) at ``sys.path[0]`` and asserts that the
package that got imported really lives there, so a check can never silently
observe an installed copy instead of the working tree.
"""

import hashlib
import os
import random
import sys

VERIF_DIR = os.path.dirname(os.path.dirname(os.path.abspath(__file__)))
DEPS_DIR = os.path.join(VERIF_DIR, ".deps")
GUARD = "MIR_EVAL_VERIF"


def repo_dir():
    return os.path.abspath(os.environ.get("MIR_EVAL_REPO", "/repo"))


def add_deps():
    if DEPS_DIR not in sys.path:
        sys.path.append(DEPS_DIR)


_loaded = None


def load_repo():
    """Import mir_eval (all submodules the properties touch) from the repo."""
    global _loaded
    if _loaded is not None:
        return _loaded
    repo = repo_dir()
    if sys.path[0] != repo:
        sys.path.insert(0, repo)
    os.environ.setdefault(GUARD, "1")
    import importlib

    mir_eval = importlib.import_module("mir_eval")
    here = os.path.dirname(os.path.abspath(mir_eval.__file__))
    if os.path.dirname(here) != repo:
        raise RuntimeError(
            "mir_eval imported from %s, expected under %s" % (here, repo)
        )
    mods = {}
    for name in (
        "util", "io", "beat", "onset", "segment", "chord", "melody",
        "multipitch", "transcription", "transcription_velocity", "tempo",
        "key", "pattern", "hierarchy", "alignment", "separation", "sonify",
    ):
        mods[name] = importlib.import_module("mir_eval." + name)
    _loaded = mods
    return mods


def seed_int(*path):
    h = hashlib.sha256(repr(path).encode()).digest()
    return int.from_bytes(h[:8], "big")


def rng(*path):
    return random.Random(seed_int(*path))


def nprng(*path):
    import numpy as np

    return np.random.default_rng(seed_int(*path))
