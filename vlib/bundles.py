"""Documented composition of every task's evaluate() (C03; DESIGN §5 C03).

For each task: the documented pre-processing (implemented here independently of
mir_eval.util), and the ordered list of entries
    (keys, metric function, forced parameters)
written from the evaluate() docstrings / module docs. ``PARAMS`` lists, per
metric function, the keyword parameters its documentation names: a caller
keyword reaches a function iff it is in that list (filter_kwargs contract).
"""

from collections import OrderedDict

import numpy as np

from .oracles import intervals as oi

PARAMS = {
    "beat.trim_beats": ["min_beat_time"],
    "beat.f_measure": ["f_measure_threshold"],
    "beat.cemgil": ["cemgil_sigma"],
    "beat.goto": ["goto_threshold", "goto_mu", "goto_sigma"],
    "beat.p_score": ["p_score_threshold"],
    "beat.continuity": ["continuity_phase_threshold", "continuity_period_threshold"],
    "beat.information_gain": ["bins"],
    "onset.f_measure": ["window"],
    "segment.detection": ["window", "beta", "trim"],
    "segment.deviation": ["trim"],
    "segment.pairwise": ["frame_size", "beta"],
    "segment.rand_index": ["frame_size", "beta"],
    "segment.ari": ["frame_size"],
    "segment.mutual_information": ["frame_size"],
    "segment.nce": ["frame_size", "beta", "marginal"],
    "segment.vmeasure": ["frame_size", "beta"],
    "melody.to_cent_voicing": ["base_frequency", "hop", "kind"],
    "melody.voicing_recall": [],
    "melody.voicing_false_alarm": [],
    "melody.raw_pitch_accuracy": ["cent_tolerance"],
    "melody.raw_chroma_accuracy": ["cent_tolerance"],
    "melody.overall_accuracy": ["cent_tolerance"],
    "multipitch.metrics": ["window"],
    "transcription.precision_recall_f1_overlap": [
        "onset_tolerance", "pitch_tolerance", "offset_ratio",
        "offset_min_tolerance", "strict", "beta"],
    "transcription.onset_precision_recall_f1": ["onset_tolerance", "strict", "beta"],
    "transcription.offset_precision_recall_f1": [
        "offset_ratio", "offset_min_tolerance", "strict", "beta"],
    "transcription_velocity.precision_recall_f1_overlap": [
        "onset_tolerance", "pitch_tolerance", "offset_ratio",
        "offset_min_tolerance", "strict", "velocity_tolerance", "beta"],
    "tempo.detection": ["tol"],
    "key.weighted_score": [],
    "pattern.standard_FPR": ["tol"],
    "pattern.establishment_FPR": ["similarity_metric"],
    "pattern.occurrence_FPR": ["thres", "similarity_metric"],
    "pattern.three_layer_FPR": [],
    "pattern.first_n_three_layer_P": ["n"],
    "pattern.first_n_target_proportion_R": ["n"],
    "hierarchy.tmeasure": ["transitive", "window", "frame_size", "beta"],
    "hierarchy.lmeasure": ["frame_size", "beta"],
    "alignment.percentage_correct": ["window"],
    "alignment.absolute_error": [],
    "alignment.percentage_correct_segments": ["duration"],
    "alignment.karaoke_perceptual_metric": [],
}

# (keys, function, forced parameters) in documented order
ENTRIES = {
    "beat": [
        (["F-measure"], "beat.f_measure", {}),
        (["Cemgil", "Cemgil Best Metric Level"], "beat.cemgil", {}),
        (["Goto"], "beat.goto", {}),
        (["P-score"], "beat.p_score", {}),
        (["Correct Metric Level Continuous", "Correct Metric Level Total",
          "Any Metric Level Continuous", "Any Metric Level Total"],
         "beat.continuity", {}),
        (["Information gain"], "beat.information_gain", {}),
    ],
    "onset": [(["F-measure", "Precision", "Recall"], "onset.f_measure", {})],
    "segment": [
        (["Precision@0.5", "Recall@0.5", "F-measure@0.5"], "segment.detection",
         {"window": 0.5}),
        (["Precision@3.0", "Recall@3.0", "F-measure@3.0"], "segment.detection",
         {"window": 3.0}),
        (["Ref-to-est deviation", "Est-to-ref deviation"], "segment.deviation", {}),
        (["Pairwise Precision", "Pairwise Recall", "Pairwise F-measure"],
         "segment.pairwise", {}),
        (["Rand Index"], "segment.rand_index", {}),
        (["Adjusted Rand Index"], "segment.ari", {}),
        (["Mutual Information", "Adjusted Mutual Information",
          "Normalized Mutual Information"], "segment.mutual_information", {}),
        (["NCE Over", "NCE Under", "NCE F-measure"], "segment.nce", {}),
        (["V Precision", "V Recall", "V-measure"], "segment.vmeasure", {}),
    ],
    "melody": [
        (["Voicing Recall"], "melody.voicing_recall", {}),
        (["Voicing False Alarm"], "melody.voicing_false_alarm", {}),
        (["Raw Pitch Accuracy"], "melody.raw_pitch_accuracy", {}),
        (["Raw Chroma Accuracy"], "melody.raw_chroma_accuracy", {}),
        (["Overall Accuracy"], "melody.overall_accuracy", {}),
    ],
    "multipitch": [
        (["Precision", "Recall", "Accuracy", "Substitution Error", "Miss Error",
          "False Alarm Error", "Total Error", "Chroma Precision", "Chroma Recall",
          "Chroma Accuracy", "Chroma Substitution Error", "Chroma Miss Error",
          "Chroma False Alarm Error", "Chroma Total Error"], "multipitch.metrics", {}),
    ],
    "transcription": [
        (["Precision", "Recall", "F-measure", "Average_Overlap_Ratio"],
         "transcription.precision_recall_f1_overlap", {}),
        (["Precision_no_offset", "Recall_no_offset", "F-measure_no_offset",
          "Average_Overlap_Ratio_no_offset"],
         "transcription.precision_recall_f1_overlap", {"offset_ratio": None}),
        (["Onset_Precision", "Onset_Recall", "Onset_F-measure"],
         "transcription.onset_precision_recall_f1", {}),
        (["Offset_Precision", "Offset_Recall", "Offset_F-measure"],
         "transcription.offset_precision_recall_f1", {}),
    ],
    "transcription_velocity": [
        (["Precision", "Recall", "F-measure", "Average_Overlap_Ratio"],
         "transcription_velocity.precision_recall_f1_overlap", {}),
        (["Precision_no_offset", "Recall_no_offset", "F-measure_no_offset",
          "Average_Overlap_Ratio_no_offset"],
         "transcription_velocity.precision_recall_f1_overlap", {"offset_ratio": None}),
    ],
    "tempo": [(["P-score", "One-correct", "Both-correct"], "tempo.detection", {})],
    "key": [(["Weighted Score"], "key.weighted_score", {})],
    "pattern": [
        (["F", "P", "R"], "pattern.standard_FPR", {}),
        (["F_est", "P_est", "R_est"], "pattern.establishment_FPR", {}),
        (["F_occ.5", "P_occ.5", "R_occ.5"], "pattern.occurrence_FPR", {"thres": 0.5}),
        (["F_occ.75", "P_occ.75", "R_occ.75"], "pattern.occurrence_FPR",
         {"thres": 0.75}),
        (["F_3", "P_3", "R_3"], "pattern.three_layer_FPR", {}),
        (["FFP"], "pattern.first_n_three_layer_P", {}),
        (["FFTP_est"], "pattern.first_n_target_proportion_R", {}),
    ],
    "hierarchy": [
        (["T-Precision reduced", "T-Recall reduced", "T-Measure reduced"],
         "hierarchy.tmeasure", {"transitive": False}),
        (["T-Precision full", "T-Recall full", "T-Measure full"],
         "hierarchy.tmeasure", {"transitive": True}),
        (["L-Precision", "L-Recall", "L-Measure"], "hierarchy.lmeasure", {}),
    ],
    "alignment": [
        (["pc"], "alignment.percentage_correct", {}),
        (["mae", "aae"], "alignment.absolute_error", {}),
        (["pcs"], "alignment.percentage_correct_segments", {}),
        (["perceptual"], "alignment.karaoke_perceptual_metric", {}),
    ],
}

CHORD_KEYS = ["thirds", "thirds_inv", "triads", "triads_inv", "tetrads",
              "tetrads_inv", "root", "mirex", "majmin", "majmin_inv", "sevenths",
              "sevenths_inv", "underseg", "overseg", "seg"]


def documented_keys(task):
    if task == "chord":
        return list(CHORD_KEYS)
    return [k for keys, _, _ in ENTRIES[task] for k in keys]


def kw_for(fn, user_kw, forced):
    kw = {k: v for k, v in user_kw.items() if k in PARAMS[fn]}
    kw.update(forced)
    return kw


# ---- documented pre-processing, implemented independently -------------

def pre_beat(args, kw):
    mbt = kw.get("min_beat_time", 5.0)
    ref, est = np.asarray(args[0]), np.asarray(args[1])
    return (ref[ref >= mbt], est[est >= mbt])


def pre_segment(args, kw):
    riv, rlab = oi.adjust(args[0], list(args[1]), 0.0, None)
    eiv, elab = oi.adjust(args[2], list(args[3]), 0.0, float(np.max(riv)))
    return riv, rlab, eiv, elab


def pre_hierarchy(args, kw):
    t_end = max(float(np.max(iv)) for iv in args[0])
    r = [oi.adjust(np.asarray(iv), list(lab), 0.0, None)
         for iv, lab in zip(args[0], args[1])]
    e = [oi.adjust(np.asarray(iv), list(lab), 0.0, t_end)
         for iv, lab in zip(args[2], args[3])]
    return ([x[0] for x in r], [x[1] for x in r], [x[0] for x in e],
            [x[1] for x in e])


def merge_equal_chords(iv, labels, mods):
    """Fuse consecutive intervals whose chords are identical (same encoded root,
    pitch set and bass with extended chords reduced)."""
    chord = mods["chord"]
    roots, bitmaps, basses = chord.encode_many(list(labels), True)
    out = []
    prev = None
    for (s, e), rt, bm, ba in zip(iv, roots, bitmaps, basses):
        cur = (int(rt), tuple(int(x) for x in bm), int(ba))
        if cur != prev:
            out.append([float(s), float(e)])
            prev = cur
        else:
            out[-1][1] = float(e)
    return np.array(out)


def refine(iv_a, lab_a, iv_b, lab_b):
    bs = sorted(set(np.asarray(iv_a).ravel().tolist()) |
                set(np.asarray(iv_b).ravel().tolist()))
    fa, fb = oi.label_fn(iv_a, lab_a), oi.label_fn(iv_b, lab_b)
    out, la, lb = [], [], []
    for a, b in zip(bs[:-1], bs[1:]):
        out.append([a, b])
        la.append(fa((a + b) / 2))
        lb.append(fb((a + b) / 2))
    return np.array(out), la, lb


def expected(task, args, kw, mods, call):
    """Recompute every documented entry by calling the public metric function
    directly (explicit Python keywords, no filter_kwargs) on inputs
    pre-processed by the implementation above."""
    from .replay import resolve
    out = OrderedDict()
    if task == "chord":
        riv, rlab = np.asarray(args[0], dtype=float), list(args[1])
        eiv, elab = oi.adjust(args[2], list(args[3]), float(riv.min()),
                              float(riv.max()), "N", "N")
        m_r = merge_equal_chords(riv, rlab, mods)
        m_e = merge_equal_chords(eiv, elab, mods)
        iv, rl, el = refine(riv, rlab, eiv, elab)
        dur = iv[:, 1] - iv[:, 0]
        ch = mods["chord"]
        for name in CHORD_KEYS[:12]:
            out[name] = call(ch.weighted_accuracy, (getattr(ch, name)(rl, el), dur), {})
        out["underseg"] = call(ch.underseg, (m_r, m_e), {})
        out["overseg"] = call(ch.overseg, (m_r, m_e), {})
        out["seg"] = min(out["overseg"], out["underseg"])
        return out
    if task == "beat":
        pargs = pre_beat(args, kw)
    elif task == "segment":
        pargs = pre_segment(args, kw)
    elif task == "hierarchy":
        pargs = pre_hierarchy(args, kw)
    elif task == "melody":
        f = resolve("melody.to_cent_voicing", mods)
        pargs = call(f, tuple(args), kw_for("melody.to_cent_voicing", kw, {}))
    else:
        pargs = tuple(args)
    for keys, fn, forced in ENTRIES[task]:
        f = resolve(fn, mods)
        a = pargs
        if task == "segment" and fn in ("segment.detection", "segment.deviation"):
            a = (pargs[0], pargs[2])
        if task == "hierarchy" and fn == "hierarchy.tmeasure":
            a = (pargs[0], pargs[2])
        if task == "melody" and fn in ("melody.voicing_recall",
                                       "melody.voicing_false_alarm"):
            a = (pargs[0], pargs[2])
        if task == "transcription" and fn in (
                "transcription.onset_precision_recall_f1",
                "transcription.offset_precision_recall_f1"):
            a = (pargs[0], pargs[2])
        fkw = kw_for(fn, kw, forced)
        if task in ("transcription", "transcription_velocity") and not forced \
                and "offset_ratio" not in fkw and "offset_ratio" in PARAMS[fn]:
            fkw["offset_ratio"] = 0.2  # documented default made explicit
        res = call(f, a, fkw)
        if len(keys) == 1:
            out[keys[0]] = res
        else:
            for k, v in zip(keys, res):
                out[k] = v
    return out
