"""Line coverage of the anchored mechanisms via sys.monitoring (DESIGN §3.5).

Local LINE events are enabled only on the code objects of the named functions
(including nested code objects such as ``_bipartite_match.recurse``), so the
rest of the library runs at full speed. Reports, per function, executable lines
hit / total, lines never reached, and hit counts of *deciding paths* located by
a regular expression on the source text (robust to line drift).
"""

import linecache
import re
import sys
import types

TOOL = 3
_mon = getattr(sys, "monitoring", None)


class Coverage:
    def __init__(self):
        self.codes = {}     # code -> qualname
        self.hits = {}      # (qualname, line) -> count
        self.active = False

    def _nested(self, code, qual):
        yield code, qual
        for c in code.co_consts:
            if isinstance(c, types.CodeType):
                yield from self._nested(c, qual + "." + c.co_name)

    def watch(self, fn, qual=None):
        if _mon is None:
            return
        fn = getattr(fn, "__verif_shim__", None) and fn.__verif_shim__.orig or fn
        fn = getattr(fn, "__wrapped__", fn)
        qual = qual or (fn.__module__.split(".")[-1] + "." + fn.__name__)
        for code, q in self._nested(fn.__code__, qual):
            self.codes[code] = q

    def start(self):
        if _mon is None or self.active:
            return
        try:
            _mon.use_tool_id(TOOL, "verif-cov")
        except ValueError:
            return
        _mon.register_callback(TOOL, _mon.events.LINE, self._line)
        for code in self.codes:
            _mon.set_local_events(TOOL, code, _mon.events.LINE)
        self.active = True

    def _line(self, code, line):
        q = self.codes.get(code)
        if q is not None:
            k = (q, line)
            self.hits[k] = self.hits.get(k, 0) + 1

    def stop(self):
        if not self.active:
            return
        for code in self.codes:
            _mon.set_local_events(TOOL, code, 0)
        _mon.register_callback(TOOL, _mon.events.LINE, None)
        _mon.free_tool_id(TOOL)
        self.active = False

    def report(self, deciding=()):
        """deciding: iterable of (label, qualname, regex)."""
        out = {"functions": {}, "deciding": {}}
        for code, q in self.codes.items():
            lines = sorted({ln for _, _, ln in code.co_lines() if ln is not None
                            and ln != code.co_firstlineno})
            # skip docstring-only / def lines
            hit = [ln for ln in lines if self.hits.get((q, ln))]
            miss = [ln for ln in lines if not self.hits.get((q, ln))]
            out["functions"][q] = {"lines": len(lines), "hit": len(hit),
                                   "never_reached": miss[:40]}
        for label, q, rx in deciding:
            pat = re.compile(rx)
            found = False
            n = 0
            for code, cq in self.codes.items():
                if cq != q:
                    continue
                for _, _, ln in code.co_lines():
                    if ln is None:
                        continue
                    text = linecache.getline(code.co_filename, ln)
                    if pat.search(text):
                        found = True
                        n = max(n, self.hits.get((q, ln), 0))
            out["deciding"][label] = n if found else None
        return out
