"""Non-interference self-check (DESIGN §3.1 (b)).

    python -m vlib.nonint on|off

Runs a fixed battery of evaluate() calls with non-default keywords (and a few
direct metric calls) and prints one digest of all results. ``on`` installs every
monitor set of the framework first; ``off`` runs the bare library. The driver
(core.py) runs both in fresh interpreters and compares the digests: a mismatch
means the instrumentation changed what it observes, and the check is reported
inconclusive, never as a violation.
"""

import sys
import warnings


def battery(mods):
    from . import tasks, env
    from .ctx import digest
    r = env.rng("noninterference-battery")
    out = []
    n = 0
    for i in range(16):
        for name in tasks.TASK_NAMES:
            t = tasks.TASKS[name]
            inp = t.gen_eval(r)
            args, kw = t.evaluate(inp, r)
            f = getattr(mods[name], "evaluate")
            try:
                with warnings.catch_warnings():
                    warnings.simplefilter("ignore")
                    res = f(*args, **kw)
                out.append((name, sorted(kw), digest(dict(res))))
            except Exception as e:  # noqa: BLE001
                out.append((name, sorted(kw), type(e).__name__))
            n += 1
            if i % 4 == 0:
                for fn, a, k in t.calls(t.gen(r), r)[:3]:
                    m, fname = fn.split(".")
                    try:
                        with warnings.catch_warnings():
                            warnings.simplefilter("ignore")
                            out.append((fn, digest(getattr(mods[m], fname)(*a, **k))))
                    except Exception as e:  # noqa: BLE001
                        out.append((fn, type(e).__name__))
                    n += 1
    return n, digest(out)


def install_everything(mods):
    from .ctx import Ctx
    ctx = Ctx("NONINT", "quick", 0, "nonint")
    from .monitors import (range_mon, match_mon, interval_mon, purity_mon, ref_mon)
    from .props import c03, c11, c12, c16, c17, c18
    range_mon.install(ctx, mods)
    match_mon.install(ctx, mods)
    interval_mon.install(ctx, mods)
    purity_mon.install(ctx, mods)
    ref_mon.install(ctx, mods)
    c03.install_trace(mods)
    c11.install(ctx, mods)
    c16.install(ctx, mods)
    c17.install(ctx, mods)
    c18.install(ctx, mods)
    from . import shim
    shim.install(mods["chord"], "weighted_accuracy", post=c12.post_weighted_accuracy(ctx))
    return ctx


def main():
    mode = sys.argv[1]
    from . import env
    env.add_deps()
    warnings.simplefilter("ignore")
    mods = env.load_repo()
    nshim = 0
    if mode == "on":
        install_everything(mods)
        from . import shim
        nshim, problems = shim.fidelity_report()
        if problems:
            print("FIDELITY-PROBLEMS %r" % problems[:5])
    n, d = battery(mods)
    if mode == "on":
        from . import shim
        if shim.STATE.hook_error_count:
            print("FIDELITY-PROBLEMS %d monitor hook(s) raised: %r" % (
                shim.STATE.hook_error_count, shim.STATE.hook_errors[:2]))
    print("NONINT mode=%s calls=%d shims=%d digest=%s" % (mode, n, nshim, d))


if __name__ == "__main__":
    main()
