"""C04 reference-model monitors: every observed call of a listed metric function
is re-computed by an independent executable specification (vlib/oracles/*_ref)
on the same arguments and compared (1e-9), unless the oracle reports that the
input sits within rounding distance of a threshold (margin < 1e-7)."""

import math
import warnings

import numpy as np

from .. import env, shim
from ..ctx import short
from ..kinds import is_real_scalar
from ..oracles import beat_ref, event_ref, symbolic_ref

TOL = 1e-9
MARGIN = 1e-7
SCALE = 1  # size-bound multiplier (raised for the repository-fixture shards)

try:
    from ..oracles import melody_ref, multipitch_ref, transcription_ref
    HAVE_PITCH = True
except Exception:  # noqa: BLE001 - the pitch oracles are optional
    HAVE_PITCH = False


def _size(args):
    n = 0
    for a in args:
        if isinstance(a, np.ndarray):
            n = max(n, a.shape[0] if a.ndim else 1)
        elif isinstance(a, (list, tuple)):
            n = max(n, len(a))
    return n


def _eq(got, want, tol=TOL):
    """Structural comparison; returns None if equal else (path, got, want)."""
    if isinstance(want, (tuple, list)):
        try:
            g = list(got)
        except TypeError:
            return ("", got, want)
        if len(g) != len(want):
            return ("len", got, want)
        for i, (a, b) in enumerate(zip(g, want)):
            r = _eq(a, b, tol)
            if r is not None:
                return ("[%d]%s" % (i, r[0]), r[1], r[2])
        return None
    if isinstance(want, dict):
        for k, b in want.items():
            if k not in got:
                return ("[%r]" % k, None, b)
            r = _eq(got[k], b, tol)
            if r is not None:
                return ("[%r]%s" % (k, r[0]), r[1], r[2])
        return None
    if want is None:
        return None
    if isinstance(want, (bool, np.bool_)):
        return None if bool(got) == bool(want) else ("", got, want)
    if isinstance(want, np.ndarray):
        g = np.asarray(got)
        if g.shape != want.shape:
            return ("shape", g.shape, want.shape)
        if g.size and not np.all((np.abs(g - want) <= tol) |
                                 (np.isnan(g) & np.isnan(want))):
            return ("", g, want)
        return None
    if not is_real_scalar(got):
        return ("", got, want)
    a, b = float(got), float(want)
    if a != a and b != b:
        return None
    if a != a or b != b:
        return ("", a, b)
    return None if (a == b or abs(a - b) <= tol) else ("", a, b)


# fn -> (oracle, max input size, extra)
def _table():
    t = {
        "beat.f_measure": (beat_ref.f_measure, 64),
        "beat.cemgil": (beat_ref.cemgil, 64),
        "beat.goto": (beat_ref.goto, 64),
        "beat.p_score": (beat_ref.p_score, 64),
        "beat.continuity": (beat_ref.continuity, 64),
        "beat.information_gain": (beat_ref.information_gain, 64),
        "onset.f_measure": (event_ref.f_measure, 64),
        "segment.detection": (event_ref.detection, 64),
        "segment.deviation": (event_ref.deviation, 64),
        "tempo.detection": (symbolic_ref.tempo_detection, 10),
        "key.weighted_score": (symbolic_ref.key_weighted_score, 10 ** 6),
        "alignment.absolute_error": (symbolic_ref.alignment_absolute_error, 200),
        "alignment.percentage_correct": (symbolic_ref.alignment_percentage_correct, 200),
        "alignment.percentage_correct_segments":
            (symbolic_ref.alignment_percentage_correct_segments, 200),
        "alignment.karaoke_perceptual_metric":
            (symbolic_ref.alignment_karaoke_perceptual_metric, 200),
        "pattern.establishment_FPR": (symbolic_ref.pattern_establishment_FPR, 8),
        "pattern.occurrence_FPR": (symbolic_ref.pattern_occurrence_FPR, 8),
        "pattern.three_layer_FPR": (symbolic_ref.pattern_three_layer_FPR, 8),
        "pattern.first_n_three_layer_P": (symbolic_ref.pattern_first_n_three_layer_P, 8),
        "pattern.first_n_target_proportion_R":
            (symbolic_ref.pattern_first_n_target_proportion_R, 8),
    }
    if HAVE_PITCH:
        t.update({
            "melody.to_cent_voicing": (melody_ref.to_cent_voicing, 200),
            "melody.hz2cents": (melody_ref.hz2cents, 400),
            "melody.freq_to_voicing": (melody_ref.freq_to_voicing, 400),
            "melody.constant_hop_timebase": (melody_ref.constant_hop_timebase, 10 ** 9),
            "melody.resample_melody_series": (melody_ref.resample_melody_series, 200),
            "melody.voicing_recall": (melody_ref.voicing_recall, 400),
            "melody.voicing_false_alarm": (melody_ref.voicing_false_alarm, 400),
            "multipitch.resample_multipitch": (multipitch_ref.resample_multipitch, 200),
            "multipitch.compute_num_true_positives":
                (multipitch_ref.compute_num_true_positives, 200),
            "multipitch.compute_accuracy": (multipitch_ref.compute_accuracy, 400),
            "multipitch.compute_err_score": (multipitch_ref.compute_err_score, 400),
            "transcription.average_overlap_ratio":
                (transcription_ref.average_overlap_ratio, 60),
            "melody.voicing_measures": (melody_ref.voicing_measures, 400),
            "melody.raw_pitch_accuracy": (melody_ref.raw_pitch_accuracy, 400),
            "melody.raw_chroma_accuracy": (melody_ref.raw_chroma_accuracy, 400),
            "melody.overall_accuracy": (melody_ref.overall_accuracy, 400),
            "multipitch.metrics": (multipitch_ref.metrics, 200),
            "transcription.precision_recall_f1_overlap":
                (transcription_ref.precision_recall_f1_overlap, 40),
            "transcription.onset_precision_recall_f1":
                (transcription_ref.onset_precision_recall_f1, 40),
            "transcription.offset_precision_recall_f1":
                (transcription_ref.offset_precision_recall_f1, 40),
            "transcription_velocity.precision_recall_f1_overlap":
                (transcription_ref.velocity_precision_recall_f1_overlap, 40),
        })
    return t


def classify(fn, args, kw, got, want):
    """Mechanism suffix for a C04 witness ('' if uncatalogued)."""
    try:
        if fn == "beat.information_gain":
            cls = beat_ref.information_gain_deviation_class(args[0], args[1])
            if any("D13" in c for c in cls):
                from ..oracles.selftest_beat import slipped_information_gain
                sv, sm = slipped_information_gain(*args, **kw)
                # the witness is the catalogued slip iff the library value is the
                # definition evaluated *with* the slip (when the slipped evaluation
                # itself sits on a histogram edge, sm < MARGIN, it cannot be
                # compared and the structural class decides)
                if _eq(got, sv) is None or sm < MARGIN:
                    return "first-annotation-interval-if-elif-slip"
    except Exception:
        pass
    return ""


def post_ref(ctx, fn, oracle, max_n):
    def post(call):
        c = call.case()
        args, kw = c["args"], c["kwargs"]
        ctx.count("contract." + fn)
        raised = call.exc
        if _size(args) > max_n * SCALE:
            ctx.count("skipped_large")
            return
        try:
            skip_pat = fn.startswith("pattern.") and not \
                symbolic_ref.pattern_inputs_are_point_sets(args[0], args[1])
            ambiguous_key = fn == "key.weighted_score" and not \
                symbolic_ref.key_is_unambiguous(*args[:2])
        except Exception:  # noqa: BLE001 - malformed input (the repo's own fault tests)
            ctx.count("input_not_classifiable(not judged)")
            return
        if skip_pat:
            ctx.count("skipped_pattern_not_point_set")
            return
        if ambiguous_key:
            if raised is not None:
                ctx.count("library_rejected_input(C14)")
                return
            ctx.count("key.other_mode_rows_not_judged")
            # unambiguous rows only: identical -> 1, X vs non-X -> 0, value in table
            v = float(call.result)
            if v not in (0.0, 0.2, 0.3, 0.5, 1.0):
                ctx.violation("C04/key.weighted_score/value-not-in-table", "value-set",
                              fn, "weighted_score%r = %r" % (tuple(args[:2]), v), c)
            return
        try:
            with warnings.catch_warnings():
                warnings.simplefilter("ignore")
                want, margin = oracle(*args, **kw)
        except ValueError:
            ctx.count("oracle_rejects_input(not judged)")
            return
        except Exception as e:  # noqa: BLE001
            ctx.count("oracle_error")
            ctx.hist("oracle_error", "%s:%s" % (fn, type(e).__name__))
            return
        if margin < MARGIN:
            ctx.count("skipped_near_threshold")
            ctx.hist("skipped_near_threshold", fn)
            return
        if raised is not None:
            if isinstance(raised, ValueError) or \
                    type(raised).__name__ == "InvalidChordException":
                # a validation-style rejection: whether the input deserved it is
                # C14's question (the oracles do not re-state the validators)
                ctx.count("library_rejected_input(C14)")
                return
            if _is_nan(want):
                ctx.count("definition_undefined(not judged)")
                return
            ctx.ev()
            ctx.violation("C04/%s/raises/%s" % (fn, type(raised).__name__), "raises", fn,
                          "%s raised %s where the documented definition gives %s" % (
                              fn, type(raised).__name__, short(want, 80)), c,
                          witness={"fn": fn, "args": args, "kwargs": kw,
                                   "exception": repr(raised), "definition": want})
            return
        ctx.ev()
        ctx.hist("compared", fn)
        got = call.result
        if fn.endswith("precision_recall_f1_overlap") and isinstance(want, tuple) and \
                len(want) == 4 and isinstance(want[3], tuple):
            # AOR depends on which maximum matching is chosen: (lo, hi) bounds
            lo, hi = want[3]
            d = _eq(tuple(got)[:3], tuple(want[:3]))
            if d is None and lo is not None:
                a = float(got[3])
                if not (lo - TOL <= a <= hi + TOL):
                    d = ("[3]", a, (lo, hi))
        else:
            d = _eq(got, want)
        if d is not None:
            if _is_nan(d[2]):
                # the definition is undefined (0/0) on this input: degenerate for
                # the equality check (non-finiteness is C01's concern)
                ctx.count("definition_undefined(not judged)")
                return
            mech = classify(fn, args, kw, got, want)
            ctx.violation("C04/%s/differs-from-definition%s" % (fn, ("/" + mech) if mech
                                                                else ""),
                          "differs-from-definition", fn,
                          "%s%s = %s but the documented definition gives %s (margin "
                          "%.3g)%s" % (fn, d[0], short(d[1], 80), short(d[2], 80), margin,
                                       (" -- " + mech) if mech else ""), c,
                          witness={"fn": fn, "args": args, "kwargs": kw,
                                   "library": got, "definition": want, "margin": margin})
            return
        if _nontrivial(got):
            ctx.nontrivial(fn, args, sorted(kw.items(), key=repr))
        if ctx.want_sample() and _nontrivial(got) and ctx.evaluations % 211 == 0:
            ctx.sample({"fn": fn, "args": short(args, 300), "kwargs": short(kw, 100),
                        "library": short(got, 160), "definition": short(want, 160),
                        "margin": margin})
    return post


def _is_nan(x):
    try:
        if isinstance(x, (tuple, list)):
            return any(_is_nan(y) for y in x)
        return float(x) != float(x)
    except Exception:
        return False


def _nontrivial(v):
    try:
        if isinstance(v, (tuple, list)):
            return any(_nontrivial(x) for x in v)
        if isinstance(v, dict):
            return any(_nontrivial(x) for x in v.values())
        if isinstance(v, np.ndarray):
            return bool(v.size and np.any((v > 0) & (v < 1)))
        x = float(v)
        return 0.0 < x < 1.0
    except Exception:
        return False


def install(ctx, mods=None):
    mods = mods or env.load_repo()
    for fn, (oracle, max_n) in _table().items():
        m, name = fn.split(".")
        shim.install(mods[m], name, post=post_ref(ctx, fn, oracle, max_n))
    return list(_table())
