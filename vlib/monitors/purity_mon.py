"""C15 purity monitor: digest every argument of every public function of every
module before the call and after it (return or raise)."""

import types

import numpy as np

from .. import env, shim
from ..ctx import digest

MODULES = ["beat", "onset", "segment", "chord", "melody", "multipitch",
           "transcription", "transcription_velocity", "tempo", "key", "pattern",
           "hierarchy", "alignment", "util", "separation", "sonify"]

SKIP = {("util", "filter_kwargs"), ("util", "has_kwargs"), ("util", "deprecated"),
        ("util", "intersect_files")}


def public_functions(mods):
    out = []
    for mname in MODULES:
        mod = mods[mname]
        for name, fn in sorted(vars(mod).items()):
            orig = getattr(fn, "__verif_shim__", None)
            f = orig.orig if orig is not None else fn
            if not isinstance(f, types.FunctionType):
                continue
            if f.__module__ != mod.__name__ or name.startswith("_"):
                continue
            if (mname, name) in SKIP or shim.is_opaque_wrapper(f):
                continue
            out.append((mname, name))
    return out


def _mech(fn, param, before, after):
    """Structural predicate for purity witnesses."""
    if fn == "melody.freq_to_voicing" and param == "voicing":
        return "voicing-zeroed-in-place-where-frequency-is-0"
    if fn == "util.adjust_intervals" and param == "labels":
        return "fill-label-inserted-into-callers-list"
    if fn == "util.adjust_events" and param == "labels":
        return "fill-label-inserted-into-callers-list"
    return ""


def pre_purity(ctx):
    def pre(call):
        names = list(call.spec.params) + sorted(call.kwargs)
        vals = list(call.args) + [call.kwargs[k] for k in sorted(call.kwargs)]
        call.extra = (names, [digest(v) if _mutable(v) else None for v in vals], vals)
    return pre


def _mutable(v):
    return isinstance(v, (np.ndarray, list, dict, set))


def post_purity(ctx):
    def post(call):
        if call.extra is None:
            return
        names, before, vals = call.extra
        ctx.ev()
        ctx.count("contract.purity")
        ctx.hist("purity.calls", call.fn)
        if call.exc is not None:
            ctx.count("purity.checked_after_raise")
        n_arr = n_cont = 0
        for name, d0, v in zip(names, before, vals):
            if d0 is None:
                continue
            if isinstance(v, np.ndarray):
                n_arr += 1
            else:
                n_cont += 1
            d1 = digest(v)
            if d1 != d0:
                mech = _mech(call.fn, name, d0, d1)
                key = "C15/%s/mutates-argument/%s%s" % (
                    call.fn, name, ("/" + mech) if mech else "")
                c = call.case()
                ctx.violation(key, "mutates-argument", call.fn,
                              "%s modified its argument %r (origin: %s)%s" % (
                                  call.fn, name,
                                  "client call" if call.parent is None
                                  else "called by " + call.parent,
                                  (" -- " + mech) if mech else ""),
                              c, witness={"fn": call.fn, "param": name,
                                          "before": c["args"], "kwargs": c["kwargs"],
                                          "after": v, "raised": call.exc is not None})
        if n_arr and n_cont:
            ctx.nontrivial("purity", call.fn, [np.shape(v) if isinstance(v, np.ndarray)
                                               else type(v).__name__ for v in vals])
    return post


def install(ctx, mods=None):
    mods = mods or env.load_repo()
    n = 0
    for mname, name in public_functions(mods):
        try:
            shim.install(mods[mname], name, pre=pre_purity(ctx), post=post_purity(ctx))
            n += 1
        except TypeError:
            ctx.count("purity.not_shimmable")
    ctx.count("purity.functions_monitored", n)
    return n
