"""C13 monitors: post-conditions of the interval pre-processing helpers against
the piecewise-constant-function model (vlib/oracles/intervals.py). Installed on
util.*, so every internal call from segment/chord/hierarchy/sonify and from the
repository's own tests is checked as well."""

from fractions import Fraction

import numpy as np

from .. import env, shim
from ..oracles import intervals as oi

TOL = 0.0  # lattice inputs: exact


def _viol(ctx, call, fn, clause, what, mech=""):
    key = "C13/%s/%s%s" % (fn, clause, ("/" + mech) if mech else "")
    ctx.violation(key, clause, fn, what + ((" -- " + mech) if mech else ""),
                  call.case(), witness={"fn": call.fn, "args": call.case()["args"],
                                        "kwargs": call.case()["kwargs"],
                                        "result": call.result})


def _finite(*xs):
    for x in xs:
        if x is None:
            continue
        a = np.asarray(x, dtype=float)
        if a.size and not np.all(np.isfinite(a)):
            return False
    return True


def _adjust_mech(iv, t_min, t_max):
    """Structural predicate for adjust_intervals witnesses (known finding D1)."""
    iv = np.asarray(iv, dtype=float).reshape(-1, 2)
    lo = -np.inf if t_min is None else t_min
    hi = np.inf if t_max is None else t_max
    if np.all(iv[:, 1] <= lo) or np.all(iv[:, 0] >= hi):
        return "all-input-outside-range"
    if np.any(iv[:, 1] == lo) or np.any(iv[:, 0] == hi):
        return "limit-coincides-with-an-input-boundary"
    return ""


def post_adjust_intervals(ctx):
    def post(call):
        b = call.bound()
        # arguments as they were before the call
        c = call.case()
        bb = dict(zip(call.spec.params, c["args"]))
        bb.update(c["kwargs"])
        iv = np.asarray(bb["intervals"], dtype=float)
        labels = bb.get("labels")
        t_min = bb.get("t_min", 0.0)
        t_max = bb.get("t_max", None)
        sl = bb.get("start_label", "__T_MIN")
        el = bb.get("end_label", "__T_MAX")
        ctx.count("contract.util.adjust_intervals")
        if iv.ndim != 2 and iv.size:
            ctx.count("unclassified")
            return
        iv = iv.reshape(-1, 2)
        if not _finite(iv, t_min, t_max) or not oi.is_time_ordered(iv) or \
                (labels is not None and len(labels) != len(iv)) or \
                (t_min is not None and t_max is not None and not t_min < t_max):
            ctx.count("precondition_not_met.adjust_intervals")
            return
        ctx.ev()
        if iv.size == 0:
            if t_min is None or t_max is None:
                if not isinstance(call.exc, ValueError):
                    _viol(ctx, call, "util.adjust_intervals", "empty-without-limits",
                          "empty input without both limits must raise ValueError")
                return
        if call.exc is not None:
            _viol(ctx, call, "util.adjust_intervals", "raises",
                  "raised %s on time-ordered input" % type(call.exc).__name__,
                  _adjust_mech(iv, t_min, t_max) if iv.size else "")
            return
        out, olab = call.result
        out = np.asarray(out, dtype=float).reshape(-1, 2)
        mech = _adjust_mech(iv, t_min, t_max) if iv.size else ""
        bad = []
        if len(out) == 0 or np.any(out[:, 1] <= out[:, 0]):
            bad.append(("non-positive-duration", "an output interval has "
                        "non-positive duration"))
        if len(out):
            if t_min is not None and out[0, 0] != t_min:
                bad.append(("start", "first output start %r != t_min %r" % (out[0, 0], t_min)))
            if t_max is not None and out[-1, 1] != t_max:
                bad.append(("end", "last output end %r != t_max %r" % (out[-1, 1], t_max)))
            if (t_min is not None and out.min() < t_min) or \
                    (t_max is not None and out.max() > t_max):
                bad.append(("outside", "output extends outside [t_min, t_max]"))
        if labels is not None and (olab is None or len(olab) != len(out)):
            bad.append(("label-count", "label list length %s != %d rows" % (
                None if olab is None else len(olab), len(out))))
        if not bad and iv.size:
            in_labs = list(labels) if labels is not None else list(range(len(iv)))
            o_labs = list(olab) if labels is not None else None
            f_in = oi.label_fn(iv, in_labs)
            lo = t_min if t_min is not None else float(out.min())
            hi = t_max if t_max is not None else float(out.max())
            # "before the first / after the last input interval" refers to the
            # intervals that survive the cropping (documented: intervals lying
            # completely outside the range are removed, then the range is padded)
            surv = [(max(a, lo), min(b, hi)) for a, b in iv if min(b, hi) > max(a, lo)]
            if surv:
                first, last = surv[0][0], surv[-1][1]
            else:
                first, last = hi, hi
            pts = oi.probe_points(iv.ravel(), out.ravel(), [lo, hi])
            if labels is not None:
                f_out = oi.label_fn(out, o_labs)
            else:
                f_out = oi.label_fn(out, ["cov"] * len(out))
            for p in pts:
                if not (lo < p < hi):
                    continue
                want = f_in(p)
                got = f_out(p)
                if want is oi.GAP:
                    if p < first:
                        want = sl
                    elif p > last:
                        want = el
                    else:
                        if got is not oi.GAP:
                            bad.append(("gap-filled", "instant %r lies in an internal "
                                        "gap of the input but is covered by the "
                                        "output" % p))
                            break
                        continue
                    if labels is None:
                        want = "cov"
                elif labels is None:
                    want = "cov"
                if got is oi.GAP or got != want:
                    bad.append(("label", "instant %r has label %r in the output, "
                                "expected %r" % (p, None if got is oi.GAP else got, want)))
                    break
        cropped = iv.size and ((t_min is not None and iv.min() != t_min) or
                               (t_max is not None and iv.max() != t_max))
        if cropped:
            ctx.nontrivial("adjust", iv, t_min, t_max, labels is None)
            ctx.hist("adjust.relation", _relation(iv, t_min, t_max))
        for clause, what in bad:
            _viol(ctx, call, "util.adjust_intervals", clause, what, mech)
    return post


def _relation(iv, t_min, t_max):
    def rel(t):
        if t is None:
            return "None"
        if t < iv.min():
            return "before"
        if t > iv.max():
            return "after"
        if t in set(iv.ravel().tolist()):
            return "on-boundary"
        if any(a < t < b for a, b in iv):
            return "inside"
        return "in-gap"
    return "%s|%s" % (rel(t_min), rel(t_max))


def post_adjust_events(ctx):
    def post(call):
        c = call.case()
        bb = dict(zip(call.spec.params, c["args"]))
        bb.update(c["kwargs"])
        ev = np.asarray(bb["events"], dtype=float)
        labels = bb.get("labels")
        t_min, t_max = bb.get("t_min", 0.0), bb.get("t_max", None)
        ctx.count("contract.util.adjust_events")
        if ev.ndim != 1 or ev.size == 0 or not _finite(ev, t_min, t_max) or \
                np.any(np.diff(ev) < 0) or (labels is not None and len(labels) != len(ev)):
            ctx.count("precondition_not_met.adjust_events")
            return
        lo = -np.inf if t_min is None else t_min
        hi = np.inf if t_max is None else t_max
        inside = [(t, labels[i] if labels is not None else None)
                  for i, t in enumerate(ev) if lo <= t <= hi]
        if not inside or not lo < hi:
            ctx.count("precondition_not_met.adjust_events")
            return
        ctx.ev()
        if call.exc is not None:
            _viol(ctx, call, "util.adjust_events", "raises", "raised %s" %
                  type(call.exc).__name__)
            return
        out, olab = call.result
        out = np.asarray(out, dtype=float)
        want = [t for t, _ in inside]
        wl = [l for _, l in inside]
        if t_min is not None and want[0] > t_min:
            want.insert(0, t_min)
            wl.insert(0, "%sT_MIN" % bb.get("label_prefix", "__"))
        if t_max is not None and want[-1] < t_max:
            want.append(t_max)
            wl.append("%sT_MAX" % bb.get("label_prefix", "__"))
        if out.tolist() != want:
            _viol(ctx, call, "util.adjust_events", "events",
                  "returned events %r, expected %r" % (out.tolist()[:12], want[:12]))
        elif labels is not None and list(olab) != wl:
            _viol(ctx, call, "util.adjust_events", "labels",
                  "returned labels %r, expected %r" % (list(olab)[:12], wl[:12]))
        if len(want) != len(ev):
            ctx.nontrivial("adjust_events", ev, t_min, t_max)
    return post


def post_merge(ctx):
    def post(call):
        c = call.case()
        xi, xl, yi, yl = c["args"][:4]
        ctx.count("contract.util.merge_labeled_intervals")
        xi = np.asarray(xi, dtype=float)
        yi = np.asarray(yi, dtype=float)
        if xi.ndim != 2 or yi.ndim != 2 or not len(xi) or not len(yi) or \
                not _finite(xi, yi) or not _ordered(xi) or not _ordered(yi) \
                or len(xl) != len(xi) or len(yl) != len(yi):
            ctx.count("precondition_not_met.merge")
            return
        aligned = xi[0, 0] == yi[0, 0] and xi[-1, 1] == yi[-1, 1]
        ctx.ev()
        if not aligned:
            if not isinstance(call.exc, ValueError):
                _viol(ctx, call, "util.merge_labeled_intervals", "unaligned-accepted",
                      "annotations that do not start/end together must raise ValueError")
            return
        if call.exc is not None:
            _viol(ctx, call, "util.merge_labeled_intervals", "raises",
                  "raised %s on aligned annotations" % type(call.exc).__name__)
            return
        out, ox, oy = call.result
        out = np.asarray(out, dtype=float)
        bs = sorted(set(xi.ravel().tolist()) | set(yi.ravel().tolist()))
        want = [[a, b] for a, b in zip(bs[:-1], bs[1:])]
        if out.tolist() != want:
            _viol(ctx, call, "util.merge_labeled_intervals", "refinement",
                  "output is not the common refinement of the two boundary sets")
            return
        if len(ox) != len(out) or len(oy) != len(out):
            _viol(ctx, call, "util.merge_labeled_intervals", "label-count",
                  "label lists do not match the number of output intervals")
            return
        fx, fy = oi.label_fn(xi, list(xl)), oi.label_fn(yi, list(yl))
        for (a, b), lx, ly in zip(out, ox, oy):
            # exact mid-point: for a sliver between adjacent floats the float
            # mid-point rounds onto a boundary
            p = (Fraction(float(a)) + Fraction(float(b))) / 2
            wx, wy = fx(p), fy(p)
            if wx is oi.GAP or wy is oi.GAP:
                # inside an un-annotated gap of one annotation the statement
                # prescribes nothing for that annotation
                ctx.count("merge.pieces_in_a_gap(not judged)")
                if wx is oi.GAP:
                    wx = lx
                if wy is oi.GAP:
                    wy = ly
            if wx != lx or wy != ly:
                _viol(ctx, call, "util.merge_labeled_intervals", "label",
                      "piece [%r, %r] carries (%r, %r), annotations had (%r, %r)"
                      % (a, b, lx, ly, fx(p), fy(p)))
                break
        tot = float(np.sum(out[:, 1] - out[:, 0]))
        if abs(tot - (xi[-1, 1] - xi[0, 0])) > 1e-9 * max(1.0, abs(tot)):
            _viol(ctx, call, "util.merge_labeled_intervals", "duration",
                  "total duration not conserved")
        if len(out) > max(len(xi), len(yi)):
            ctx.nontrivial("merge", xi, yi)
    return post


def _ordered(iv):
    """Positive durations, time-ordered, non-overlapping (gaps allowed)."""
    return bool(np.all(iv[:, 1] > iv[:, 0]) and np.all(iv[1:, 0] >= iv[:-1, 1]))


def _contiguous(iv):
    return bool(np.all(iv[:, 1] > iv[:, 0]) and np.all(iv[1:, 0] == iv[:-1, 1]))


def _check_point_labels(intervals, labels, times, got, fill):
    """Returns (index, want, got) of the first sample whose label is wrong."""
    iv = [(float(a), float(b)) for a, b in intervals]
    for k, t in enumerate(times):
        want = fill
        for (a, b), lab in zip(iv, labels):
            if a <= t <= b:
                want = lab
        g = got[k]
        if not (g is want or g == want):
            return k, want, g
    return None


def post_interpolate(ctx):
    def post(call):
        c = call.case()
        bb = dict(zip(call.spec.params, c["args"]))
        bb.update(c["kwargs"])
        iv = np.asarray(bb["intervals"], dtype=float)
        labels = bb["labels"]
        tp = np.asarray(bb["time_points"], dtype=float)
        fill = bb.get("fill_value", None)
        ctx.count("contract.util.interpolate_intervals")
        if iv.ndim != 2 or tp.ndim != 1 or not _finite(iv, tp) or \
                len(labels) != len(iv) or not oi.is_time_ordered(iv):
            ctx.count("precondition_not_met.interpolate")
            return
        if tp.size > 20000:
            ctx.count("skipped_large")
            return
        ctx.ev()
        unsorted = bool(np.any(tp[1:] < tp[:-1]))
        if unsorted:
            if not isinstance(call.exc, ValueError):
                _viol(ctx, call, "util.interpolate_intervals", "unsorted-accepted",
                      "decreasing time_points must raise ValueError")
            return
        if call.exc is not None:
            _viol(ctx, call, "util.interpolate_intervals", "raises",
                  "raised %s" % type(call.exc).__name__)
            return
        got = call.result
        if len(got) != len(tp):
            _viol(ctx, call, "util.interpolate_intervals", "length",
                  "%d labels for %d time points" % (len(got), len(tp)))
            return
        w = _check_point_labels(iv, labels, tp.tolist(), got, fill)
        if w is not None:
            _viol(ctx, call, "util.interpolate_intervals", "label",
                  "time point #%d = %r labelled %r, expected %r" % (
                      w[0], tp[w[0]], w[2], w[1]))
        if len(iv) >= 2 and any(t in set(iv.ravel().tolist()) for t in tp.tolist()):
            ctx.nontrivial("interp", iv, tp)
            ctx.count("interpolate.points_on_boundaries")
    return post


def post_to_samples(ctx):
    def post(call):
        c = call.case()
        bb = dict(zip(call.spec.params, c["args"]))
        bb.update(c["kwargs"])
        iv = np.asarray(bb["intervals"], dtype=float)
        labels = bb["labels"]
        offset = bb.get("offset", 0)
        ss = bb.get("sample_size", 0.1)
        fill = bb.get("fill_value", None)
        ctx.count("contract.util.intervals_to_samples")
        if iv.ndim != 2 or not iv.size or not _finite(iv, offset, ss) or ss <= 0 or \
                len(labels) != len(iv) or not oi.is_time_ordered(iv) or offset < 0:
            ctx.count("precondition_not_met.to_samples")
            return
        if call.exc is not None:
            ctx.ev()
            _viol(ctx, call, "util.intervals_to_samples", "raises",
                  "raised %s" % type(call.exc).__name__)
            return
        times, got = call.result
        if len(times) > 20000:
            ctx.count("skipped_large")
            return
        ctx.ev()
        from fractions import Fraction as F
        import math
        n = int(math.floor(F(float(iv.max())) / F(float(ss))))
        if len(times) != max(n, 0) or len(got) != len(times):
            # a frame count off by one can only be a rounding artefact when
            # max/sample_size is within 1e-9 of an integer
            q = float(iv.max()) / float(ss)
            if abs(q - round(q)) < 1e-9 and abs(len(times) - n) == 1:
                ctx.count("near_threshold.frame_count")
            else:
                _viol(ctx, call, "util.intervals_to_samples", "count",
                      "%d samples, floor(max/sample_size) = %d" % (len(times), n))
                return
        for k, t in enumerate(times):
            want = k * float(ss) + float(offset)
            if abs(t - want) > 1e-6 * max(1.0, abs(want)):
                _viol(ctx, call, "util.intervals_to_samples", "grid",
                      "sample #%d at %r, expected %r" % (k, t, want))
                return
        w = _check_point_labels(iv, labels, times, got, fill)
        if w is not None:
            _viol(ctx, call, "util.intervals_to_samples", "label",
                  "sample #%d at %r labelled %r, expected %r" % (
                      w[0], times[w[0]], w[2], w[1]))
        if len(iv) >= 2 and len(times) >= 2:
            ctx.nontrivial("samples", iv, float(ss), float(offset))
    return post


def post_b2i(ctx):
    def post(call):
        bnd = call.case()["args"][0]
        ctx.count("contract.util.boundaries_to_intervals")
        b = np.asarray(bnd, dtype=float)
        if b.ndim != 1 or b.size < 2 or not _finite(b):
            ctx.count("precondition_not_met.b2i")
            return
        strictly = bool(np.all(np.diff(b) > 1e-6))
        if not strictly:
            ctx.count("precondition_not_met.b2i")
            return
        ctx.ev()
        if call.exc is not None:
            _viol(ctx, call, "util.boundaries_to_intervals", "raises",
                  "raised %s on unique ascending boundaries" % type(call.exc).__name__)
            return
        out = np.asarray(call.result, dtype=float)
        want = [[x, y] for x, y in zip(b[:-1].tolist(), b[1:].tolist())]
        if out.tolist() != want:
            _viol(ctx, call, "util.boundaries_to_intervals", "pairs",
                  "intervals are not consecutive boundary pairs")
        if b.size >= 3:
            ctx.nontrivial("b2i", b)
    return post


def post_i2b(ctx):
    def post(call):
        c = call.case()
        iv = np.asarray(c["args"][0], dtype=float)
        q = c["kwargs"].get("q", c["args"][1] if len(c["args"]) > 1 else 5)
        ctx.count("contract.util.intervals_to_boundaries")
        if iv.ndim != 2 or not _finite(iv) or call.exc is not None:
            ctx.count("precondition_not_met.i2b")
            return
        ctx.ev()
        out = np.asarray(call.result, dtype=float)
        want = sorted({round(float(x), int(q)) for x in iv.ravel()})
        if len(out) != len(want) or any(abs(a - b) > 10.0 ** (-q) / 2 + 1e-12
                                        for a, b in zip(out.tolist(), want)):
            _viol(ctx, call, "util.intervals_to_boundaries", "boundaries",
                  "boundaries are not the sorted unique rounded interval times")
    return post


def install(ctx, mods=None):
    mods = mods or env.load_repo()
    u = mods["util"]
    shim.install(u, "adjust_intervals", post=post_adjust_intervals(ctx))
    shim.install(u, "adjust_events", post=post_adjust_events(ctx))
    shim.install(u, "merge_labeled_intervals", post=post_merge(ctx))
    shim.install(u, "interpolate_intervals", post=post_interpolate(ctx))
    shim.install(u, "intervals_to_samples", post=post_to_samples(ctx))
    shim.install(u, "boundaries_to_intervals", post=post_b2i(ctx))
    shim.install(u, "intervals_to_boundaries", post=post_i2b(ctx))
