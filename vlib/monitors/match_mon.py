"""C05 monitors: every matching made anywhere in mir_eval is checked for
validity (one-to-one, only feasible pairs) and maximality against an
independent brute-force feasibility graph and Kuhn's algorithm."""

from fractions import Fraction as F
import math

import numpy as np

from .. import env, shim
from ..oracles import matching as om

MAX_SIDE = 400  # larger calls are counted as skipped_large

N_DEC = 4


def _viol(ctx, call, clause, what, site=None, extra=None):
    site = site or call.fn
    key = "C05/%s/%s" % (site, clause)
    ctx.violation(key, clause, site, what, call.case(),
                  witness={"fn": call.fn, "args": call.case()["args"],
                           "kwargs": call.case()["kwargs"],
                           "result": call.result, "extra": extra})


# ---- util._bipartite_match ---------------------------------------------

def post_bipartite(ctx):
    def post(call):
        if call.exc is not None:
            return
        graph = call.args[0]
        m = call.result
        ctx.ev()
        ctx.count("contract._bipartite_match")
        if call.parent is None:
            ctx.count("origin.client")
        else:
            ctx.count("origin.internal")
        nU = len(graph)
        nV = len({v for u in graph for v in graph[u]})
        if nU > MAX_SIDE or nV > MAX_SIDE:
            ctx.count("skipped_large")
            return
        bad = []
        if not isinstance(m, dict):
            bad.append("type")
        else:
            us = list(m.values())
            if len(set(us)) != len(us):
                bad.append("reuse")
            for v, u in m.items():
                if u not in graph or v not in graph[u]:
                    bad.append("infeasible-pair")
                    break
            mx = om.graph_max(graph)
            g = om.greedy_size(graph)
            if len(m) < mx:
                bad.append("not-maximum")
            if mx > g:
                ctx.count("deciding.greedy_not_maximum")
            if mx >= 1 and mx > g:
                ctx.nontrivial("graph", sorted((repr(u), sorted(map(repr, vs)))
                                               for u, vs in graph.items()))
            ctx.hist("matching_size", mx if mx < 10 else "10+")
        for b in bad:
            _viol(ctx, call, b, "_bipartite_match returned an invalid or "
                  "non-maximum matching (%s)" % b)
    return post


# ---- util.match_events --------------------------------------------------

def post_match_events(ctx):
    def post(call):
        if call.exc is not None:
            return
        ref, est, window = call.args[0], call.args[1], call.args[2]
        dist = call.arg("distance")
        ctx.ev()
        ctx.count("contract.match_events")
        try:
            ref = np.asarray(ref, dtype=float)
            est = np.asarray(est, dtype=float)
        except Exception:
            ctx.count("unclassified")
            return
        if ref.ndim != 1 or est.ndim != 1:
            ctx.count("unclassified")
            return
        if ref.size > MAX_SIDE or est.size > MAX_SIDE or ref.size * est.size > 40000:
            ctx.count("skipped_large")
            return
        if not (np.all(np.isfinite(ref)) and np.all(np.isfinite(est))
                and np.isfinite(window)):
            ctx.count("unclassified")
            return
        if dist is None:
            lattice = _on_lattice(ref, est, window)
            # the library compares ref with fl(est - window) / fl(est + window):
            # its decision can differ from the exact one only within one rounding
            # error of those sums
            scale = float(max(np.max(np.abs(ref)) if ref.size else 0.0,
                              np.max(np.abs(est)) if est.size else 0.0) + abs(window))
            pairs = om.abs_window_pairs(ref, est, window,
                                        eps=0.0 if lattice else 4 * np.spacing(scale))
            ctx.count("match_events.abs")
        else:
            orig = getattr(dist, "__verif_shim__", None)
            name = getattr(dist, "__name__", "")
            if name != "_outer_distance_mod_n":
                ctx.count("unclassified_distance")
                return
            pairs = om.mod_window_pairs(ref, est, window)
            ctx.count("match_events.mod12")
            if any(v != om.NO for (i, j), v in pairs.items()
                   if abs(ref[i] - est[j]) > 6):
                ctx.count("mod12.wraparound_pairs_feasible")
        nmaybe = sum(1 for v in pairs.values() if v == om.MAYBE)
        if nmaybe:
            ctx.count("near_threshold_pairs", nmaybe)
        if any(v == om.YES and _exact_eq(ref[i], est[j], window)
               for (i, j), v in pairs.items()) and dist is None:
            ctx.count("distance_equals_window_calls")
        bad = om.check_matching(call.result, pairs, ref.size, est.size)
        lo, _ = om.bounds(pairs, ref.size, est.size)
        if lo >= 1 and ref.size >= 2 and est.size >= 2:
            ctx.nontrivial("events", ref, est, float(window), dist is not None)
        for b in bad:
            _viol(ctx, call, b, "match_events returned a matching that is %s "
                  "under |ref-est| <= window" % b)
    return post


def _exact_eq(a, b, w):
    return abs(F(float(a)) - F(float(b))) == F(float(w))


def _on_lattice(ref, est, window):
    """All values are multiples of 2^-10 below 2^20: sums are exact."""
    for arr in (ref, est, np.array([window])):
        if arr.size and (np.any(np.abs(arr) > 2 ** 20) or
                         np.any(arr * 1024 != np.round(arr * 1024))):
            return False
    return True


# ---- transcription note matching -------------------------------------

def _round_dist(a, b):
    """(rounded distance as float, ambiguous?) for the documented 4-decimal
    rounding of |a-b|."""
    d = abs(F(float(a)) - F(float(b)))
    s = d * 10 ** N_DEC
    fl = math.floor(s)
    frac = s - fl
    amb = abs(frac - F(1, 2)) < F(1, 10 ** 6)
    r = fl + (1 if frac > F(1, 2) else 0)
    if frac == F(1, 2):
        r = fl + (fl % 2)  # half to even (np.around)
    return r / 10.0 ** N_DEC, amb, F(r, 10 ** N_DEC)


def _cmp_tol(rf, rexact, tol_float, tol_exact, strict, amb):
    if amb:
        return om.MAYBE
    if rexact == tol_exact:
        return om.NO if strict else om.YES
    if abs(rexact - tol_exact) < F(1, 10 ** 9):
        return om.MAYBE
    return om.YES if rexact < tol_exact else om.NO


def onset_pairs(ref_iv, est_iv, tol, strict, col=0):
    out = {}
    te = F(float(tol))
    for i in range(len(ref_iv)):
        for j in range(len(est_iv)):
            rf, amb, rex = _round_dist(ref_iv[i][col], est_iv[j][col])
            out[(i, j)] = _cmp_tol(rf, rex, float(tol), te, strict, amb)
    return out


def offset_pairs(ref_iv, est_iv, ratio, min_tol, strict):
    out = {}
    for i in range(len(ref_iv)):
        dur = F(float(ref_iv[i][1])) - F(float(ref_iv[i][0]))
        te = max(F(float(ratio)) * abs(dur), F(float(min_tol)))
        for j in range(len(est_iv)):
            rf, amb, rex = _round_dist(ref_iv[i][1], est_iv[j][1])
            out[(i, j)] = _cmp_tol(rf, rex, float(te), te, strict, amb)
    return out


def pitch_pairs(ref_p, est_p, tol, strict):
    out = {}
    for i, a in enumerate(ref_p):
        for j, b in enumerate(est_p):
            d = abs(1200.0 * (math.log2(a) - math.log2(b)))
            out[(i, j)] = om.cmp3(d, float(tol), strict, 1e-7) if d != tol \
                else om.MAYBE
    return out


def conj(*maps):
    keys = maps[0].keys()
    out = {}
    for k in keys:
        vs = [m[k] for m in maps]
        if any(v == om.NO for v in vs):
            out[k] = om.NO
        elif any(v == om.MAYBE for v in vs):
            out[k] = om.MAYBE
        else:
            out[k] = om.YES
    return out


def _notes_ok(*arrs):
    for a in arrs:
        a = np.asarray(a)
        if a.dtype == object or not np.all(np.isfinite(a.astype(float))):
            return False
    return True


def post_note_matcher(ctx, which):
    def post(call):
        if call.exc is not None:
            return
        b = call.bound()
        ctx.ev()
        ctx.count("contract." + call.fn)
        ref_iv = np.asarray(b["ref_intervals"], dtype=float)
        est_iv = np.asarray(b["est_intervals"], dtype=float)
        if ref_iv.ndim != 2 or est_iv.ndim != 2 or not _notes_ok(ref_iv, est_iv):
            ctx.count("unclassified")
            return
        if len(ref_iv) * len(est_iv) > 10000:
            ctx.count("skipped_large")
            return
        strict = bool(b.get("strict", False))
        if which == "onsets":
            pairs = onset_pairs(ref_iv, est_iv, b.get("onset_tolerance", 0.05), strict)
        elif which == "offsets":
            pairs = offset_pairs(ref_iv, est_iv, b.get("offset_ratio", 0.2),
                                 b.get("offset_min_tolerance", 0.05), strict)
        else:
            rp = np.asarray(b["ref_pitches"], dtype=float)
            ep = np.asarray(b["est_pitches"], dtype=float)
            if (rp <= 0).any() or (ep <= 0).any() or len(rp) != len(ref_iv) \
                    or len(ep) != len(est_iv):
                ctx.count("unclassified")
                return
            maps = [onset_pairs(ref_iv, est_iv, b.get("onset_tolerance", 0.05), strict),
                    pitch_pairs(rp, ep, b.get("pitch_tolerance", 50.0), strict)]
            if b.get("offset_ratio", 0.2) is not None:
                maps.append(offset_pairs(ref_iv, est_iv, b["offset_ratio"]
                                         if "offset_ratio" in b else 0.2,
                                         b.get("offset_min_tolerance", 0.05), strict))
                ctx.count("notes.with_offset")
            else:
                ctx.count("notes.no_offset")
            pairs = conj(*maps)
        ctx.count("strict" if strict else "nonstrict")
        nm = sum(1 for v in pairs.values() if v == om.MAYBE)
        if nm:
            ctx.count("near_threshold_pairs", nm)
        res = call.result
        if which == "velocity":
            return
        bad = om.check_matching(res, pairs, len(ref_iv), len(est_iv))
        lo, _ = om.bounds(pairs, len(ref_iv), len(est_iv))
        if lo >= 1 and len(ref_iv) >= 2 and len(est_iv) >= 2:
            ctx.nontrivial("notes", which, ref_iv, est_iv, strict,
                           repr(sorted((k, repr(v)) for k, v in b.items()
                                       if not hasattr(v, "shape"))))
        for c in bad:
            _viol(ctx, call, c, "%s returned a matching that is %s under the "
                  "documented onset/pitch/offset predicate (strict=%s)"
                  % (call.fn, c, strict))
    return post


def post_velocity_matcher(ctx):
    """Velocity matching: valid one-to-one subset of feasible timing/pitch pairs
    (maximality does not apply to a regression-filtered subset)."""
    def post(call):
        if call.exc is not None:
            return
        b = call.bound()
        ctx.ev()
        ctx.count("contract." + call.fn)
        ref_iv = np.asarray(b["ref_intervals"], dtype=float)
        est_iv = np.asarray(b["est_intervals"], dtype=float)
        rp = np.asarray(b["ref_pitches"], dtype=float)
        ep = np.asarray(b["est_pitches"], dtype=float)
        if ref_iv.ndim != 2 or est_iv.ndim != 2 or len(ref_iv) * len(est_iv) > 10000:
            ctx.count("skipped_large")
            return
        strict = bool(b.get("strict", False))
        maps = [onset_pairs(ref_iv, est_iv, b.get("onset_tolerance", 0.05), strict),
                pitch_pairs(rp, ep, b.get("pitch_tolerance", 50.0), strict)]
        if b.get("offset_ratio", 0.2) is not None:
            maps.append(offset_pairs(ref_iv, est_iv, b.get("offset_ratio", 0.2),
                                     b.get("offset_min_tolerance", 0.05), strict))
        pairs = conj(*maps)
        ms = [(int(a), int(c)) for a, c in call.result]
        bad = []
        if len({a for a, _ in ms}) != len(ms) or len({c for _, c in ms}) != len(ms):
            bad.append("reuse")
        for a, c in ms:
            if pairs.get((a, c), om.NO) == om.NO:
                bad.append("infeasible-pair")
                break
        _, hi = om.bounds(pairs, len(ref_iv), len(est_iv))
        if len(ms) > hi:
            bad.append("too-large")
        if ms:
            ctx.nontrivial("vel", ref_iv, est_iv, rp, ep)
        for c in bad:
            _viol(ctx, call, c, "velocity match_notes returned a pairing that "
                  "is %s" % c)
    return post


# ---- multipitch.compute_num_true_positives ---------------------------

def post_num_tp(ctx):
    def post(call):
        if call.exc is not None:
            return
        b = call.bound()
        ref, est = b["ref_freqs"], b["est_freqs"]
        window = b.get("window", 0.5)
        chroma = b.get("chroma", False)
        ctx.ev()
        ctx.count("contract.compute_num_true_positives")
        tp = np.asarray(call.result)
        nfr = min(len(ref), len(est))
        if len(ref) != len(est) or tp.shape != (len(ref),):
            if tp.shape != (len(ref),):
                _viol(ctx, call, "arity", "per-frame count array has shape %s "
                      "for %d frames" % (tp.shape, len(ref)))
            return
        if nfr > 3000:
            ctx.count("skipped_large")
            return
        nt = False
        for i in range(nfr):
            r_ = np.asarray(ref[i], dtype=float).ravel()
            e_ = np.asarray(est[i], dtype=float).ravel()
            if r_.size == 0 or e_.size == 0:
                lo = hi = 0
            else:
                if chroma:
                    pairs = om.mod_window_pairs(r_, e_, window)
                else:
                    pairs = om.abs_window_pairs(r_, e_, window, eps=1e-9)
                lo, hi = om.bounds(pairs, r_.size, e_.size)
            if lo >= 1 and min(r_.size, e_.size) >= 2:
                nt = True
            if not (lo <= tp[i] <= hi):
                _viol(ctx, call, "frame-count",
                      "frame %d: %s true positives reported, maximum matching "
                      "size is in [%d, %d] (chroma=%s)" % (i, tp[i], lo, hi, chroma),
                      extra={"frame": i, "ref": r_, "est": e_})
                break
        if nt:
            ctx.nontrivial("tp", [np.asarray(x) for x in ref],
                           [np.asarray(x) for x in est], float(window), bool(chroma))
    return post


def install(ctx, mods=None):
    mods = mods or env.load_repo()
    u, t, tv, mp = (mods["util"], mods["transcription"],
                    mods["transcription_velocity"], mods["multipitch"])
    shim.install(u, "_bipartite_match", post=post_bipartite(ctx))
    shim.install(u, "match_events", post=post_match_events(ctx))
    shim.install(t, "match_note_onsets", post=post_note_matcher(ctx, "onsets"))
    shim.install(t, "match_note_offsets", post=post_note_matcher(ctx, "offsets"))
    shim.install(t, "match_notes", post=post_note_matcher(ctx, "notes"))
    shim.install(tv, "match_notes", post=post_velocity_matcher(ctx))
    shim.install(mp, "compute_num_true_positives", post=post_num_tp(ctx))
