"""C01 monitors: range / type contracts on every public metric function and on
every evaluate() of the 13 task modules, with structural predicates that turn
a witness into a *mechanism key* (DESIGN §3.7)."""

import numpy as np

from .. import env, shim
from ..kinds import FN_KINDS, EVAL_KINDS, range_clause, is_real_scalar
from ..oracles import frames as ofr

_np = np


def _beats_separated(ref, est, thr):
    """Statement's precondition for P-score <= 1: beats inside each sequence
    further apart than twice the correlation window (with 10 ms quantisation
    slack)."""
    ref = np.asarray(ref, dtype=float)
    est = np.asarray(est, dtype=float)
    if ref.size < 2 or est.size < 2:
        return True
    win = thr * float(np.median(np.diff(ref)))
    need = 2 * win + 0.03
    return float(np.min(np.diff(ref))) > need and float(np.min(np.diff(est))) > need


def _n_boundaries(iv, trim):
    iv = np.asarray(iv, dtype=float)
    if iv.size == 0:
        return 0
    b = sorted({round(float(x), 5) for x in iv.ravel()})
    if trim:
        b = b[1:-1]
    return len(b)


def _has_dups(x):
    x = np.asarray(x, dtype=float)
    return x.size > 1 and bool(np.any(np.diff(x) == 0))


def _frame_labels(iv, lab, fs):
    labs, _ = ofr.label_at_samples(iv, lab, fs)
    return ofr.fold(labs)


def _all_distinct(xs):
    return len(set(xs)) == len(xs)


def _seg_pred(b, fs):
    """Structural facts about a segment labelling call."""
    try:
        r = _frame_labels(b["reference_intervals"], b["reference_labels"], fs)
        e = _frame_labels(b["estimated_intervals"], b["estimated_labels"], fs)
    except Exception:
        return {}
    out = {"n": len(r), "ref_distinct": _all_distinct(r), "est_distinct": _all_distinct(e),
           "ref_single": len(set(r)) == 1, "est_single": len(set(e)) == 1}
    # off the dyadic grid the frame count itself can differ by one between exact
    # and floating-point division (10.5 / 0.1): also describe the longer variant
    try:
        from fractions import Fraction as F
        t = F(len(r)) * F(float(fs))
        end = max(float(np.max(b["reference_intervals"])), float(np.max(b["estimated_intervals"])))
        if float(t) < end:
            r2 = r + ofr.fold([ofr.label_at(b["reference_intervals"], b["reference_labels"], t, None)])
            e2 = e + ofr.fold([ofr.label_at(b["estimated_intervals"], b["estimated_labels"], t, None)])
            out["ref_single_alt"] = len(set(r2)) == 1
            out["est_single_alt"] = len(set(e2)) == 1
    except Exception:
        pass
    return out


def _pattern_pred(ref, est, tol):
    """How many reference prototypes translate to an estimated prototype."""
    k = 0
    for rp in ref:
        P = np.asarray(rp[0], dtype=float)
        for ep in est:
            Qm = np.asarray(ep[0], dtype=float)
            if P.shape != Qm.shape:
                continue
            if len(P) == 1 or np.max(np.abs(np.diff(P - Qm, axis=0))) < tol:
                k += 1
                break
    return k


def mechanism(fn, kind, clause, b, idx):
    """Structural predicate suffix for the mechanism key, evaluated on the
    witness. Returns '' when no catalogued mechanism applies."""
    try:
        if kind == "cemgil" and clause == "above-1":
            nref = len(b["reference_beats"])
            nest = len(b["estimated_beats"])
            nvar = max(nref, 2 * nref - 1)
            if (nref if idx == 0 else nvar) > nest:
                return "more-reference-than-estimated-beats"
        if kind == "infogain" and clause == "nan":
            if _has_dups(b["reference_beats"]) or _has_dups(b["estimated_beats"]):
                return "duplicate-beat-times"
        if kind == "stdpattern" and clause == "above-1":
            k = _pattern_pred(b["reference_patterns"], b["estimated_patterns"],
                              b.get("tol", 1e-5))
            if k > len(b["estimated_patterns"]):
                return "more-matched-reference-prototypes-than-estimated-patterns"
        if kind in ("pairwise", "rand", "nmi") and clause in ("nan", "below-0"):
            p = _seg_pred(b, b.get("frame_size", 0.1))
            if kind == "pairwise" and clause == "nan" and (
                    p.get("ref_distinct") or p.get("est_distinct")):
                return "no-two-frames-share-a-label"
            if kind == "rand" and clause == "nan" and p.get("n", 2) <= 1:
                return "fewer-than-two-frames"
            if kind == "nmi" and clause == "below-0" and (
                    p.get("ref_single") != p.get("est_single") or
                    ("ref_single_alt" in p and
                     p.get("ref_single_alt") != p.get("est_single_alt"))):
                return "one-side-single-label-rounding-noise"
        if clause == "not-a-real-scalar" and fn in ("segment.rand_index", "segment.ari"):
            if np.asarray(b["reference_intervals"]).size == 0 or \
                    np.asarray(b["estimated_intervals"]).size == 0:
                return "empty-annotation"
        if clause == "not-a-real-scalar" and fn in (
                "pattern.first_n_three_layer_P", "pattern.first_n_target_proportion_R"):
            n_ref = sum(len(o) for p in b["reference_patterns"] for o in p)
            n_est = sum(len(o) for p in b["estimated_patterns"] for o in p)
            if n_ref == 0 or n_est == 0:
                return "empty-pattern-list"
    except Exception:
        return ""
    return ""


def check_value(ctx, call, fn, kind, v, idx, b, label=None):
    """Range-check one returned component; record a violation if broken."""
    clause = range_clause(kind, v)
    ctx.count("range." + kind)
    if clause is None and is_real_scalar(v):
        x = float(v)
        if kind == "adjusted" and x != x:
            ctx.count("adjusted.nan_not_judged")
        elif kind == "pscore":
            thr = b.get("p_score_threshold", 0.2)
            if _beats_separated(b["reference_beats"], b["estimated_beats"], thr):
                ctx.count("pscore.conditional_bound_applied")
                if x > 1 + 1e-9:
                    clause = "above-1"
            else:
                ctx.count("pscore.clustered_beats_unbounded")
        elif kind == "deviation" and x != x:
            trim = b.get("trim", False)
            if _n_boundaries(b["reference_intervals"], trim) and \
                    _n_boundaries(b["estimated_intervals"], trim):
                clause = "nan-with-boundaries-on-both-sides"
            else:
                ctx.count("deviation.nan_admissible")
    if clause is None:
        return True
    mech = mechanism(fn, kind, clause, b, idx)
    site = fn
    key = "C01/%s/%s%s" % (site, clause, ("/" + mech) if mech else "")
    comp = label if label is not None else "[%d]" % idx
    ctx.violation(key, clause, site,
                  "%s %s = %r violates its documented range (%s)%s"
                  % (fn, comp, _plain(v), kind, (" -- " + mech) if mech else ""),
                  call.case(), witness={"fn": call.fn, "component": comp,
                                        "value": _plain(v), "args": call.case()["args"],
                                        "kwargs": call.case()["kwargs"]})
    return False


def _plain(v):
    if is_real_scalar(v):
        return float(v)
    return v


def post_metric(ctx, fn, kinds, valid=None):
    def post(call):
        if call.exc is not None:
            return
        if valid is not None and not valid(call):
            ctx.count("unclassified_or_invalid." + fn)
            return
        ctx.ev()
        ctx.count("contract." + fn)
        res = call.result
        b = call.bound()
        if len(kinds) == 1:
            comps = [res]
        else:
            if not isinstance(res, (tuple, list)) or len(res) != len(kinds):
                key = "C01/%s/arity" % fn
                ctx.violation(key, "arity", fn, "%s returned %r, documented arity "
                              "is %d" % (fn, type(res).__name__, len(kinds)),
                              call.case())
                return
            comps = list(res)
        nontriv = False
        for i, (k, v) in enumerate(zip(kinds, comps)):
            ok = check_value(ctx, call, fn, k, v, i, b)
            if ok and is_real_scalar(v) and 0.0 < float(v) < 1.0:
                nontriv = True
        if nontriv:
            ctx.nontrivial(fn, call.args, sorted(call.kwargs.items(), key=repr))
    return post


def post_evaluate(ctx, task, valid=None):
    table = EVAL_KINDS[task]
    fn = task + ".evaluate"

    def post(call):
        if call.exc is not None:
            return
        if valid is not None and not valid(call):
            ctx.count("unclassified_or_invalid." + fn)
            return
        ctx.ev()
        ctx.count("contract." + fn)
        res = call.result
        if not hasattr(res, "items"):
            ctx.violation("C01/%s/not-a-mapping" % fn, "type", fn,
                          "evaluate() did not return a mapping", call.case())
            return
        b = _eval_bound(task, call)
        nontriv = False
        for name, v in res.items():
            kind = table.get(name)
            if kind is None:
                ctx.count("evaluate.undocumented_key")
                continue
            bb = b
            ok = check_value(ctx, call, _eval_site(task, name), kind, v,
                             _EVAL_IDX.get((task, name), 0), bb, label=repr(name))
            if ok and is_real_scalar(v) and 0.0 < float(v) < 1.0:
                nontriv = True
        if nontriv:
            ctx.nontrivial(fn, call.args, sorted(call.kwargs.items(), key=repr))
    return post


_EVAL_SITE = {
    ("beat", "Cemgil"): "beat.cemgil",
    ("beat", "Cemgil Best Metric Level"): "beat.cemgil",
    ("beat", "Information gain"): "beat.information_gain",
    ("beat", "P-score"): "beat.p_score",
    ("segment", "Pairwise Precision"): "segment.pairwise",
    ("segment", "Pairwise Recall"): "segment.pairwise",
    ("segment", "Pairwise F-measure"): "segment.pairwise",
    ("segment", "Rand Index"): "segment.rand_index",
    ("segment", "Adjusted Rand Index"): "segment.ari",
    ("segment", "Normalized Mutual Information"): "segment.mutual_information",
    ("pattern", "F"): "pattern.standard_FPR",
    ("pattern", "P"): "pattern.standard_FPR",
    ("pattern", "R"): "pattern.standard_FPR",
    ("pattern", "FFP"): "pattern.first_n_three_layer_P",
    ("pattern", "FFTP_est"): "pattern.first_n_target_proportion_R",
}


_EVAL_IDX = {("beat", "Cemgil Best Metric Level"): 1}


def _eval_site(task, name):
    return _EVAL_SITE.get((task, name), task + ".evaluate")


def _eval_bound(task, call):
    """Arguments of evaluate() renamed to the metric functions' parameter names
    so the structural predicates can be evaluated on evaluate() witnesses too
    (after my own statement of the documented pre-processing)."""
    b = dict(call.kwargs)
    a = call.args
    try:
        if task == "beat":
            mbt = call.kwargs.get("min_beat_time", 5.0)
            b["reference_beats"] = np.asarray(a[0])[np.asarray(a[0]) >= mbt]
            b["estimated_beats"] = np.asarray(a[1])[np.asarray(a[1]) >= mbt]
        elif task == "segment":
            from ..oracles import intervals as oi
            riv, rlab = oi.adjust(a[0], a[1], 0.0, None)
            eiv, elab = oi.adjust(a[2], a[3], 0.0, float(np.max(riv)))
            b.update(reference_intervals=riv, reference_labels=rlab,
                     estimated_intervals=eiv, estimated_labels=elab)
        elif task == "pattern":
            b["reference_patterns"], b["estimated_patterns"] = a[0], a[1]
    except Exception:
        pass
    return b


def install(ctx, mods=None, valid_for=None, tasks=None):
    """valid_for: optional {fn: predicate(call)} restricting the contract to
    calls whose input is valid by my validity model (used for repo-test
    workloads, where tests feed invalid input on purpose)."""
    mods = mods or env.load_repo()
    valid_for = valid_for or {}
    for fn, kinds in FN_KINDS.items():
        mname, name = fn.split(".")
        if tasks is not None and mname not in tasks:
            continue
        shim.install(mods[mname], name,
                     post=post_metric(ctx, fn, kinds, valid_for.get(fn)))
    for task in EVAL_KINDS:
        if tasks is not None and task not in tasks:
            continue
        shim.install(mods[task], "evaluate",
                     post=post_evaluate(ctx, task, valid_for.get(task + ".evaluate")))
