"""Shard worker: runs the real code under the monitors in a fresh interpreter."""

import faulthandler
import importlib
import json
import sys
import traceback
import warnings


def main():
    prop_id, tier, seed, inp, out, timeout = sys.argv[1:7]
    seed = int(seed)
    faulthandler.enable()
    faulthandler.dump_traceback_later(int(timeout), exit=True)
    from . import env
    env.add_deps()
    with open(inp) as f:
        spec = json.load(f)
    warnings.simplefilter("ignore")
    env.load_repo()
    from .ctx import Ctx, dump_json, unpack
    prop = importlib.import_module("vlib.props." + prop_id.lower())
    ctx = Ctx(prop_id, tier, seed, spec["name"])
    try:
        if "replay" in spec:
            ctx.replaying = True
            prop.replay(unpack(spec["replay"]), ctx)
        else:
            prop.run_shard(spec, ctx)
    except Exception:
        ctx.mark_inconclusive("worker exception: " + traceback.format_exc()[-1500:])
    dump_json(ctx.summary(), out)
    faulthandler.cancel_dump_traceback_later()
    return 0


if __name__ == "__main__":
    sys.exit(main())
