"""Shard worker: runs the real code under the monitors in a fresh interpreter."""

import faulthandler
import importlib
import json
import sys
import traceback
import warnings


def _start_reach(repo):
    """Development aid (tools/reach.py): with VERIF_REACH=<dir> record which
    lines of <repo>/mir_eval this shard executed (each location reports once and
    is then disabled, so the cost is negligible)."""
    import os
    d = os.environ.get("VERIF_REACH")
    mon = getattr(sys, "monitoring", None)
    if not d or mon is None:
        return None
    prefix = os.path.join(repo, "mir_eval") + os.sep
    seen = set()
    tool = 4
    mon.use_tool_id(tool, "verif-reach")

    def line(code, ln):
        fn = code.co_filename
        if fn.startswith(prefix):
            seen.add((fn[len(prefix):], ln))
        return mon.DISABLE

    mon.register_callback(tool, mon.events.LINE, line)
    mon.set_events(tool, mon.events.LINE)

    def finish(prop_id, shard):
        mon.set_events(tool, 0)
        os.makedirs(d, exist_ok=True)
        with open(os.path.join(d, "%s-%s.json" % (prop_id, shard)), "w") as fh:
            json.dump(sorted(seen), fh)
    return finish


def main():
    prop_id, tier, seed, inp, out, timeout = sys.argv[1:7]
    seed = int(seed)
    faulthandler.enable()
    faulthandler.dump_traceback_later(int(timeout), exit=True)
    from . import env
    env.add_deps()
    with open(inp) as f:
        spec = json.load(f)
    warnings.simplefilter("ignore")
    env.load_repo()
    reach = _start_reach(env.repo_dir())
    from .ctx import Ctx, dump_json, unpack
    prop = importlib.import_module("vlib.props." + prop_id.lower())
    ctx = Ctx(prop_id, tier, seed, spec["name"])
    try:
        if "replay" in spec:
            ctx.replaying = True
            prop.replay(unpack(spec["replay"]), ctx)
        else:
            prop.run_shard(spec, ctx)
    except Exception:
        ctx.mark_inconclusive("worker exception: " + traceback.format_exc()[-1500:])
    from . import shim
    if shim.STATE.hook_error_count:
        ctx.mark_inconclusive("%d monitor hook(s) raised, first: %r" % (
            shim.STATE.hook_error_count, shim.STATE.hook_errors[:2]))
    dump_json(ctx.summary(), out)
    if reach is not None:
        reach(prop_id, spec["name"])
    faulthandler.cancel_dump_traceback_later()
    return 0


if __name__ == "__main__":
    sys.exit(main())
