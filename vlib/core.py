"""Check driver: plan shards, run workers, classify violations, write evidence.

    check <ID> [--tier quick|thorough] [--replay FILE]

Exit status: 0 = held on everything observed (listed findings reported as
KNOWN-FINDING lines), 1 = at least one unlisted violation (VIOLATION line with
a replay file), 2 = inconclusive (a deciding monitor never fired, a shard died
or timed out, the tree does not compile, non-interference failed).
"""

import concurrent.futures
import importlib
import json
import os
import py_compile
import shutil
import subprocess
import sys
import tempfile
import time

from . import env
from .ctx import dump_json, unpack, to_jsonable

PY = sys.executable


def _load_known():
    path = os.path.join(env.VERIF_DIR, "known_findings.json")
    if not os.path.exists(path):
        return []
    with open(path) as f:
        return json.load(f)["findings"]


def preflight(scratch):
    """'Rebuild from the current working tree': byte-compile every module of
    the repository under test into scratch (nothing is written under /repo)."""
    repo = env.repo_dir()
    pkg = os.path.join(repo, "mir_eval")
    errs = []
    n = 0
    for fn in sorted(os.listdir(pkg)):
        if fn.endswith(".py"):
            n += 1
            try:
                py_compile.compile(
                    os.path.join(pkg, fn),
                    cfile=os.path.join(scratch, "pyc", fn + "c"),
                    doraise=True,
                )
            except py_compile.PyCompileError as e:
                errs.append(str(e))
    return n, errs


def _worker_env():
    e = dict(os.environ)
    e["PYTHONHASHSEED"] = e.get("VERIF_HASHSEED", "0")
    e["PYTHONPATH"] = os.pathsep.join([env.VERIF_DIR, env.DEPS_DIR])
    e["PYTHONDONTWRITEBYTECODE"] = "1"
    e["MIR_EVAL_REPO"] = env.repo_dir()
    e[env.GUARD] = "1"
    e["OMP_NUM_THREADS"] = "1"
    e["OPENBLAS_NUM_THREADS"] = "1"
    e["MKL_NUM_THREADS"] = "1"
    e["MPLBACKEND"] = "Agg"
    return e


def _run_shard(prop_id, tier, seed, spec, scratch):
    name = spec["name"]
    inp = os.path.join(scratch, name + ".spec.json")
    out = os.path.join(scratch, name + ".summary.json")
    log = os.path.join(scratch, name + ".log")
    with open(inp, "w") as f:
        json.dump(spec, f)
    timeout = spec.get("timeout", 900)
    t0 = time.time()
    cmd = [PY, "-X", "faulthandler", "-m", "vlib.worker", prop_id, tier,
           str(seed), inp, out, str(int(timeout))]
    try:
        with open(log, "w") as lf:
            r = subprocess.run(cmd, cwd=scratch, env=_worker_env(),
                               stdout=lf, stderr=subprocess.STDOUT,
                               timeout=timeout + 30)
        rc = r.returncode
    except subprocess.TimeoutExpired:
        rc = "timeout"
    wall = time.time() - t0
    if rc == 0 and os.path.exists(out):
        with open(out) as f:
            s = json.load(f)
        s["wall_s"] = round(wall, 2)
        return s
    tail = ""
    try:
        with open(log) as lf:
            tail = lf.read()[-3000:]
    except OSError:
        pass
    return {"shard": name, "dead": True, "rc": rc, "log_tail": tail,
            "wall_s": round(wall, 2)}


def _nonint(mode, scratch):
    """Battery of evaluate() calls with all monitors on / off in a fresh
    interpreter; returns the parsed NONINT line."""
    try:
        r = subprocess.run([PY, "-m", "vlib.nonint", mode], cwd=scratch,
                           env=_worker_env(), capture_output=True, text=True,
                           timeout=900)
    except subprocess.TimeoutExpired:
        return {"error": "timeout"}
    out = {}
    for line in r.stdout.splitlines():
        if line.startswith("NONINT "):
            for tok in line.split()[1:]:
                k, _, v = tok.partition("=")
                out[k] = v
        if line.startswith("FIDELITY-PROBLEMS"):
            out["fidelity_problems"] = line[:300]
    if not out:
        out = {"error": (r.stderr or r.stdout)[-300:]}
    return out


def merge(summaries):
    m = {"evaluations": 0, "nt": set(), "nt_disjoint": 0, "counters": {},
         "hists": {}, "samples": [], "violations": {}, "inconclusive": [],
         "notes": [], "shards": [], "dead": []}
    for s in summaries:
        if s.get("dead"):
            m["dead"].append(s)
            m["inconclusive"].append(
                "shard %s died/timed out (rc=%s)" % (s["shard"], s.get("rc")))
            continue
        m["shards"].append({"name": s["shard"], "wall_s": s["wall_s"],
                            "evaluations": s["evaluations"]})
        m["evaluations"] += s["evaluations"]
        m["nt"].update(s["nt"])
        m["nt_disjoint"] += s.get("nt_disjoint", 0)
        for k, v in s["counters"].items():
            m["counters"][k] = m["counters"].get(k, 0) + v
        for hn, h in s["hists"].items():
            d = m["hists"].setdefault(hn, {})
            for k, v in h.items():
                d[k] = d.get(k, 0) + v
        for x in s["samples"]:
            if len(m["samples"]) < 12:
                m["samples"].append(x)
        for v in s["violations"]:
            d = m["violations"].get(v["key"])
            if d is None:
                m["violations"][v["key"]] = dict(v, cases=list(v["cases"]))
            else:
                d["count"] += v["count"]
                if len(d["cases"]) < 3:
                    d["cases"].extend(v["cases"][: 3 - len(d["cases"])])
        m["inconclusive"].extend(s.get("inconclusive", []))
        m["notes"].extend(s.get("notes", []))
    return m


def main(argv=None):
    argv = list(sys.argv[1:] if argv is None else argv)
    if not argv:
        print("usage: check <ID> [--tier quick|thorough] [--replay FILE]")
        return 2
    prop_id = argv.pop(0).upper()
    tier = os.environ.get("VERIF_TIER", "quick")
    replay = None
    while argv:
        a = argv.pop(0)
        if a == "--tier":
            tier = argv.pop(0)
        elif a == "--replay":
            replay = argv.pop(0)
        else:
            print("unknown argument", a)
            return 2
    if tier not in ("quick", "thorough"):
        tier = "quick"
    seed = int(os.environ.get("VERIF_SEED", "0") or 0)
    jobs = int(os.environ.get("VERIF_JOBS", "0") or 0) or (os.cpu_count() or 4)
    env.add_deps()
    if not os.path.isdir(os.path.join(env.DEPS_DIR, "icontract")):
        subprocess.run(["sh", os.path.join(env.VERIF_DIR, "setup.sh")],
                       check=False, stdout=subprocess.DEVNULL,
                       stderr=subprocess.DEVNULL)
    t0 = time.time()
    scratch = tempfile.mkdtemp(prefix="verif-%s-" % prop_id)
    try:
        return _main(prop_id, tier, seed, jobs, replay, scratch, t0)
    finally:
        shutil.rmtree(scratch, ignore_errors=True)


def _main(prop_id, tier, seed, jobs, replay, scratch, t0):
    prop = importlib.import_module("vlib.props." + prop_id.lower())
    known = [k for k in _load_known() if k["property"] == prop_id]
    open_known = {k["key"]: k for k in known if k.get("status", "open") == "open"}

    nmods, errs = preflight(scratch)
    if errs:
        print("INCONCLUSIVE property=%s: repository does not compile: %s"
              % (prop_id, errs[0].splitlines()[-1]))
        return 2

    if replay is not None:
        with open(replay) as f:
            rp = json.load(f)
        specs = [{"name": "replay", "replay": rp["case"], "timeout": 900}]
    else:
        specs = prop.plan(tier, seed)
    for s in specs:
        s.setdefault("timeout", 1500 if tier == "quick" else 7200)

    with concurrent.futures.ThreadPoolExecutor(max_workers=jobs) as ex:
        ni = [ex.submit(_nonint, mode, scratch) for mode in ("on", "off")] \
            if replay is None else []
        futs = [ex.submit(_run_shard, prop_id, tier, seed, s, scratch)
                for s in specs]
        summaries = [f.result() for f in futs]
        ni = [f.result() for f in ni]
    m = merge(summaries)
    nonint = None
    if ni:
        nonint = {"on": ni[0], "off": ni[1],
                  "identical": bool(ni[0].get("digest")) and
                  ni[0].get("digest") == ni[1].get("digest")}
        if not nonint["identical"]:
            m["inconclusive"].append(
                "non-interference self-check failed: evaluate() battery differs with "
                "monitors on/off (%r vs %r)" % (ni[0], ni[1]))
        elif ni[0].get("fidelity_problems"):
            m["inconclusive"].append("non-interference self-check: %s"
                                     % ni[0]["fidelity_problems"])

    if hasattr(prop, "finalize") and replay is None:
        prop.finalize(m, tier)

    # -- classify -------------------------------------------------------
    new, listed = [], []
    for key, v in sorted(m["violations"].items()):
        (listed if key in open_known else new).append(v)
    out_lines = []
    out_root = os.environ.get("VERIF_OUT") or env.VERIF_DIR
    rdir = os.path.join(out_root, "replays", prop_id)
    for k in open_known.values():
        v = m["violations"].get(k["key"])
        n = v["count"] if v else 0
        out_lines.append("KNOWN-FINDING: property=%s %s [key=%s; reproduced %d "
                         "time(s) in this run]" % (prop_id, k["what"], k["key"], n))
    replay_paths = []
    if new:
        os.makedirs(rdir, exist_ok=True)
    for i, v in enumerate(new):
        path = os.path.join(rdir, "%s-%s-seed%d-%d.json" % (
            prop_id, tier, seed, i))
        c = v["cases"][0]
        if replay is not None:
            path = os.path.abspath(replay)
        else:
            dump_json({"property": prop_id, "key": v["key"], "clause": v["clause"],
                       "site": v["site"], "what": v["what"], "count": v["count"],
                       "seed": seed, "tier": tier, "witness": c["witness"],
                       "case": c["case"]}, path)
        replay_paths.append(path)
        out_lines.append("VIOLATION property=%s replay=%s" % (prop_id, path))
        out_lines.append("  key=%s site=%s clause=%s count=%d\n  %s\n  witness: %s"
                         % (v["key"], v["site"], v["clause"], v["count"],
                            v["what"], c["witness"][:600]))

    nt = len(m["nt"]) + m["nt_disjoint"]
    inconclusive = list(m["inconclusive"])
    if replay is None and not new:
        if m["evaluations"] == 0:
            inconclusive.append("no monitored execution was observed")
        if nt < 2:
            inconclusive.append("fewer than 2 distinct non-trivial cases")

    # -- evidence -------------------------------------------------------
    wall = round(time.time() - t0, 2)
    if replay is None:
        cov = {
            "evaluations": int(m["evaluations"]),
            "distinct_nontrivial": int(nt),
            "rule": prop.RULE,
            "samples": m["samples"] or ["(none)"],
            "exhaustive": bool(getattr(prop, "EXHAUSTIVE", {}).get(tier, False)),
            "counters": m["counters"],
            "histograms": m["hists"],
            "shards": m["shards"],
            "known_findings_reproduced": {
                v["key"]: v["count"] for v in listed},
            "unlisted_violations": [
                {"key": v["key"], "site": v["site"], "clause": v["clause"],
                 "count": v["count"], "what": v["what"]} for v in new],
            "inconclusive": inconclusive,
            "notes": m["notes"][:40],
            "noninterference": nonint,
            "repo": env.repo_dir(),
            "modules_compiled": nmods,
        }
        if hasattr(prop, "EXHAUSTIVE_DOMAIN"):
            cov["exhaustive_domain"] = prop.EXHAUSTIVE_DOMAIN.get(tier, "")
        ev = {
            "property_id": prop_id, "tier": tier, "seed": seed,
            "level": getattr(prop, "LEVEL", "exploration"),
            "coverage": cov,
            "assumptions": list(getattr(prop, "ASSUMPTIONS", [])),
            "wall_s": wall,
            "violations": len(new),
        }
        epath = os.path.join(out_root, "evidence", prop_id + ".json")
        os.makedirs(os.path.dirname(epath), exist_ok=True)
        ev = to_jsonable(ev)
        _validate_evidence(ev, inconclusive)
        dump_json(ev, epath)

    for line in out_lines:
        print(line)
    print("%s tier=%s seed=%d: %d monitored executions, %d distinct non-trivial, "
          "%d unlisted violation key(s), %d listed finding key(s) reproduced, "
          "%.1fs" % (prop_id, tier, seed, m["evaluations"], nt, len(new),
                     len(listed), wall))
    if new:
        return 1
    if inconclusive:
        for r in inconclusive[:10]:
            print("INCONCLUSIVE property=%s: %s" % (prop_id, r))
        for d in m["dead"][:3]:
            print("--- dead shard %s (rc=%s) ---\n%s" % (
                d["shard"], d.get("rc"), d.get("log_tail", "")[-1500:]))
        return 2
    return 0


def _validate_evidence(ev, inconclusive):
    try:
        import jsonschema
    except ImportError:
        return
    spath = "/root/.vp/EVIDENCE.schema.json"
    local = os.path.join(env.VERIF_DIR, "schemas", "EVIDENCE.schema.json")
    if not os.path.exists(spath):
        spath = local
    if not os.path.exists(spath):
        return
    with open(spath) as f:
        schema = json.load(f)
    try:
        jsonschema.validate(ev, schema)
    except jsonschema.ValidationError as e:
        inconclusive.append("evidence does not validate: %s" % e.message[:200])


if __name__ == "__main__":
    sys.exit(main())
