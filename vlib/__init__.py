"""Runtime-monitoring framework for craffel/mir_eval (see /verif/DESIGN.md)."""
