#!/usr/bin/env python3
"""Prepare a round of *behaviour-preserving* changes (the false-alarm test).

    tools/mkbenign.py <round-dir>

For each target area creates <round-dir>/<tag> (a scratch git worktree of /repo)
and <round-dir>/prompt_<tag>.txt. The sub-agent sees nothing of /verif and no
property text: it is asked for a refactor / clean-up / optimisation that a
maintainer would merge and that changes no documented behaviour. Every check is
then expected to stay silent on it (tools/try_mutant.py <diff> --props all).
"""
import os, subprocess, sys

AREAS = {
    "B01": ("mir_eval/util.py", "match_events, _bipartite_match, _fast_hit_windows, _outer_distance_mod_n, f_measure"),
    "B02": ("mir_eval/util.py", "adjust_intervals, adjust_events, merge_labeled_intervals, interpolate_intervals, intervals_to_samples, intervals_to_boundaries, boundaries_to_intervals, index_labels"),
    "B03": ("mir_eval/segment.py", "detection, deviation, pairwise, rand_index, ari, mutual_information, nce, vmeasure and their private helpers"),
    "B04": ("mir_eval/chord.py", "split, join, encode, encode_many, scale_degree_to_bitmap, quality tables, rotate_bitmaps_to_roots"),
    "B05": ("mir_eval/chord.py", "the comparison functions (thirds ... sevenths_inv, mirex), weighted_accuracy, directional_hamming_distance, merge_chord_intervals, evaluate"),
    "B06": ("mir_eval/melody.py", "to_cent_voicing, resample_melody_series, the voicing / pitch / chroma / overall accuracy measures"),
    "B07": ("mir_eval/multipitch.py", "resample_multipitch, frequencies_to_midi, compute_num_true_positives, compute_accuracy, compute_err_score, metrics"),
    "B08": ("mir_eval/transcription.py and mir_eval/transcription_velocity.py", "match_note_onsets, match_note_offsets, match_notes, precision_recall_f1_overlap, average_overlap_ratio, evaluate"),
    "B09": ("mir_eval/beat.py", "f_measure, cemgil, goto, p_score, continuity, information_gain and their private helpers"),
    "B10": ("mir_eval/hierarchy.py", "_round, _hierarchy_bounds, _align_intervals, _lca, _meet, _gauc, _compare_frame_rankings, tmeasure, lmeasure, evaluate"),
    "B11": ("mir_eval/io.py", "load_delimited and the loaders built on it, load_ragged_time_series, load_patterns, load_key, load_tempo"),
    "B12": ("mir_eval/pattern.py, mir_eval/key.py, mir_eval/tempo.py, mir_eval/onset.py, mir_eval/alignment.py", "any of the metric functions and their helpers"),
}

TEMPLATE = """You are helping to test a verification setup for a Python library by producing a HARMLESS change. You work ONLY inside the git worktree {wt} (a checkout of the library craffel/mir_eval; interpreter /venv/bin/python, numpy/scipy installed, no network). Do NOT read or write anything under /verif or /repo, and do not look for any verification machinery. Write your deliverables to the directory {out} (create it).

Your job: produce ONE realistic, non-trivial, BEHAVIOUR-PRESERVING change to {files} — a refactor, clean-up, modernisation or optimisation that a maintainer would merge — touching some of: {funcs}. It must change NO documented behaviour:
  * the same return values for every valid input (bit-identical where the original is exact integer/boolean/string logic; within 1e-12 relative where you legitimately reorder floating-point arithmetic), including empty, single-element, duplicated, unsorted-but-admitted, integer-typed and list inputs, and including exact ties at tolerance thresholds (do not change which side a tie falls on);
  * the same exception TYPES on invalid input (messages may be reworded slightly, but keep any row / line numbers they mention), the same warnings categories;
  * the same signatures of all public functions (names, order, defaults, no decorators that hide the signature, no *args/**kwargs wrappers): the library routes keyword arguments by inspecting function signatures;
  * no new module-level mutable state or caches, no mutation of the caller's arguments, no dependence on call history;
  * the same keys, key order and value types in every evaluate() result.
Make it a real change (at least ~15 changed lines; e.g. replace a Python loop by vectorised NumPy, restructure control flow, factor out a helper, rename locals, use a different but equivalent NumPy idiom), not a comment or whitespace edit.

Steps:
  1. Start from a clean tree (`git -C {wt} checkout -- .`). Keep a pristine copy of the package for comparison: `cp -r {wt}/mir_eval {scratch}/mir_eval_orig` (outside the worktree).
  2. Make the change under {wt}/mir_eval only.
  3. Write {out}/difftest.py: a differential test that imports the original package (from {scratch}, as `mir_eval_orig`) and the changed one, drives the functions you touched (and the public functions that call them, including the task's evaluate()) with at least 3000 seeded random inputs covering the input classes listed above plus invalid inputs, and asserts identical behaviour (values, exception types). Run it and fix your change until it passes; say how many cases it ran.
  4. Run the existing tests: from the worktree root `cd {wt} && OMP_NUM_THREADS=1 OPENBLAS_NUM_THREADS=1 /venv/bin/python -m pytest -q -p no:cacheprovider --timeout=900 --continue-on-collection-errors 2>&1 | tail -3` must report the same numbers as the unmodified tree ("24 failed, 65 passed, 3 skipped, 24 xfailed, 1 xpassed, ... 13 errors"; these failures/errors are collection/path problems that exist without any change), and the touched task's own test module run from inside tests/ (`cd {wt}/tests && PYTHONPATH={wt} /venv/bin/python -m pytest -q -p no:cacheprovider --no-cov test_<module>.py | tail -3`) must give the same counts before and after.
  5. Save the change: `git -C {wt} diff > {out}/change.diff`, and write {out}/change.json with keys "files", "summary" (what you changed and why it is behaviour-preserving), "difftest_cases" (number), "risky_points" (places where you had to be careful: ties, dtypes, empty input, ordering).
  6. Restore the worktree (`git -C {wt} checkout -- .`).
Never use `git stash`; never kill processes you did not start. In your final message summarise the change in two or three lines and state the test counts and the number of differential cases that passed.
"""


def main():
    rd = os.path.abspath(sys.argv[1])
    assert not rd.startswith("/repo") and not rd.startswith("/verif")
    os.makedirs(os.path.join(rd, "out"), exist_ok=True)
    for tag, (files, funcs) in AREAS.items():
        wt = os.path.join(rd, tag)
        if not os.path.isdir(wt):
            subprocess.run(["git", "-C", "/repo", "worktree", "add", "--detach", wt, "HEAD"],
                           check=True, capture_output=True)
        scratch = os.path.join(rd, "scratch_" + tag)
        os.makedirs(scratch, exist_ok=True)
        with open(os.path.join(rd, "prompt_%s.txt" % tag), "w") as fh:
            fh.write(TEMPLATE.format(wt=wt, out=os.path.join(rd, "out", tag), files=files,
                                     funcs=funcs, scratch=scratch))
        print(tag, files)


if __name__ == "__main__":
    main()
