#!/bin/sh
# Like sweep.sh for a chosen list of checks: tools/sweep_some.sh <tier> <seed> Cnn...
HERE="$(cd "$(dirname "$0")/.." && pwd)"
TIER="$1"; SEED="$2"; shift 2
OUT="$(mktemp -d)"
for c in "$@"; do
  VERIF_OUT="$OUT" VERIF_SEED=$SEED "$HERE/check" $c --tier "$TIER" > "$OUT/$c.log" 2>&1
  rc=$?
  echo "rc=$rc $(grep -v '^KNOWN-FINDING' "$OUT/$c.log" | tail -1 | cut -c1-220)"
  if [ $rc -ne 0 ]; then grep -E "^VIOLATION|^  key=|^INCONCLUSIVE" "$OUT/$c.log" | cut -c1-400 | head -8; fi
done
rm -rf "$OUT"
