#!/usr/bin/env python3
"""Re-run every kept seeded change against the checks that are expected to catch
it (the targeted property plus everything recorded in meta.json) and report
changes that are no longer caught; the outcome is recorded in seeded/REGRESS.json
(read by tools/seedtable.py).
Usage: tools/seeded_regress.py [--tier quick] [--jobs N] [Cnn ...]"""
import glob, json, os, subprocess, sys
from concurrent.futures import ThreadPoolExecutor
VERIF = os.path.dirname(os.path.dirname(os.path.abspath(__file__)))
tier = "quick"
if "--tier" in sys.argv:
    tier = sys.argv[sys.argv.index("--tier") + 1]
jobs = 1
if "--jobs" in sys.argv:
    jobs = int(sys.argv[sys.argv.index("--jobs") + 1])
only = [a for a in sys.argv[1:] if a.startswith("C")]
RECORD = os.path.join(VERIF, "seeded", "REGRESS.json")
record = json.load(open(RECORD)) if os.path.exists(RECORD) else {}
missed = []


def one(d):
    m = json.load(open(os.path.join(d, "meta.json")))
    prev = record.get(m["id"], {}).get("caught_by", [])
    props = sorted(set([m["breaks_property"]] + list(m.get("caught_by") or []) + prev))
    r = subprocess.run([sys.executable, os.path.join(VERIF, "tools", "try_mutant.py"),
                        os.path.join(d, "patch.diff"), "--props", ",".join(props),
                        "--tier", tier, "--skip-pinned"], capture_output=True, text=True)
    try:
        res = json.loads(r.stdout[r.stdout.index("{"):])
    except Exception:
        return m, None, r.stdout[-300:] + r.stderr[-300:]
    return m, res.get("caught_by", []), props


dirs = [d for d in sorted(glob.glob(os.path.join(VERIF, "seeded", "C*")))
        if os.path.isdir(d) and (not only or any(os.path.basename(d).startswith(o)
                                                  for o in only))]
with ThreadPoolExecutor(max_workers=jobs) as ex:
    for m, caught, info in ex.map(one, dirs):
        if caught is None:
            print(m["id"], "ERROR", info); missed.append(m["id"]); continue
        own = m["breaks_property"] in caught
        print("%-10s targeted=%s caught_by=%s%s%s" % (
            m["id"], m["breaks_property"], caught, "" if caught else "   <-- MISSED",
            "" if own or not caught else "   (not by its own property)"), flush=True)
        record[m["id"]] = {"caught_by": caught, "checks_run": info, "tier": tier}
        if not caught and m.get("known_residual"):
            print("           (known residual: %s)" % m["known_residual"][:100])
        elif not caught:
            missed.append(m["id"])
with open(RECORD, "w") as fh:
    json.dump(record, fh, indent=1, sort_keys=True)
print("missed:", missed)
sys.exit(1 if missed else 0)
