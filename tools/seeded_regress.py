#!/usr/bin/env python3
"""Re-run every kept seeded change against the checks that are expected to catch
it (the targeted property plus everything recorded in meta.json) and report
changes that are no longer caught. Usage: tools/seeded_regress.py [--tier quick]"""
import glob, json, os, subprocess, sys
VERIF = os.path.dirname(os.path.dirname(os.path.abspath(__file__)))
tier = "quick"
if "--tier" in sys.argv:
    tier = sys.argv[sys.argv.index("--tier") + 1]
only = [a for a in sys.argv[1:] if a.startswith("C")]
missed = []
for d in sorted(glob.glob(os.path.join(VERIF, "seeded", "*"))):
    m = json.load(open(os.path.join(d, "meta.json")))
    if only and not any(m["id"].startswith(o) for o in only):
        continue
    props = sorted(set([m["breaks_property"]] + list(m.get("caught_by") or [])))
    r = subprocess.run([sys.executable, os.path.join(VERIF, "tools", "try_mutant.py"),
                        os.path.join(d, "patch.diff"), "--props", ",".join(props),
                        "--tier", tier, "--skip-pinned"], capture_output=True, text=True)
    try:
        res = json.loads(r.stdout)
    except Exception:
        print(m["id"], "ERROR", r.stdout[-300:], r.stderr[-300:]); missed.append(m["id"]); continue
    caught = res.get("caught_by", [])
    own = m["breaks_property"] in caught
    print("%-10s targeted=%s caught_by=%s%s" % (m["id"], m["breaks_property"], caught,
          "" if caught else "   <-- MISSED"), flush=True)
    if not caught:
        missed.append(m["id"])
print("missed:", missed)
sys.exit(1 if missed else 0)
