#!/usr/bin/env python3
"""Print, per check, what the committed evidence says was observed (tier, monitored
executions, distinct non-trivial cases, wall time) -- used to refresh DESIGN 10.1."""
import glob, json, os
VERIF = os.path.dirname(os.path.dirname(os.path.abspath(__file__)))
for f in sorted(glob.glob(os.path.join(VERIF, "evidence", "C*.json"))):
    d = json.load(open(f))
    c = d.get("coverage", {})
    print(os.path.basename(f)[:-5], d.get("tier"), "executions", c.get("evaluations"),
          "nontrivial", c.get("distinct_nontrivial"), "wall_s", d.get("wall_s"))
