#!/usr/bin/env python3
"""Prepare a round of seeded-change work for independent sub-agents.

    tools/mkprompts.py <round-dir> [--focus TEXT] [Cnn ...]

For each property creates <round-dir>/Cnn (a scratch git worktree of /repo),
<round-dir>/Cnn.property.txt (the property record only) and
<round-dir>/prompt_Cnn.txt.  The prompt contains nothing from /verif except the
property text and one-line summaries of changes already kept for it (so that a
new change differs in site and mechanism).  <round-dir> must be outside /repo
and /verif; remove the worktrees when the round is over
(`git -C /repo worktree remove --force <round-dir>/Cnn; git worktree prune`).
"""
import glob, json, os, subprocess, sys

VERIF = os.path.dirname(os.path.dirname(os.path.abspath(__file__)))

TEMPLATE = """You are helping to test a verification setup by seeding realistic faults into a Python library. You work ONLY inside the git worktree {wt} (a checkout of the library craffel/mir_eval; interpreter /venv/bin/python, numpy/scipy installed, no network). Do NOT read or write anything under /verif or /repo, and do not look for any verification machinery: your changes must be independent of it. Write your deliverables to the directory {out} (create it).

The property you are attacking is in the file {propfile} (read it first). Your job: produce TWO different, realistic changes to the library source (each one a small edit of the kind a maintainer could plausibly make by mistake or in a well-meant refactor/optimisation) such that each change BREAKS the property while the library still imports and STILL PASSES the existing test suite. Each change must need something specific to manifest — a particular unusual-but-valid input shape, a boundary coincidence or tie, a particular parameter value, a multi-step sequence of calls, or two cooperating edits at different sites that each look fine alone — not something that ordinary use would expose at once (a change that makes every score wrong is useless). Prefer changes in the functions/mechanisms the property file lists, and make the two changes differ in mechanism and site.

Requirements for each change k in {{1, 2}}:
  1. Start from a clean tree (`git -C {wt} checkout -- .`), edit files under {wt}/mir_eval only, then save the change as {out}/m{{k}}.diff with `git -C {wt} diff > {out}/m{{k}}.diff`.
  2. It must pass the existing tests exactly as the unmodified tree does. Run from the worktree root: `cd {wt} && /venv/bin/python -m pytest -q -p no:cacheprovider --timeout=900 --continue-on-collection-errors 2>&1 | tail -3` — on the unmodified tree this reports "24 failed, 65 passed, 3 skipped, 24 xfailed, 1 xpassed, ... 13 errors" (the failures/errors are collection/path problems that exist without any change); with your change the same numbers must come out (in particular 65 passed, 1 xpassed). ALSO run the task's own test module from inside the tests directory, e.g. `cd {wt}/tests && /venv/bin/python -m pytest -q -p no:cacheprovider --no-cov test_<module>.py 2>&1 | tail -3` for every module you touched (these regression tests compare against recorded numbers; skip test_hierarchy.py's slow cases with `-k "not tmeasure_pass and not lmeasure_pass"` and skip test_separation.py and test_display.py), before and after your change, and make sure your change does not alter their pass/fail counts either. (When running python inside the worktree make sure it imports the worktree's mir_eval: run with the worktree root as current directory or set PYTHONPATH={wt}; check with `python -c "import mir_eval; print(mir_eval.__file__)"`.)
  3. Write a demonstration {out}/m{{k}}_demo.py: a small standalone script (it must put the path given in the environment variable MIR_EVAL_REPO, default {wt}, at sys.path[0] before importing mir_eval) that exercises the property on a concrete input and exits with status 1 (printing what it observed) when the property is violated and 0 when it holds. Verify: with the change applied it exits 1, on the clean tree it exits 0.
  4. Write {out}/m{{k}}.json with keys: "property" (the id), "files" (edited files), "summary" (one paragraph: what was changed and why it looks innocent), "needs" (what specific input / sequence / parameter is needed for the violation to manifest), "demo_input" (the concrete witness in words).
Practical tips: always export OMP_NUM_THREADS=1 OPENBLAS_NUM_THREADS=1 before running pytest (tests/test_beat.py stalls otherwise on this loaded machine); when running pytest from inside the tests/ directory you MUST set PYTHONPATH={wt} or the installed copy of mir_eval is imported instead of the worktree's; NEVER use `git stash` (the stash is shared between worktrees and other agents use it) - save your diff to a file, `git checkout -- .`, and `git apply` it again instead; never kill processes you did not start.

{focus}
Already taken (yours must differ from all of them in site and mechanism):
{taken}

Finally restore the worktree to the clean state (`git -C {wt} checkout -- .`). In your final message list the two changes (one line each) and confirm the test counts and demo exit codes you observed for each. Do not spend effort on anything else.
"""

DEFAULT_FOCUS = ("This is a later round: many obvious slips were already tried. Look in parts of "
                 "the property statement the earlier changes did not touch, and in task modules "
                 "they did not touch.")


def main():
    args = sys.argv[1:]
    rd = os.path.abspath(args.pop(0))
    focus = DEFAULT_FOCUS
    if args and args[0] == "--focus":
        args.pop(0)
        focus = args.pop(0)
    assert not rd.startswith("/repo") and not rd.startswith(VERIF)
    props = {}
    for line in open(os.path.join(VERIF, "properties.jsonl")):
        d = json.loads(line)
        props[d["id"]] = d
    ids = args or sorted(props)
    os.makedirs(os.path.join(rd, "out"), exist_ok=True)
    for pid in ids:
        wt = os.path.join(rd, pid)
        if not os.path.isdir(wt):
            subprocess.run(["git", "-C", "/repo", "worktree", "add", "--detach", wt, "HEAD"],
                           check=True, capture_output=True)
        pf = os.path.join(rd, pid + ".property.txt")
        with open(pf, "w") as fh:
            json.dump(props[pid], fh, indent=1)
        taken = []
        for m in sorted(glob.glob(os.path.join(VERIF, "seeded", pid + "-*", "meta.json"))):
            d = json.load(open(m))
            taken.append("- %s: %s" % (", ".join(d.get("files", [])), d.get("summary", "")[:330]))
        with open(os.path.join(rd, "prompt_%s.txt" % pid), "w") as fh:
            fh.write(TEMPLATE.format(wt=wt, out=os.path.join(rd, "out", pid), propfile=pf,
                                     focus=focus, taken="\n".join(taken) or "- (none)"))
        print(pid, "worktree", wt, "taken", len(taken))


if __name__ == "__main__":
    main()
