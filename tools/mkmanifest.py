#!/usr/bin/env python3
"""Regenerate /verif/MANIFEST.json from the table below (kept valid at all
times; properties without a check are listed under not_applicable)."""

import importlib
import json
import os
import sys

HERE = os.path.dirname(os.path.dirname(os.path.abspath(__file__)))
sys.path.insert(0, HERE)

BASELINE_OFF = ("cd /repo && env -u MIR_EVAL_VERIF /venv/bin/python -m pytest -ra -q "
                "-p no:cacheprovider --timeout=900 --continue-on-collection-errors")

# id -> (design_ref, technique, level text, level note)
CHECKS = {}


def load_checks():
    from vlib import registry
    return registry.CHECKS


def main():
    checks = load_checks()
    props = [json.loads(l) for l in open(os.path.join(HERE, "properties.jsonl"))]
    out_checks = []
    na = []
    for p in props:
        pid = p["id"]
        c = checks.get(pid)
        if c is None or c.get("not_applicable"):
            na.append({"property_id": pid,
                       "reason": (c or {}).get(
                           "reason", "check not built yet in this round (runtime-"
                           "monitoring design exists in DESIGN.md section 5)")})
            continue
        out_checks.append({
            "property_id": pid,
            "quick_cmd": "./check %s --tier quick" % pid,
            "thorough_cmd": "./check %s --tier thorough" % pid,
            "evidence_file": "/verif/evidence/%s.json" % pid,
            "replay_cmd_template": "./check %s --replay {path}" % pid,
            "engine": "vlib",
            "level_claimed": {"category": c.get("category", "exploration"),
                              "text": c["text"],
                              "design_ref": c["design_ref"]},
            "level_note": c["note"],
            "technique": c["technique"],
        })
    man = {
        "version": 1,
        "setup_cmd": "sh ./setup.sh",
        "hooks": {
            "guard": "MIR_EVAL_VERIF",
            "enable": ("no source hooks: monitors are installed from the harness "
                       "by rebinding module attributes with signature-faithful "
                       "shims (vlib/shim.py) and by sys.monitoring on the real "
                       "code objects; MIR_EVAL_VERIF=1 is exported by the harness "
                       "for completeness but nothing in /repo reads it"),
            "baseline_off_cmd": BASELINE_OFF,
            "source_commits": [],
            "add_only": True,
        },
        "engines": [{
            "name": "vlib",
            "path": "/verif/vlib",
            "serves_properties": [c["property_id"] for c in out_checks],
            "kind_free_text": ("runtime monitoring of the real mir_eval code: "
                               "post-condition contracts and reference-model "
                               "monitors on shimmed functions, offline checkers "
                               "over recorded event logs, Python-level sanitizers "
                               "(poisoned np.empty, write-protected buffers, FP "
                               "traps), sys.monitoring coverage of anchored code"),
        }],
        "checks": out_checks,
        "not_applicable": na,
        "notes": ("Every check: exit 0 held / 1 VIOLATION (replay file) / 2 "
                  "inconclusive. Known findings are listed in "
                  "/verif/known_findings.json by mechanism key. See DESIGN.md."),
    }
    path = os.path.join(HERE, "MANIFEST.json")
    with open(path, "w") as f:
        json.dump(man, f, indent=1)
        f.write("\n")
    try:
        sys.path.append(os.path.join(HERE, ".deps"))
        import jsonschema
        schema = json.load(open(os.path.join(HERE, "schemas", "MANIFEST.schema.json")))
        jsonschema.validate(man, schema)
        print("MANIFEST.json valid: %d checks, %d not_applicable" % (
            len(out_checks), len(na)))
    except ImportError:
        print("written (jsonschema unavailable, not validated)")


if __name__ == "__main__":
    main()
