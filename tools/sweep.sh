#!/bin/sh
# Run every check for several seeds (evidence redirected to a scratch dir) and print one line per run.
# usage: tools/sweep.sh [tier] [seeds...]
HERE="$(cd "$(dirname "$0")/.." && pwd)"
TIER="${1:-quick}"; shift
SEEDS="${*:-0 1 2 3 7 11 42 1234}"
OUT="$(mktemp -d)"
for s in $SEEDS; do
  for i in 01 02 03 04 05 06 07 08 09 10 11 12 13 14 15 16 17 18 19 20; do
    VERIF_OUT="$OUT" VERIF_SEED=$s "$HERE/check" C$i --tier "$TIER" > "$OUT/C$i.$s.log" 2>&1
    rc=$?
    echo "rc=$rc $(grep -v '^KNOWN-FINDING' "$OUT/C$i.$s.log" | tail -1 | cut -c1-220)"
    if [ $rc -ne 0 ]; then grep -E "^VIOLATION|^  key=|^INCONCLUSIVE" "$OUT/C$i.$s.log" | cut -c1-400 | head -8; fi
  done
done
rm -rf "$OUT"
