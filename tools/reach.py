#!/usr/bin/env python3
"""Which lines of mir_eval do the workloads of all checks reach?

    tools/reach.py [--tier quick] [--seed 0] [Cnn ...]

Runs the checks with VERIF_REACH set (each shard worker then records the
executed lines of <repo>/mir_eval via sys.monitoring, see vlib/worker.py),
aggregates them and writes coverage/REACH.md + coverage/reach.json: per module
and per function the executable lines reached by at least one shard of at least
one check, and the source text of every line no workload reaches. A development
aid for finding workload gaps; no verdict depends on it.
"""
import glob, json, os, shutil, subprocess, sys, tempfile, types

VERIF = os.path.dirname(os.path.dirname(os.path.abspath(__file__)))
REPO = os.path.abspath(os.environ.get("MIR_EVAL_REPO", "/repo"))
SKIP = {"display.py", "__init__.py"}


def code_lines(path):
    src = open(path).read()
    top = compile(src, path, "exec")
    out = {}   # qualname -> set(lines)

    def walk(code, qual):
        if qual is not None:
            lines = {ln for _, _, ln in code.co_lines() if ln is not None}
            lines.discard(code.co_firstlineno)
            out.setdefault(qual, set()).update(lines)
        for c in code.co_consts:
            if isinstance(c, types.CodeType):
                nm = c.co_name if qual is None else qual + "." + c.co_name
                walk(c, nm)
    walk(top, None)
    return out, src.split("\n")


def main():
    args = sys.argv[1:]
    tier, seed = "quick", "0"
    if "--tier" in args:
        i = args.index("--tier"); tier = args[i + 1]; del args[i:i + 2]
    if "--seed" in args:
        i = args.index("--seed"); seed = args[i + 1]; del args[i:i + 2]
    props = args or ["C%02d" % i for i in range(1, 21)]
    scratch = tempfile.mkdtemp(prefix="reach-")
    rd = os.path.join(scratch, "reach")
    env = dict(os.environ, VERIF_REACH=rd, VERIF_OUT=os.path.join(scratch, "out"),
               VERIF_SEED=seed)
    by_prop = {}
    try:
        for p in props:
            r = subprocess.run([os.path.join(VERIF, "check"), p, "--tier", tier], env=env,
                               capture_output=True, text=True)
            print(p, "rc", r.returncode, flush=True)
        seen = set()
        for f in glob.glob(os.path.join(rd, "*.json")):
            pid = os.path.basename(f).split("-")[0]
            for fn, ln in json.load(open(f)):
                seen.add((fn, ln))
                by_prop.setdefault((fn, ln), set()).add(pid)
    finally:
        shutil.rmtree(scratch, ignore_errors=True)
    report = {}
    md = ["# Lines of mir_eval reached by the workloads (tier %s, seed %s)" % (tier, seed), "",
          "Produced by `tools/reach.py`; executable lines of each function body that at "
          "least one shard of at least one check executed. Docstring-only and `def` "
          "lines are not counted.", ""]
    tot_l = tot_h = 0
    for path in sorted(glob.glob(os.path.join(REPO, "mir_eval", "*.py"))):
        base = os.path.basename(path)
        if base in SKIP:
            continue
        funcs, src = code_lines(path)
        mod_l = mod_h = 0
        rows = []
        for q, lines in sorted(funcs.items(), key=lambda kv: min(kv[1]) if kv[1] else 0):
            if not lines:
                continue
            hit = {ln for ln in lines if (base, ln) in seen}
            miss = sorted(lines - hit)
            mod_l += len(lines); mod_h += len(hit)
            if miss:
                rows.append((q, len(hit), len(lines), miss))
        report[base] = {"lines": mod_l, "reached": mod_h,
                        "unreached": {q: m for q, _, _, m in rows}}
        tot_l += mod_l; tot_h += mod_h
        md.append("## %s: %d / %d lines reached" % (base, mod_h, mod_l))
        for q, h, n, miss in rows:
            md.append("* `%s` %d/%d:" % (q, h, n))
            for ln in miss[:25]:
                md.append("    - %d: `%s`" % (ln, src[ln - 1].strip()[:110]))
        md.append("")
    md.insert(2, "**Total: %d / %d (%.1f %%)**" % (tot_h, tot_l, 100.0 * tot_h / max(1, tot_l)))
    os.makedirs(os.path.join(VERIF, "coverage"), exist_ok=True)
    open(os.path.join(VERIF, "coverage", "REACH.md"), "w").write("\n".join(md) + "\n")
    json.dump(report, open(os.path.join(VERIF, "coverage", "reach.json"), "w"), indent=1,
              sort_keys=True)
    print("total %d/%d" % (tot_h, tot_l))


if __name__ == "__main__":
    main()
