#!/bin/sh
# Run the task test modules from tests/ (not part of the pinned baseline) and print "test outcome" lines.
REPO="${1:-/repo}"
OUT="$(mktemp)"
cd "$REPO/tests" && /venv/bin/python -m pytest -q -p no:cacheprovider --no-cov -rA \
  test_alignment.py test_beat.py test_chord.py test_key.py test_melody.py test_multipitch.py \
  test_onset.py test_pattern.py test_segment.py test_tempo.py test_transcription.py \
  test_transcription_velocity.py test_util.py test_input_output.py test_sonify.py >"$OUT" 2>&1
grep -E "^(PASSED|FAILED|XFAIL|XPASS|ERROR|SKIPPED)" "$OUT" | sed -e 's/ - .*//' | sort
rm -f "$OUT"
