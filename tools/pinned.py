#!/usr/bin/env python3
"""Run the pinned baseline command (guard off) and compare with BASELINE.json by test name."""
import json, os, subprocess, sys, tempfile
import xml.etree.ElementTree as ET
repo = sys.argv[1] if len(sys.argv) > 1 else "/repo"
base = json.load(open("/root/.vp/BASELINE.json"))
x = tempfile.mktemp(suffix=".xml")
env = dict(os.environ); env.pop("MIR_EVAL_VERIF", None)
subprocess.run(["/venv/bin/python", "-m", "pytest", "-ra", "-q", "-p", "no:cacheprovider",
                "--timeout=900", "--continue-on-collection-errors", "--junitxml=" + x],
               cwd=repo, env=env, stdout=subprocess.DEVNULL, stderr=subprocess.DEVNULL)
passed = set()
for tc in ET.parse(x).getroot().iter("testcase"):
    bad = [c.tag for c in tc if c.tag in ("failure", "error", "skipped")]
    if not bad:
        passed.add("%s::%s" % (tc.get("classname"), tc.get("name")))
os.unlink(x)
want = set(base["stable_pass"])
missing = sorted(want - passed)
print("pinned: %d/%d stable tests pass; missing: %s" % (len(want & passed), len(want), missing))
sys.exit(1 if missing else 0)
