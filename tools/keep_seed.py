#!/usr/bin/env python3
"""Confirm a seeded change and keep it under /verif/seeded/<id>/.

    tools/keep_seed.py /tmp/wt/out/C10 1 [--props C10,C11] [--tier quick]
"""
import argparse, json, os, shutil, subprocess, sys
VERIF = os.path.dirname(os.path.dirname(os.path.abspath(__file__)))

ap = argparse.ArgumentParser()
ap.add_argument("outdir"); ap.add_argument("k")
ap.add_argument("--props", default="all"); ap.add_argument("--tier", default="quick")
ap.add_argument("--seed", default="0")
ap.add_argument("--tag", default="")
a = ap.parse_args()
src = a.outdir.rstrip("/")
pid = os.path.basename(src)
name = "%s-%sm%s" % (pid, a.tag, a.k)
patch = os.path.join(src, "m%s.diff" % a.k)
demo = os.path.join(src, "m%s_demo.py" % a.k)
meta_in = json.load(open(os.path.join(src, "m%s.json" % a.k)))
r = subprocess.run([sys.executable, os.path.join(VERIF, "tools", "try_mutant.py"), patch,
                    "--demo", demo, "--props", a.props, "--tier", a.tier, "--seed", a.seed],
                   capture_output=True, text=True)
try:
    res = json.loads(r.stdout)
except Exception:
    print("could not evaluate:", r.stdout[-500:], r.stderr[-500:]); sys.exit(2)
ok = res.get("apply") == "ok" and res.get("pinned_ok") and res.get("demo_with_change") == 1 \
    and res.get("demo_clean") == 0
print(name, "confirmed" if ok else "NOT CONFIRMED", "| caught by:", res.get("caught_by"))
for p, v in res.get("checks", {}).items():
    if v["rc"] != 0:
        print("   ", p, "rc", v["rc"], v["keys"][:2])
if not ok:
    print(json.dumps({k: res.get(k) for k in ("apply", "pinned", "demo_with_change", "demo_clean")}))
    sys.exit(1)
dst = os.path.join(VERIF, "seeded", name)
os.makedirs(dst, exist_ok=True)
shutil.copy(patch, os.path.join(dst, "patch.diff"))
shutil.copy(demo, os.path.join(dst, "demo.py"))
meta = {
    "id": name, "breaks_property": meta_in.get("property", pid), "files": meta_in.get("files"),
    "summary": meta_in.get("summary"), "needs_to_manifest": meta_in.get("needs"),
    "demo_input": meta_in.get("demo_input"),
    "origin": "written by an independent sub-agent that saw only the property text and a scratch worktree",
    "confirmed": {
        "applies_to_repo_HEAD": True, "pinned_suite": res.get("pinned"),
        "demo_exit_with_change": res.get("demo_with_change"), "demo_exit_clean": res.get("demo_clean"),
        "how": "tools/try_mutant.py: scratch git worktree of /repo outside /repo and /verif, git apply, tools/pinned.py, demo with MIR_EVAL_REPO=<worktree> and =/repo, checks with MIR_EVAL_REPO=<worktree> VERIF_OUT=<scratch>; worktree removed afterwards"},
    "checks_run": {p: {"exit": v["rc"], "violation_keys": v["keys"]} for p, v in res.get("checks", {}).items()},
    "caught_by": res.get("caught_by"), "tier": a.tier, "seed": int(a.seed),
}
json.dump(meta, open(os.path.join(dst, "meta.json"), "w"), indent=1)
