#!/usr/bin/env python3
"""Evaluate seeded changes against the checks.

    tools/try_mutant.py <patch.diff> [--demo demo.py] [--props C01,C05|all] [--tier quick]

Applies the patch to a scratch worktree of /repo (outside /repo and /verif),
verifies that the pinned suite still passes, runs the demonstration (must exit
1 with the change, 0 without), runs the requested checks with
MIR_EVAL_REPO=<copy> and VERIF_OUT=<scratch> (so committed evidence is not
touched), prints which checks raised a VIOLATION, and removes the worktree.
"""
import argparse, json, os, shutil, subprocess, sys, tempfile, time

VERIF = os.path.dirname(os.path.dirname(os.path.abspath(__file__)))
ALL = ["C%02d" % i for i in range(1, 21)]


def sh(cmd, **kw):
    return subprocess.run(cmd, shell=isinstance(cmd, str), capture_output=True, text=True, **kw)


def main():
    ap = argparse.ArgumentParser()
    ap.add_argument("patch")
    ap.add_argument("--demo")
    ap.add_argument("--props", default="all")
    ap.add_argument("--tier", default="quick")
    ap.add_argument("--skip-pinned", action="store_true")
    ap.add_argument("--seed", default="0")
    a = ap.parse_args()
    props = ALL if a.props == "all" else a.props.split(",")
    scratch = tempfile.mkdtemp(prefix="mutant-")
    wt = os.path.join(scratch, "repo")
    out = {"patch": a.patch}
    try:
        r = sh(["git", "-C", "/repo", "worktree", "add", "--detach", wt, "HEAD"])
        if r.returncode:
            print(r.stderr); return 2
        r = sh(["git", "-C", wt, "apply", os.path.abspath(a.patch)])
        if r.returncode:
            out["apply"] = "FAILED: " + r.stderr.strip()[:300]
            print(json.dumps(out, indent=1)); return 2
        out["apply"] = "ok"
        if not a.skip_pinned:
            r = sh([sys.executable, os.path.join(VERIF, "tools", "pinned.py"), wt])
            out["pinned"] = r.stdout.strip()[-200:]
            out["pinned_ok"] = r.returncode == 0
        if a.demo:
            # single-threaded BLAS: demonstrations that call BSS-eval stall for hours
            # on a loaded machine otherwise
            one = {"OMP_NUM_THREADS": "1", "OPENBLAS_NUM_THREADS": "1", "MKL_NUM_THREADS": "1"}
            env = dict(os.environ, MIR_EVAL_REPO=wt, **one)
            env0 = dict(os.environ, MIR_EVAL_REPO="/repo", **one)
            try:
                r1 = sh([sys.executable, os.path.abspath(a.demo)], env=env, cwd=scratch,
                        timeout=1200)
                r0 = sh([sys.executable, os.path.abspath(a.demo)], env=env0, cwd=scratch,
                        timeout=1200)
                out["demo_with_change"] = r1.returncode
                out["demo_clean"] = r0.returncode
            except subprocess.TimeoutExpired:
                out["demo_with_change"] = out["demo_clean"] = "timeout"
        env = dict(os.environ, MIR_EVAL_REPO=wt, VERIF_OUT=os.path.join(scratch, "out"),
                   VERIF_SEED=a.seed)
        caught = {}
        for p in props:
            t0 = time.time()
            r = sh([os.path.join(VERIF, "check"), p, "--tier", a.tier], env=env)
            viol = [l for l in r.stdout.splitlines() if l.startswith("VIOLATION")]
            keys = [l.strip() for l in r.stdout.splitlines() if l.strip().startswith("key=")]
            caught[p] = {"rc": r.returncode, "violations": len(viol),
                         "keys": [k[:160] for k in keys[:4]], "s": round(time.time() - t0, 1)}
        out["checks"] = caught
        out["caught_by"] = [p for p, v in caught.items() if v["rc"] == 1]
        print(json.dumps(out, indent=1))
        return 0
    finally:
        sh(["git", "-C", "/repo", "worktree", "remove", "--force", wt])
        shutil.rmtree(scratch, ignore_errors=True)


if __name__ == "__main__":
    sys.exit(main())
