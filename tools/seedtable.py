#!/usr/bin/env python3
"""Regenerate the table of seeded changes in DESIGN.md (between the SEEDTABLE
markers) from seeded/*/meta.json and seeded/REGRESS.json."""
import glob, json, os, re
VERIF = os.path.dirname(os.path.dirname(os.path.abspath(__file__)))
rec = {}
p = os.path.join(VERIF, "seeded", "REGRESS.json")
if os.path.exists(p):
    rec = json.load(open(p))
rows = ["| id | files | needs to manifest | caught by (of the checks run on it) |",
        "|---|---|---|---|"]


def key(d):
    b = os.path.basename(d)
    prop, tag = b.split("-", 1)
    rnd = 1 if tag.startswith("m") else int(tag[1])
    return (prop, rnd, tag)


for d in sorted(glob.glob(os.path.join(VERIF, "seeded", "C*")), key=key):
    if not os.path.isdir(d):
        continue
    m = json.load(open(os.path.join(d, "meta.json")))
    caught = rec.get(m["id"], {}).get("caught_by")
    if caught is None:
        caught = m.get("caught_by") or [k for k, v in m.get("checks_run", {}).items()
                                        if v.get("exit") == 1]
    own = m["breaks_property"]
    caught = sorted(caught, key=lambda c: (c != own, c))
    files = ", ".join(os.path.basename(f) for f in m.get("files", []))
    needs = " ".join(str(m.get("needs_to_manifest", "")).split())[:150].replace("|", "/")
    none = "**none** (known residual: workload size)" if m.get("known_residual") else "**none**"
    rows.append("| %s | %s | %s | %s |" % (m["id"], files, needs, ", ".join(caught) or none))
block = "<!-- SEEDTABLE BEGIN (tools/seedtable.py) -->\n" + "\n".join(rows) + \
        "\n<!-- SEEDTABLE END -->"
dp = os.path.join(VERIF, "DESIGN.md")
s = open(dp).read()
if "<!-- SEEDTABLE BEGIN" in s:
    s = re.sub(r"<!-- SEEDTABLE BEGIN.*?<!-- SEEDTABLE END -->", lambda _: block, s, flags=re.S)
else:
    # first use: replace the existing markdown table that starts with the header row
    i = s.index("| id | files | needs to manifest |")
    j = i
    lines = s[i:].split("\n")
    n = 0
    for ln in lines:
        if ln.startswith("|"):
            n += len(ln) + 1
        else:
            break
    s = s[:i] + block + "\n" + s[i + n:]
open(dp, "w").write(s)
print(len(rows) - 2, "rows")
