#!/usr/bin/env python3
"""Run every check on every kept behaviour-preserving change (benign/<id>/change.diff)
and report any alarm: these are refactors that change no documented behaviour, so a
VIOLATION on one of them is a false alarm of the check.
Usage: tools/benign_regress.py [--tier quick] [Bnn ...]"""
import glob, json, os, subprocess, sys
VERIF = os.path.dirname(os.path.dirname(os.path.abspath(__file__)))
tier = "quick"
if "--tier" in sys.argv:
    tier = sys.argv[sys.argv.index("--tier") + 1]
only = [a for a in sys.argv[1:] if a.startswith("B")]
bad = []
for d in sorted(glob.glob(os.path.join(VERIF, "benign", "B*"))):
    bid = os.path.basename(d)
    if only and bid not in only:
        continue
    r = subprocess.run([sys.executable, os.path.join(VERIF, "tools", "try_mutant.py"),
                        os.path.join(d, "change.diff"), "--props", "all", "--tier", tier],
                       capture_output=True, text=True)
    try:
        res = json.loads(r.stdout[r.stdout.index("{"):])
    except Exception:
        print(bid, "ERROR", r.stdout[-300:], r.stderr[-300:]); bad.append(bid); continue
    inc = [k for k, v in res.get("checks", {}).items() if v.get("rc") not in (0, 1)]
    out = {"id": bid, "pinned_ok": res.get("pinned_ok"), "tier": tier,
           "checks_run": sorted(res.get("checks", {})), "alarms": res.get("caught_by"),
           "inconclusive": inc}
    json.dump(out, open(os.path.join(d, "result.json"), "w"), indent=1)
    print(bid, "pinned_ok", out["pinned_ok"], "alarms", out["alarms"], "inconclusive", inc,
          flush=True)
    if out["alarms"] or inc or not out["pinned_ok"]:
        bad.append(bid)
print("changes with an alarm:", bad)
sys.exit(1 if bad else 0)
