#!/bin/sh
# Offline setup: third-party monitor libraries beside the repository's interpreter.
HERE="$(cd "$(dirname "$0")" && pwd)"
PY="${VERIF_PYTHON:-/venv/bin/python}"
if [ ! -d "$HERE/.deps/icontract" ] || [ ! -d "$HERE/.deps/deal" ] || [ ! -d "$HERE/.deps/jsonschema" ]; then
  PIP_NO_INDEX=1 "$PY" -m pip install --quiet --no-index --find-links /opt/veriftools/wheels \
      --target "$HERE/.deps" deal icontract jsonschema atheris >/dev/null 2>&1 || \
  PIP_NO_INDEX=1 "$PY" -m pip install --quiet --no-index --find-links /opt/veriftools/wheels \
      --target "$HERE/.deps" deal icontract jsonschema
fi
mkdir -p "$HERE/evidence" "$HERE/schemas"
[ -f /root/.vp/EVIDENCE.schema.json ] && cp /root/.vp/EVIDENCE.schema.json "$HERE/schemas/" 2>/dev/null
"$PY" - <<PYEOF
import sys
sys.path.insert(0, "$HERE/.deps")
import icontract, deal, jsonschema
print("verif setup ok: icontract", icontract.__version__)
PYEOF
